/-
C10 — the sum clause under the standard model of floating-point arithmetic.

`FlModel`: real-valued operations `fadd`, `fsub`, `fmul` with `fl(a op b) = (a op b)(1 + d)`, `|d| ≤ u`, and for a
product additionally an absolute term `|η| ≤ nu` (a product may underflow; sums and differences of floats are exact
when they are subnormal).  No overflow.  binary64, round to nearest: `u = 2^-53`, `nu = 2^-1075`.
`FlNum M` carries the model in its type; its `RealLike` instance runs the model definitions `RealOps.blendPair`,
`RealOps.sbxPair` (transcribed from the Python source, same operation order) with the rounded operations.
-/
import DeapModel.Core.RealOps
import Mathlib.Analysis.SpecialFunctions.Pow.Real
import Mathlib.Tactic.Linarith
import Mathlib.Tactic.Positivity
import Mathlib.Tactic.Ring
import Mathlib.Tactic.NormNum

set_option linter.unusedSimpArgs false
set_option linter.unusedVariables false

namespace RealOps

/-- the standard model of floating-point arithmetic (with gradual underflow of products) -/
structure FlModel where
  /-- unit roundoff -/
  u : ℝ
  /-- largest absolute error of an underflowing product -/
  nu : ℝ
  fadd : ℝ → ℝ → ℝ
  fsub : ℝ → ℝ → ℝ
  fmul : ℝ → ℝ → ℝ
  fdiv : ℝ → ℝ → ℝ
  fpow : ℝ → ℝ → ℝ
  u_nonneg : 0 ≤ u
  nu_nonneg : 0 ≤ nu
  add_spec : ∀ a b, ∃ d, |d| ≤ u ∧ fadd a b = (a + b) * (1 + d)
  sub_spec : ∀ a b, ∃ d, |d| ≤ u ∧ fsub a b = (a - b) * (1 + d)
  mul_spec : ∀ a b, ∃ d e, |d| ≤ u ∧ |e| ≤ nu ∧ fmul a b = (a * b) * (1 + d) + e

/-- a real number computed with the operations of `M` -/
structure FlNum (M : FlModel) where
  val : ℝ

noncomputable instance (M : FlModel) : RealLike (FlNum M) where
  add a b := ⟨M.fadd a.val b.val⟩
  sub a b := ⟨M.fsub a.val b.val⟩
  mul a b := ⟨M.fmul a.val b.val⟩
  div a b := ⟨M.fdiv a.val b.val⟩
  neg a := ⟨-a.val⟩
  lt a b := a.val < b.val
  le a b := a.val ≤ b.val
  ofNat n := ⟨(n : ℝ)⟩
  ofRatio n d := ⟨(n : ℝ) / (d : ℝ)⟩
  sqrt a := ⟨Real.sqrt a.val⟩
  exp a := ⟨Real.exp a.val⟩
  log a := ⟨Real.log a.val⟩
  sin a := ⟨Real.sin a.val⟩
  cos a := ⟨Real.cos a.val⟩
  pi := ⟨Real.pi⟩
  pow a b := ⟨M.fpow a.val b.val⟩
  abs a := ⟨|a.val|⟩
  decLt := fun _ _ => Classical.dec _
  decLe := fun _ _ => Classical.dec _

variable {M : FlModel}

theorem fl_add (a b : FlNum M) : @HAdd.hAdd (FlNum M) (FlNum M) (FlNum M) (@instHAdd (FlNum M) RealLike.toAdd) a b = ⟨M.fadd a.val b.val⟩ := rfl
theorem fl_sub (a b : FlNum M) : @HSub.hSub (FlNum M) (FlNum M) (FlNum M) (@instHSub (FlNum M) RealLike.toSub) a b = ⟨M.fsub a.val b.val⟩ := rfl
theorem fl_mul (a b : FlNum M) : @HMul.hMul (FlNum M) (FlNum M) (FlNum M) (@instHMul (FlNum M) RealLike.toMul) a b = ⟨M.fmul a.val b.val⟩ := rfl
theorem fl_one : (one : FlNum M) = ⟨1⟩ := by
  show (⟨((1 : Nat) : ℝ)⟩ : FlNum M) = ⟨1⟩
  norm_num
theorem fl_half : (half : FlNum M) = ⟨1 / 2⟩ := by
  show (⟨((1 : Int) : ℝ) / ((2 : Nat) : ℝ)⟩ : FlNum M) = ⟨1 / 2⟩
  norm_num

/-! ### accumulated relative errors: `Rel u k e` says `|e| ≤ (1 + u)^k - 1` -/

def Rel (u : ℝ) (k : Nat) (e : ℝ) : Prop := |e| ≤ (1 + u) ^ k - 1

theorem Rel.one {u d : ℝ} (h : |d| ≤ u) : Rel u 1 d := by
  unfold Rel; simpa using h

theorem Rel.zero {u : ℝ} : Rel u 0 0 := by unfold Rel; simp

theorem Rel.mul {u a b : ℝ} {k j : Nat} (hu : 0 ≤ u) (ha : Rel u k a) (hb : Rel u j b) :
    ∃ e, (1 + a) * (1 + b) = 1 + e ∧ Rel u (k + j) e := by
  refine ⟨a + b + a * b, by ring, ?_⟩
  unfold Rel at *
  have hA : 0 ≤ (1 + u) ^ k - 1 := le_trans (abs_nonneg _) ha
  have hB : 0 ≤ (1 + u) ^ j - 1 := le_trans (abs_nonneg _) hb
  have h1 : |a + b + a * b| ≤ |a| + |b| + |a| * |b| := by
    calc |a + b + a * b| ≤ |a + b| + |a * b| := abs_add_le _ _
      _ ≤ |a| + |b| + |a| * |b| := by rw [abs_mul]; linarith [abs_add_le a b]
  have h2 : |a| * |b| ≤ ((1 + u) ^ k - 1) * ((1 + u) ^ j - 1) :=
    mul_le_mul ha hb (abs_nonneg _) hA
  have h3 : (1 + u) ^ (k + j) - 1 = ((1 + u) ^ k - 1) + ((1 + u) ^ j - 1) + ((1 + u) ^ k - 1) * ((1 + u) ^ j - 1) := by
    rw [pow_add]; ring
  rw [h3]; linarith

theorem Rel.mono {u e : ℝ} {k j : Nat} (hu : 0 ≤ u) (h : Rel u k e) (hkj : k ≤ j) : Rel u j e := by
  unfold Rel at *
  have : (1 + u) ^ k ≤ (1 + u) ^ j := pow_le_pow_right₀ (by linarith) hkj
  linarith

theorem Rel.abs_le {u e : ℝ} {k : Nat} (h : Rel u k e) : |e| ≤ (1 + u) ^ k - 1 := h

theorem Rel.one_add_le {u e : ℝ} {k : Nat} (h : Rel u k e) : |1 + e| ≤ (1 + u) ^ k := by
  have := abs_add_le 1 e
  rw [abs_one] at this
  unfold Rel at h
  linarith

/-- `(1+u)^3 - 1 ≤ 7/2 u` and `(1+u)^2 - 1 ≤ 5/2 u` for `u ≤ 1/8` -/
theorem pow3_bound {u : ℝ} (h0 : 0 ≤ u) (h1 : u ≤ 1 / 8) : (1 + u) ^ 3 - 1 ≤ 7 / 2 * u := by
  have h2 : u ^ 2 ≤ u / 8 := by nlinarith
  have h3 : u ^ 3 ≤ u / 64 := by nlinarith
  nlinarith
theorem pow2_bound {u : ℝ} (h0 : 0 ≤ u) (h1 : u ≤ 1 / 8) : (1 + u) ^ 2 - 1 ≤ 5 / 2 * u := by
  nlinarith
theorem pow4_bound {u : ℝ} (h0 : 0 ≤ u) (h1 : u ≤ 1 / 8) : (1 + u) ^ 4 - 1 ≤ 5 * u := by
  have h2 : u ^ 2 ≤ u / 8 := by nlinarith
  have h3 : u ^ 3 ≤ u / 64 := by nlinarith
  have h4 : u ^ 4 ≤ u / 512 := by nlinarith
  nlinarith

/-! ### blend: the sum of the children against the sum of the parents -/

/-- the two assignments of `cxBlend` (:256-257) on reals, with the rounded operations of `M` -/
theorem blend_core (M : FlModel) (hu : M.u ≤ 1 / 8) (g x1 x2 : ℝ) :
    |(M.fadd (M.fmul (M.fsub 1 g) x1) (M.fmul g x2) + M.fadd (M.fmul g x1) (M.fmul (M.fsub 1 g) x2)) - (x1 + x2)|
      ≤ 6 * M.u * (|x1| + |x2|) * (1 + |g|) + 5 * M.nu := by
  have h0 := M.u_nonneg
  have hn := M.nu_nonneg
  obtain ⟨d0, hd0, e0⟩ := M.sub_spec 1 g
  obtain ⟨d1, n1, hd1, hn1, e1⟩ := M.mul_spec (M.fsub 1 g) x1
  obtain ⟨d2, n2, hd2, hn2, e2⟩ := M.mul_spec g x2
  obtain ⟨d3, hd3, e3⟩ := M.add_spec (M.fmul (M.fsub 1 g) x1) (M.fmul g x2)
  obtain ⟨d4, n4, hd4, hn4, e4⟩ := M.mul_spec g x1
  obtain ⟨d5, n5, hd5, hn5, e5⟩ := M.mul_spec (M.fsub 1 g) x2
  obtain ⟨d6, hd6, e6⟩ := M.add_spec (M.fmul g x1) (M.fmul (M.fsub 1 g) x2)
  obtain ⟨a01, h01, r01⟩ := Rel.mul h0 (Rel.one hd0) (Rel.one hd1)
  obtain ⟨a013, h013, r013⟩ := Rel.mul h0 r01 (Rel.one hd3)
  obtain ⟨a23, h23, r23⟩ := Rel.mul h0 (Rel.one hd2) (Rel.one hd3)
  obtain ⟨a46, h46, r46⟩ := Rel.mul h0 (Rel.one hd4) (Rel.one hd6)
  obtain ⟨a05, h05, r05⟩ := Rel.mul h0 (Rel.one hd0) (Rel.one hd5)
  obtain ⟨a056, h056, r056⟩ := Rel.mul h0 r05 (Rel.one hd6)
  have key : (M.fadd (M.fmul (M.fsub 1 g) x1) (M.fmul g x2) + M.fadd (M.fmul g x1) (M.fmul (M.fsub 1 g) x2))
      - (x1 + x2) = x1 * ((1 - g) * a013 + g * a46) + x2 * (g * a23 + (1 - g) * a056)
        + ((n1 + n2) * (1 + d3) + (n4 + n5) * (1 + d6)) := by
    rw [e3, e6, e1, e2, e4, e5, e0]
    have t1 : (1 - g) * (1 + d0) * x1 * (1 + d1) * (1 + d3) = (1 - g) * x1 * (1 + a013) := by
      rw [← h013, ← h01]; ring
    have t2 : g * x2 * (1 + d2) * (1 + d3) = g * x2 * (1 + a23) := by rw [← h23]; ring
    have t3 : g * x1 * (1 + d4) * (1 + d6) = g * x1 * (1 + a46) := by rw [← h46]; ring
    have t4 : (1 - g) * (1 + d0) * x2 * (1 + d5) * (1 + d6) = (1 - g) * x2 * (1 + a056) := by
      rw [← h056, ← h05]; ring
    linear_combination t1 + t2 + t3 + t4
  rw [key]
  have R3 := pow3_bound h0 hu
  have R2 := pow2_bound h0 hu
  have b013 : |a013| ≤ 7 / 2 * M.u := le_trans r013 R3
  have b056 : |a056| ≤ 7 / 2 * M.u := le_trans r056 R3
  have b23 : |a23| ≤ 5 / 2 * M.u := le_trans r23 R2
  have b46 : |a46| ≤ 5 / 2 * M.u := le_trans r46 R2
  have hg1 : |1 - g| ≤ 1 + |g| := by
    have := abs_sub (1 : ℝ) g; rw [abs_one] at this; exact this
  have hgg : |g| ≤ 1 + |g| := by linarith
  have hG : 0 ≤ 1 + |g| := by positivity
  have A1 : |(1 - g) * a013 + g * a46| ≤ 6 * M.u * (1 + |g|) := by
    calc |(1 - g) * a013 + g * a46| ≤ |(1 - g) * a013| + |g * a46| := abs_add_le _ _
      _ = |1 - g| * |a013| + |g| * |a46| := by rw [abs_mul, abs_mul]
      _ ≤ (1 + |g|) * (7 / 2 * M.u) + (1 + |g|) * (5 / 2 * M.u) :=
          add_le_add (mul_le_mul hg1 b013 (abs_nonneg _) hG) (mul_le_mul hgg b46 (abs_nonneg _) hG)
      _ = 6 * M.u * (1 + |g|) := by ring
  have A2 : |g * a23 + (1 - g) * a056| ≤ 6 * M.u * (1 + |g|) := by
    calc |g * a23 + (1 - g) * a056| ≤ |g * a23| + |(1 - g) * a056| := abs_add_le _ _
      _ = |g| * |a23| + |1 - g| * |a056| := by rw [abs_mul, abs_mul]
      _ ≤ (1 + |g|) * (5 / 2 * M.u) + (1 + |g|) * (7 / 2 * M.u) :=
          add_le_add (mul_le_mul hgg b23 (abs_nonneg _) hG) (mul_le_mul hg1 b056 (abs_nonneg _) hG)
      _ = 6 * M.u * (1 + |g|) := by ring
  have hd3' : |1 + d3| ≤ 9 / 8 := by
    have := abs_add_le 1 d3; rw [abs_one] at this; linarith
  have hd6' : |1 + d6| ≤ 9 / 8 := by
    have := abs_add_le 1 d6; rw [abs_one] at this; linarith
  have N1 : |(n1 + n2) * (1 + d3)| ≤ 2 * M.nu * (9 / 8) := by
    rw [abs_mul]
    exact mul_le_mul (le_trans (abs_add_le _ _) (by linarith)) hd3' (abs_nonneg _) (by linarith)
  have N2 : |(n4 + n5) * (1 + d6)| ≤ 2 * M.nu * (9 / 8) := by
    rw [abs_mul]
    exact mul_le_mul (le_trans (abs_add_le _ _) (by linarith)) hd6' (abs_nonneg _) (by linarith)
  have X1 : |x1 * ((1 - g) * a013 + g * a46)| ≤ |x1| * (6 * M.u * (1 + |g|)) := by
    rw [abs_mul]; exact mul_le_mul_of_nonneg_left A1 (abs_nonneg _)
  have X2 : |x2 * (g * a23 + (1 - g) * a056)| ≤ |x2| * (6 * M.u * (1 + |g|)) := by
    rw [abs_mul]; exact mul_le_mul_of_nonneg_left A2 (abs_nonneg _)
  calc |x1 * ((1 - g) * a013 + g * a46) + x2 * (g * a23 + (1 - g) * a056)
        + ((n1 + n2) * (1 + d3) + (n4 + n5) * (1 + d6))|
      ≤ |x1 * ((1 - g) * a013 + g * a46)| + |x2 * (g * a23 + (1 - g) * a056)|
        + (|(n1 + n2) * (1 + d3)| + |(n4 + n5) * (1 + d6)|) := by
        refine le_trans (abs_add_le _ _) (add_le_add (abs_add_le _ _) (abs_add_le _ _))
    _ ≤ 6 * M.u * (|x1| + |x2|) * (1 + |g|) + 5 * M.nu := by
        have e : 6 * M.u * (|x1| + |x2|) * (1 + |g|)
            = |x1| * (6 * M.u * (1 + |g|)) + |x2| * (6 * M.u * (1 + |g|)) := by ring
        rw [e]; linarith

/-- `cxBlend` with rounded operations: at every locus the sum of the children differs from the sum of the parents by
at most `6 u (|x1| + |x2|) (1 + |gamma|) + 5 nu`, `gamma` being the value the code computed -/
theorem blendPair_sum_fl (M : FlModel) (hu : M.u ≤ 1 / 8) (alpha x1 x2 r : FlNum M) :
    |((blendPair alpha x1 x2 r).1.val + (blendPair alpha x1 x2 r).2.val) - (x1.val + x2.val)|
      ≤ 6 * M.u * (|x1.val| + |x2.val|) * (1 + |(blendGamma alpha r).val|) + 5 * M.nu := by
  simp only [blendPair, fl_add, fl_sub, fl_mul, fl_one]
  exact blend_core M hu _ _ _

/-! ### simulated binary crossover: the sum of the children against the sum of the parents -/

theorem sq_bound {u : ℝ} (h0 : 0 ≤ u) (h1 : u ≤ 1 / 8) : (1 + u) ^ (1 + 1) ≤ 81 / 64 := by
  norm_num; nlinarith

theorem half_pair_bound {u B s t a a' : ℝ} (hB : 0 ≤ B) (hs : |s| ≤ B) (ht : |t| ≤ B) (ha : |a| ≤ 5 * u)
    (ha' : |a'| ≤ 5 * u) : |1 / 2 * s * a + 1 / 2 * t * a'| ≤ 5 * u * B := by
  have hhalf : |(1 / 2 : ℝ)| = 1 / 2 := abs_of_pos (by norm_num)
  calc |1 / 2 * s * a + 1 / 2 * t * a'| ≤ |1 / 2 * s * a| + |1 / 2 * t * a'| := abs_add_le _ _
    _ = 1 / 2 * (|s| * |a|) + 1 / 2 * (|t| * |a'|) := by
        rw [abs_mul, abs_mul, abs_mul, abs_mul, hhalf]; ring
    _ ≤ 1 / 2 * (B * (5 * u)) + 1 / 2 * (B * (5 * u)) := by
        have p1 := mul_le_mul hs ha (abs_nonneg _) hB
        have p2 := mul_le_mul ht ha' (abs_nonneg _) hB
        linarith only [p1, p2]
    _ = 5 * u * B := by ring

theorem noise_bound {nu m m' k c : ℝ} (hn : 0 ≤ nu) (hm : |m| ≤ nu) (hm' : |m'| ≤ nu) (hk : |k| ≤ nu)
    (hc : |c| ≤ 81 / 64) : |1 / 2 * (m + m') * c + k| ≤ 145 / 64 * nu := by
  have hhalf : |(1 / 2 : ℝ)| = 1 / 2 := abs_of_pos (by norm_num)
  have h1 : |1 / 2 * (m + m') * c| ≤ nu * (81 / 64) := by
    rw [abs_mul, abs_mul, hhalf]
    have : 1 / 2 * |m + m'| ≤ nu := by linarith only [abs_add_le m m', hm, hm']
    exact mul_le_mul this hc (abs_nonneg _) hn
  linarith only [abs_add_le (1 / 2 * (m + m') * c) k, h1, hk]

/-- the algebra of `sbx_core`: once every rounded operation is replaced by its exact value times `(1 + error)` -/
theorem sbx_algebra (b x1 x2 dp dq d1 d2 d3 d4 d5 d6 d7 d8 n1 n2 n4 n5 n7 n8 a37 a68 ap1 aq2 aq4 ap5 A1 A2 A4 A5 : ℝ)
    (h37 : (1 + d3) * (1 + d7) = 1 + a37) (h68 : (1 + d6) * (1 + d8) = 1 + a68)
    (hp1 : (1 + dp) * (1 + d1) = 1 + ap1) (hq2 : (1 + dq) * (1 + d2) = 1 + aq2)
    (hq4 : (1 + dq) * (1 + d4) = 1 + aq4) (hp5 : (1 + dp) * (1 + d5) = 1 + ap5)
    (hA1 : (1 + ap1) * (1 + a37) = 1 + A1) (hA2 : (1 + aq2) * (1 + a37) = 1 + A2)
    (hA4 : (1 + aq4) * (1 + a68) = 1 + A4) (hA5 : (1 + ap5) * (1 + a68) = 1 + A5) :
    (1 / 2 * (((1 + b) * (1 + dp) * x1 * (1 + d1) + n1 + ((1 - b) * (1 + dq) * x2 * (1 + d2) + n2)) * (1 + d3))
        * (1 + d7) + n7
      + (1 / 2 * (((1 - b) * (1 + dq) * x1 * (1 + d4) + n4 + ((1 + b) * (1 + dp) * x2 * (1 + d5) + n5)) * (1 + d6))
        * (1 + d8) + n8)) - (x1 + x2)
      = x1 * (1 / 2 * (1 + b) * A1 + 1 / 2 * (1 - b) * A4) + x2 * (1 / 2 * (1 - b) * A2 + 1 / 2 * (1 + b) * A5)
        + ((1 / 2 * (n1 + n2) * (1 + a37) + n7) + (1 / 2 * (n4 + n5) * (1 + a68) + n8)) := by
  have t1 : (1 + b) * (1 + dp) * x1 * (1 + d1) * ((1 + d3) * (1 + d7)) = (1 + b) * x1 * (1 + A1) := by
    rw [← hA1, ← hp1, ← h37]; ring
  have t2 : (1 - b) * (1 + dq) * x2 * (1 + d2) * ((1 + d3) * (1 + d7)) = (1 - b) * x2 * (1 + A2) := by
    rw [← hA2, ← hq2, ← h37]; ring
  have t4 : (1 - b) * (1 + dq) * x1 * (1 + d4) * ((1 + d6) * (1 + d8)) = (1 - b) * x1 * (1 + A4) := by
    rw [← hA4, ← hq4, ← h68]; ring
  have t5 : (1 + b) * (1 + dp) * x2 * (1 + d5) * ((1 + d6) * (1 + d8)) = (1 + b) * x2 * (1 + A5) := by
    rw [← hA5, ← hp5, ← h68]; ring
  linear_combination (1 / 2) * t1 + (1 / 2) * t2 + (1 / 2) * t4 + (1 / 2) * t5
    + (1 / 2) * (n1 + n2) * h37 + (1 / 2) * (n4 + n5) * h68

/-- the two assignments of `cxSimulatedBinary` (:284-285) on reals, with the rounded operations of `M` -/
theorem sbx_core (M : FlModel) (hu : M.u ≤ 1 / 8) (b x1 x2 : ℝ) :
    |(M.fmul (1 / 2) (M.fadd (M.fmul (M.fadd 1 b) x1) (M.fmul (M.fsub 1 b) x2))
      + M.fmul (1 / 2) (M.fadd (M.fmul (M.fsub 1 b) x1) (M.fmul (M.fadd 1 b) x2))) - (x1 + x2)|
      ≤ 5 * M.u * (|x1| + |x2|) * (1 + |b|) + 5 * M.nu := by
  have h0 := M.u_nonneg
  have hn := M.nu_nonneg
  obtain ⟨dp, hdp, ep⟩ := M.add_spec 1 b
  obtain ⟨dq, hdq, eq⟩ := M.sub_spec 1 b
  obtain ⟨d1, n1, hd1, hn1, e1⟩ := M.mul_spec (M.fadd 1 b) x1
  obtain ⟨d2, n2, hd2, hn2, e2⟩ := M.mul_spec (M.fsub 1 b) x2
  obtain ⟨d3, hd3, e3⟩ := M.add_spec (M.fmul (M.fadd 1 b) x1) (M.fmul (M.fsub 1 b) x2)
  obtain ⟨d7, n7, hd7, hn7, e7⟩ := M.mul_spec (1 / 2) (M.fadd (M.fmul (M.fadd 1 b) x1) (M.fmul (M.fsub 1 b) x2))
  obtain ⟨d4, n4, hd4, hn4, e4⟩ := M.mul_spec (M.fsub 1 b) x1
  obtain ⟨d5, n5, hd5, hn5, e5⟩ := M.mul_spec (M.fadd 1 b) x2
  obtain ⟨d6, hd6, e6⟩ := M.add_spec (M.fmul (M.fsub 1 b) x1) (M.fmul (M.fadd 1 b) x2)
  obtain ⟨d8, n8, hd8, hn8, e8⟩ := M.mul_spec (1 / 2) (M.fadd (M.fmul (M.fsub 1 b) x1) (M.fmul (M.fadd 1 b) x2))
  obtain ⟨a37, h37, r37⟩ := Rel.mul h0 (Rel.one hd3) (Rel.one hd7)
  obtain ⟨a68, h68, r68⟩ := Rel.mul h0 (Rel.one hd6) (Rel.one hd8)
  obtain ⟨ap1, hp1, rp1⟩ := Rel.mul h0 (Rel.one hdp) (Rel.one hd1)
  obtain ⟨aq2, hq2, rq2⟩ := Rel.mul h0 (Rel.one hdq) (Rel.one hd2)
  obtain ⟨aq4, hq4, rq4⟩ := Rel.mul h0 (Rel.one hdq) (Rel.one hd4)
  obtain ⟨ap5, hp5, rp5⟩ := Rel.mul h0 (Rel.one hdp) (Rel.one hd5)
  obtain ⟨A1, hA1, rA1⟩ := Rel.mul h0 rp1 r37
  obtain ⟨A2, hA2, rA2⟩ := Rel.mul h0 rq2 r37
  obtain ⟨A4, hA4, rA4⟩ := Rel.mul h0 rq4 r68
  obtain ⟨A5, hA5, rA5⟩ := Rel.mul h0 rp5 r68
  rw [e7, e8, e3, e6, e1, e2, e4, e5, ep, eq,
    sbx_algebra b x1 x2 dp dq d1 d2 d3 d4 d5 d6 d7 d8 n1 n2 n4 n5 n7 n8 a37 a68 ap1 aq2 aq4 ap5 A1 A2 A4 A5
      h37 h68 hp1 hq2 hq4 hp5 hA1 hA2 hA4 hA5]
  have R4 := pow4_bound h0 hu
  have bA1 : |A1| ≤ 5 * M.u := le_trans rA1 R4
  have bA2 : |A2| ≤ 5 * M.u := le_trans rA2 R4
  have bA4 : |A4| ≤ 5 * M.u := le_trans rA4 R4
  have bA5 : |A5| ≤ 5 * M.u := le_trans rA5 R4
  have hb1 : |1 + b| ≤ 1 + |b| := by
    have := abs_add_le (1 : ℝ) b; rw [abs_one] at this; exact this
  have hb2 : |1 - b| ≤ 1 + |b| := by
    have := abs_sub (1 : ℝ) b; rw [abs_one] at this; exact this
  have hB : 0 ≤ 1 + |b| := by positivity
  have X1 : |x1 * (1 / 2 * (1 + b) * A1 + 1 / 2 * (1 - b) * A4)| ≤ |x1| * (5 * M.u * (1 + |b|)) := by
    rw [abs_mul]; exact mul_le_mul_of_nonneg_left (half_pair_bound hB hb1 hb2 bA1 bA4) (abs_nonneg _)
  have X2 : |x2 * (1 / 2 * (1 - b) * A2 + 1 / 2 * (1 + b) * A5)| ≤ |x2| * (5 * M.u * (1 + |b|)) := by
    rw [abs_mul]; exact mul_le_mul_of_nonneg_left (half_pair_bound hB hb2 hb1 bA2 bA5) (abs_nonneg _)
  have sq := sq_bound h0 hu
  have c37 : |1 + a37| ≤ 81 / 64 := le_trans r37.one_add_le sq
  have c68 : |1 + a68| ≤ 81 / 64 := le_trans r68.one_add_le sq
  have N1 := noise_bound hn hn1 hn2 hn7 c37
  have N2 := noise_bound hn hn4 hn5 hn8 c68
  have tri : |x1 * (1 / 2 * (1 + b) * A1 + 1 / 2 * (1 - b) * A4) + x2 * (1 / 2 * (1 - b) * A2 + 1 / 2 * (1 + b) * A5)
        + ((1 / 2 * (n1 + n2) * (1 + a37) + n7) + (1 / 2 * (n4 + n5) * (1 + a68) + n8))|
      ≤ |x1 * (1 / 2 * (1 + b) * A1 + 1 / 2 * (1 - b) * A4)| + |x2 * (1 / 2 * (1 - b) * A2 + 1 / 2 * (1 + b) * A5)|
        + (|1 / 2 * (n1 + n2) * (1 + a37) + n7| + |1 / 2 * (n4 + n5) * (1 + a68) + n8|) :=
    le_trans (abs_add_le _ _) (add_le_add (abs_add_le _ _) (abs_add_le _ _))
  have e : 5 * M.u * (|x1| + |x2|) * (1 + |b|)
      = |x1| * (5 * M.u * (1 + |b|)) + |x2| * (5 * M.u * (1 + |b|)) := by ring
  rw [e]
  linarith only [tri, X1, X2, N1, N2, hn]

/-- `cxSimulatedBinary` with rounded operations: at every locus the sum of the children differs from the sum of the
parents by at most `5 u (|x1| + |x2|) (1 + |beta|) + 5 nu`, `beta` being the spread factor the code computed -/
theorem sbxPair_sum_fl (M : FlModel) (hu : M.u ≤ 1 / 8) (eta x1 x2 rand : FlNum M) :
    |((sbxPair eta x1 x2 rand).1.val + (sbxPair eta x1 x2 rand).2.val) - (x1.val + x2.val)|
      ≤ 5 * M.u * (|x1.val| + |x2.val|) * (1 + |(sbxBeta eta rand).val|) + 5 * M.nu := by
  simp only [sbxPair, fl_add, fl_sub, fl_mul, fl_one, fl_half]
  exact sbx_core M hu _ _ _

/-! ### a model exists: every operation returns the exact result inflated by `(1 + u)` (a product also by `nu`) -/

/-- an arithmetic that is wrong by the full relative error `u` in every operation -/
noncomputable def inflFl (u nu : ℝ) (hu : 0 ≤ u) (hnu : 0 ≤ nu) : FlModel where
  u := u
  nu := nu
  fadd a b := (a + b) * (1 + u)
  fsub a b := (a - b) * (1 + u)
  fmul a b := (a * b) * (1 + u) + nu
  fdiv a b := a / b
  fpow a b := a ^ b
  u_nonneg := hu
  nu_nonneg := hnu
  add_spec a b := ⟨u, by rw [abs_of_nonneg hu], rfl⟩
  sub_spec a b := ⟨u, by rw [abs_of_nonneg hu], rfl⟩
  mul_spec a b := ⟨u, nu, by rw [abs_of_nonneg hu], by rw [abs_of_nonneg hnu], rfl⟩

/-- binary64 constants: unit roundoff `2^-53`, half the smallest subnormal `2^-1075` -/
noncomputable def infl64 : FlModel := inflFl ((2 : ℝ) ^ (-53 : ℤ)) ((2 : ℝ) ^ (-1075 : ℤ)) (by positivity) (by positivity)

theorem infl64_u : infl64.u ≤ 1 / 8 := by
  show (2 : ℝ) ^ (-53 : ℤ) ≤ 1 / 8
  have : (2 : ℝ) ^ (-53 : ℤ) ≤ (2 : ℝ) ^ (-3 : ℤ) := zpow_le_zpow_right₀ (by norm_num) (by norm_num)
  refine le_trans this ?_
  norm_num

end RealOps
