/-
C08 at heap level — vocabulary and generic facts: the log of the archive's allocations, the invariant of a
heap-level archive, the abstraction relation to the pure archive of `Core/Archive.lean`, and how
reachability / pure values / fitness reads behave under heap extension and under writes.

The copy mechanism itself is C16's: everything about `Heap.clone` used here is `Heap.Copy.clone_facts`.
-/
import DeapModel.Core.ArchiveHeap
import DeapModel.Lemmas.C16Copy
import DeapModel.Lemmas.C08Run

set_option linter.unusedSectionVars false
set_option linter.unusedSimpArgs false
set_option linter.unusedVariables false

namespace C08H
open Heap Heap.Copy ArchiveHeap
open Archive (Ind HoF)
open Fitness (Fit)

variable {α : Type} [LinearOrder α]

/-- `omega` does not look through the abbreviation `Heap.Oid := Nat`. -/
macro "oomega" : tactic => `(tactic| ((try simp only [Heap.Oid] at *); omega))

/-! ### Vocabulary -/

/-- `y` lies in one of the oid ranges the archive's `deepcopy` calls allocated. -/
def InLog (log : List (Nat × Nat)) (y : Nat) : Prop := ∃ r ∈ log, r.1 ≤ y ∧ y < r.2

/-- `y` is an immutable object of the heap (a GP node object shared by `PrimitiveTree.__deepcopy__`). -/
def Imm (objs : Oid → Option Obj) (y : Oid) : Prop := ∃ o, objs y = some o ∧ o.mutable = false

/-- The object the *instance* attribute `fitness` of `x` refers to. -/
def instFit (P : Params α) (objs : Oid → Option Obj) (x : Oid) : Option Oid :=
  match objs x with
  | some o =>
    match lookup P.fitName o.attrs with
    | some (.ref f) => some f
    | _ => none
  | none => none

/-- The heap of `hs'` extends the heap of `hs`: old objects are untouched, the log only grows, by ranges
beyond the old heap. -/
structure HExt (hs hs' : HState) : Prop where
  next : hs.next ≤ hs'.next
  objs : ∀ y, y < hs.next → hs'.objs y = hs.objs y
  logNew : ∀ y, InLog hs'.log y → InLog hs.log y ∨ hs.next ≤ y
  logOld : ∀ y, InLog hs.log y → InLog hs'.log y
  maxsize : hs'.maxsize = hs.maxsize
  /-- a member never comes back: a member of the later archive is an old member or a new object -/
  items : ∀ x ∈ hs'.items, x ∈ hs.items ∨ hs.next ≤ x

theorem HExt.refl (hs : HState) : HExt hs hs :=
  ⟨Nat.le_refl _, fun _ _ => rfl, fun _ h => Or.inl h, fun _ h => h, rfl, fun _ h => Or.inl h⟩

theorem HExt.trans {a b c : HState} (h1 : HExt a b) (h2 : HExt b c) : HExt a c where
  next := Nat.le_trans h1.next h2.next
  objs := fun y hy => by rw [h2.objs y (Nat.lt_of_lt_of_le hy h1.next), h1.objs y hy]
  logNew := fun y hy => by
    rcases h2.logNew y hy with h | h
    · exact h1.logNew y h
    · exact Or.inr (Nat.le_trans h1.next h)
  logOld := fun y hy => h2.logOld y (h1.logOld y hy)
  maxsize := by rw [h2.maxsize, h1.maxsize]
  items := fun x hx => by
    rcases h2.items x hx with h | h
    · exact h1.items x h
    · exact Or.inr (Nat.le_trans h1.next h)

/-- The invariant of a heap-level archive (`base` = where the interpreter's heap ended when the archive was
created). -/
structure Inv (P : Params α) (base : Nat) (hs : HState) : Prop where
  closed : Closed hs.objs hs.next
  base_le : base ≤ hs.next
  logwf : ∀ r ∈ hs.log, base ≤ r.1 ∧ r.1 < r.2 ∧ r.2 ≤ hs.next
  logord : hs.log.Pairwise (fun r s => r.2 ≤ s.1)
  /-- objects outside the archive's ranges do not refer into them -/
  outside : ∀ y o, hs.objs y = some o → ¬ InLog hs.log y → ∀ z, Val.ref z ∈ o.children → ¬ InLog hs.log z
  /-- every member is the first object of one of the archive's ranges, and everything reachable from it is
  inside that range or immutable -/
  members : ∀ x ∈ hs.items, ∃ hi, (x, hi) ∈ hs.log ∧
    ∀ y, Reach hs.objs (.ref x) y → (x ≤ y ∧ y < hi) ∨ Imm hs.objs y
  nodup : hs.items.Pairwise (· ≠ ·)
  /-- `keys[j] is items[n-1-j].fitness` -/
  keyof : hs.keys.map some = (hs.items.map (instFit P hs.objs)).reverse

/-- Equal up to object identity. -/
def erase (it : Ind PV α) : PV × Fit α := (it.genome, it.fit)

/-- The heap-level archive `hs` denotes the pure archive `h` (up to the identities of the members). -/
structure Rel (P : Params α) (hs : HState) (h : HoF PV α) : Prop where
  msz : h.maxsize = hs.maxsize
  keys : h.keys = hs.keys.map (fitAt P hs.objs)
  items : hs.items.map (fun x => (viewInd P hs.objs x).map erase) = h.items.map (fun it => some (erase it))

/-- `similar` does not look at object identity. -/
def SimErase (sim : Ind PV α → Ind PV α → Bool) : Prop :=
  ∀ x x' y y', erase x = erase x' → erase y = erase y' → sim x y = sim x' y'

/-! ### `InLog` -/

theorem InLog_append (l : List (Nat × Nat)) (r : Nat × Nat) (y : Nat) :
    InLog (l ++ [r]) y ↔ InLog l y ∨ (r.1 ≤ y ∧ y < r.2) := by
  constructor
  · rintro ⟨s, hs, h⟩
    rcases List.mem_append.1 hs with hs | hs
    · exact Or.inl ⟨s, hs, h⟩
    · simp only [List.mem_singleton] at hs
      subst hs
      exact Or.inr h
  · rintro (⟨s, hs, h⟩ | h)
    · exact ⟨s, List.mem_append_left _ hs, h⟩
    · exact ⟨r, List.mem_append_right _ (List.mem_singleton.2 rfl), h⟩

theorem Inv.inlog_lt {P : Params α} {base : Nat} {hs : HState} (hI : Inv P base hs) {y : Nat}
    (h : InLog hs.log y) : base ≤ y ∧ y < hs.next := by
  obtain ⟨r, hr, h1, h2⟩ := h
  obtain ⟨a, b, c⟩ := hI.logwf r hr
  omega

/-! ### Reachability -/

theorem Reach_defined {objs : Oid → Option Obj} {N : Nat} (hcl : Closed objs N) :
    ∀ (v : Val) (y : Oid), Reach objs v y → (∀ x, v = .ref x → (objs x).isSome = true) →
      (objs y).isSome = true := by
  intro v y h
  induction h with
  | here x => exact fun hx => hx x rfl
  | step x o c y ho hc _ ih =>
    intro _
    apply ih
    intro z hz
    subst hz
    exact hcl.refs x o ho z hc

/-- What is reachable after a write to an object that was not reachable was reachable before. -/
theorem Reach_write_back (objs : Oid → Option Obj) (y : Oid) (w : Obj) :
    ∀ (v : Val) (z : Oid), Reach (write objs y w) v z → ¬ Reach objs v y → Reach objs v z := by
  intro v z h
  induction h with
  | here x => exact fun _ => Reach.here x
  | step x o c z ho hc _ ih =>
    intro hnr
    have hxy : x ≠ y := fun e => hnr (e ▸ Reach.here x)
    have ho' : objs x = some o := by
      have : write objs y w x = objs x := by simp [write, define, hxy]
      rw [← this]; exact ho
    exact Reach.step x o c z ho' hc (ih (fun h => hnr (Reach.step x o c y ho' hc h)))

theorem Reach_child {objs : Oid → Option Obj} {x : Oid} {o : Obj} {f : Oid} (ho : objs x = some o)
    (hc : Val.ref f ∈ o.children) : Reach objs (.ref x) f :=
  Reach.step x o (.ref f) f ho hc (Reach.here f)

/-! ### Reading the fitness -/

theorem instFit_spec {P : Params α} {objs : Oid → Option Obj} {x f : Oid} (h : instFit P objs x = some f) :
    ∃ o, objs x = some o ∧ lookup P.fitName o.attrs = some (.ref f) ∧ Val.ref f ∈ o.children := by
  unfold instFit at h
  split at h
  · rename_i o ho
    split at h
    · rename_i f' hl
      cases h
      exact ⟨o, ho, hl, List.mem_append_right _ (lookup_mem_snd _ _ _ hl)⟩
    · cases h
  · cases h

theorem instFit_of {P : Params α} {objs : Oid → Option Obj} {x f : Oid} {o : Obj} (ho : objs x = some o)
    (hl : lookup P.fitName o.attrs = some (.ref f)) : instFit P objs x = some f := by
  simp only [instFit, ho, hl]

theorem fitRef_of_instFit {P : Params α} {objs : Oid → Option Obj} {x f : Oid}
    (h : instFit P objs x = some f) : fitRef P objs x = some f := by
  obtain ⟨o, ho, hl, _⟩ := instFit_spec h
  simp only [fitRef, getattr, ho, hl]

theorem viewInd_of_instFit {P : Params α} {objs : Oid → Option Obj} {x f : Oid}
    (h : instFit P objs x = some f) :
    viewInd P objs x = some ⟨x, abs objs P.depth (.ref x), fitAt P objs f⟩ := by
  simp only [viewInd, fitRef_of_instFit h]

theorem instFit_congr {P : Params α} {objs objs' : Oid → Option Obj} {x : Oid} (h : objs' x = objs x) :
    instFit P objs' x = instFit P objs x := by
  simp only [instFit, h]

theorem fitAt_congr {P : Params α} {objs objs' : Oid → Option Obj} {f : Oid} (h : objs' f = objs f) :
    fitAt P objs' f = fitAt P objs f := by
  simp only [fitAt, h]

/-- The number a `wvalues` member denotes, read off its pure value. -/
def pvNum (val : Int → α) : PV → α
  | .atom a => val a
  | _ => val 0

/-- `ind.fitness.wvalues`, read off the pure value of the individual. -/
def pvFit (P : Params α) : PV → Option (Fit α)
  | .node _ _ _ attrs =>
    match attrs P.fitName with
    | .node _ _ items _ => some ⟨items.map (pvNum P.val)⟩
    | _ => none
  | _ => none

theorem pvNum_abs (val : Int → α) (objs : Oid → Option Obj) (m : Nat) (c : Val) :
    pvNum val (abs objs m c) = valNum val c := by
  cases c with
  | atom a => rw [abs_atom]; rfl
  | ref z =>
    cases m with
    | zero => rfl
    | succ m =>
      simp only [Heap.abs]
      cases objs z <;> rfl

/-- The fitness is part of the pure value (from depth 2 on). -/
theorem pvFit_abs_of {P : Params α} {objs : Oid → Option Obj} {x f : Oid} {fo : Obj}
    (h : instFit P objs x = some f) (hf : objs f = some fo) (m : Nat) :
    pvFit P (abs objs (m + 2) (.ref x)) = some (fitAt P objs f) := by
  obtain ⟨o, ho, hl, _⟩ := instFit_spec h
  simp only [Heap.abs, ho, pvFit, hl, hf, fitAt, List.map_map]
  congr 2
  apply List.map_congr_left
  intro c _
  exact pvNum_abs P.val objs m c

theorem pvFit_abs_some {P : Params α} {objs : Oid → Option Obj} {x : Oid} {F : Fit α} (m : Nat)
    (h : pvFit P (abs objs (m + 2) (.ref x)) = some F) :
    ∃ f, instFit P objs x = some f ∧ (objs f).isSome = true ∧ fitAt P objs f = F := by
  simp only [Heap.abs] at h
  cases ho : objs x with
  | none => rw [ho] at h; simp [pvFit] at h
  | some o =>
    rw [ho] at h
    simp only [pvFit] at h
    cases hl : lookup P.fitName o.attrs with
    | none => rw [hl] at h; simp at h
    | some v =>
      rw [hl] at h
      cases v with
      | atom a => simp [Heap.abs] at h
      | ref f =>
        simp only [Heap.abs] at h
        cases hf : objs f with
        | none => rw [hf] at h; simp at h
        | some fo =>
          refine ⟨f, instFit_of ho hl, by rw [hf]; rfl, ?_⟩
          have := pvFit_abs_of (P := P) (instFit_of ho hl) hf m
          simp only [Heap.abs, ho, pvFit, hl, hf] at this h
          rw [this] at h
          exact Option.some.inj h

/-- A faithful copy has an instance `fitness` of its own, with the same `wvalues`. -/
theorem copy_fit {P : Params α} {objs objs' : Oid → Option Obj} {x c f : Oid} {fo : Obj}
    (habs : ∀ m, abs objs' m (.ref c) = abs objs m (.ref x))
    (h : instFit P objs x = some f) (hf : objs f = some fo) :
    ∃ f', instFit P objs' c = some f' ∧ (objs' f').isSome = true ∧ fitAt P objs' f' = fitAt P objs f := by
  apply pvFit_abs_some 0
  rw [habs 2]
  exact pvFit_abs_of h hf 0

/-! ### Stability of what the archive reads -/

/-- Under heap extension a defined object keeps its pure value, its `fitness` and the `wvalues` of that. -/
theorem view_ext {P : Params α} {hs hs' : HState} (hcl : Closed hs.objs hs.next) (hE : HExt hs hs')
    {x f : Oid} (h : instFit P hs.objs x = some f) :
    (∀ m, abs hs'.objs m (.ref x) = abs hs.objs m (.ref x)) ∧ instFit P hs'.objs x = some f ∧
    fitAt P hs'.objs f = fitAt P hs.objs f ∧ viewInd P hs'.objs x = viewInd P hs.objs x := by
  obtain ⟨o, ho, hl, hc⟩ := instFit_spec h
  have hx : x < hs.next := lt_of_defined hcl ho
  have hfd := hcl.refs x o ho f hc
  obtain ⟨fo, hfo⟩ := Option.isSome_iff_exists.1 hfd
  have hf : f < hs.next := lt_of_defined hcl hfo
  have hk : Keeps hs.objs hs'.objs := keeps_of_agree hcl hE.objs
  have h1 : ∀ m, abs hs'.objs m (.ref x) = abs hs.objs m (.ref x) := fun m =>
    abs_ext hs.objs hs'.objs hcl.refs hk m (.ref x) (fun z hz => by cases hz; rw [ho]; rfl)
  have h2 : instFit P hs'.objs x = some f := by rw [instFit_congr (hE.objs x hx)]; exact h
  have h3 : fitAt P hs'.objs f = fitAt P hs.objs f := fitAt_congr (hE.objs f hf)
  refine ⟨h1, h2, h3, ?_⟩
  rw [viewInd_of_instFit h2, viewInd_of_instFit h, h1, h3]

/-- … and under a write to an object that is not reachable from it. -/
theorem view_write {P : Params α} {objs : Oid → Option Obj} {x f y : Oid} (w : Obj)
    (h : instFit P objs x = some f) (hnr : ¬ Reach objs (.ref x) y) :
    (∀ m, abs (write objs y w) m (.ref x) = abs objs m (.ref x)) ∧ instFit P (write objs y w) x = some f ∧
    fitAt P (write objs y w) f = fitAt P objs f ∧ viewInd P (write objs y w) x = viewInd P objs x := by
  obtain ⟨o, ho, hl, hc⟩ := instFit_spec h
  have hxy : x ≠ y := fun e => hnr (e ▸ Reach.here x)
  have hfy : f ≠ y := fun e => hnr (e ▸ Reach_child ho hc)
  have h1 : ∀ m, abs (write objs y w) m (.ref x) = abs objs m (.ref x) := fun m => abs_write objs y w m _ hnr
  have h2 : instFit P (write objs y w) x = some f := by
    rw [instFit_congr (show write objs y w x = objs x by simp [write, define, hxy])]; exact h
  have h3 : fitAt P (write objs y w) f = fitAt P objs f := fitAt_congr (show write objs y w f = objs f by simp [write, define, hfy])
  refine ⟨h1, h2, h3, ?_⟩
  rw [viewInd_of_instFit h2, viewInd_of_instFit h, h1, h3]

end C08H
