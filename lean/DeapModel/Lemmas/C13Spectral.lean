/-
C13 helper lemmas (8): the `eigh` contract is satisfiable for every dimension (Mathlib spectral theorem).
-/
import DeapModel.Lemmas.C13Eig
import Mathlib.Analysis.Matrix.Spectrum

open Cma C13L Matrix

namespace C13L

/-- the leading `n × n` block of a list-of-rows matrix as a Mathlib matrix -/
noncomputable def toMat (n : Nat) (C : List (List ℝ)) : Matrix (Fin n) (Fin n) ℝ := fun a b => mget C a.val b.val

/-- an `eigh` built from Mathlib's spectral theorem (noncomputable; only shows the contract is satisfiable) -/
noncomputable def eighSpectral (n : Nat) (C : List (List ℝ)) : List ℝ × List (List ℝ) :=
  if h : (toMat n C).IsHermitian then
    (tab n (fun i => if hi : i < n then h.eigenvalues ⟨i, hi⟩ else 0),
     tab2 n n (fun a k => if ha : a < n then (if hk : k < n then
        (h.eigenvectorUnitary : Matrix (Fin n) (Fin n) ℝ) ⟨a, ha⟩ ⟨k, hk⟩ else 0) else 0))
  else ([], [])

theorem eighSpectral_contract (n : Nat) (C : List (List ℝ))
    (hsym : ∀ a b : Fin n, mget C a.val b.val = mget C b.val a.val) :
    EighContract n C (eighSpectral n C).1 (eighSpectral n C).2 := by
  have h : (toMat n C).IsHermitian := by
    ext a b
    simp only [conjTranspose_apply, toMat, star_trivial]
    exact hsym b a
  have hw : ∀ k : Fin n, vget (eighSpectral n C).1 k.val = h.eigenvalues k := by
    intro k; simp only [eighSpectral, dif_pos h, vget_tab_fin, k.isLt, dif_pos]
  have hV : ∀ a k : Fin n, mget (eighSpectral n C).2 a.val k.val
      = (h.eigenvectorUnitary : Matrix (Fin n) (Fin n) ℝ) a k := by
    intro a k; simp only [eighSpectral, dif_pos h, mget_tab2_fin, a.isLt, k.isLt, dif_pos]
  set U : Matrix (Fin n) (Fin n) ℝ := (h.eigenvectorUnitary : Matrix (Fin n) (Fin n) ℝ) with hU
  have hUU : star U * U = 1 := (Matrix.mem_unitaryGroup_iff').mp h.eigenvectorUnitary.2
  refine ⟨?_, ?_⟩
  · intro k l
    simp only [hV]
    have := congrFun (congrFun hUU k) l
    simp only [Matrix.mul_apply, Matrix.star_apply, star_trivial, Matrix.one_apply] at this
    exact this
  · intro a b
    simp only [hV, hw]
    have hs := h.spectral_theorem
    rw [Unitary.conjStarAlgAut_apply] at hs
    have := congrFun (congrFun hs a) b
    rw [Matrix.mul_apply] at this
    simp only [Matrix.mul_diagonal, Matrix.star_apply, star_trivial, Function.comp_apply,
      RCLike.ofReal_real_eq_id, id_eq] at this
    exact this

end C13L
