import DeapModel.Lemmas.C15HvCAll
import DeapModel.Lemmas.C15HvCReA5
import DeapModel.Lemmas.C15HvCReB5
import DeapModel.Lemmas.C15HvCGenA4
import DeapModel.Lemmas.C15HvCGenB6
/-!
C15 — `_hv.c` in every dimension: the pieces put together.
`Lemmas/C15HvCInv.lean` (level interface) · `C15HvCRe0`, `C15HvCReA1-5` (main loop of the 3-D base case with the full
invariant), `C15HvCReB1-5` (entry / exit of the re-entered 3-D base case) · `C15HvCGen0`, `C15HvCGenA1-4` (reset and
deletion loops of the general case), `C15HvCGenB1-6` (reinsertion loop, level step) · `C15HvCAll` (induction over the
levels, glue to `setup_cdllist` + `filter`).
-/
namespace HvC
open Hypervolume

/-- the 3-D base case, entered with any `bound[2]`, meets the level interface -/
theorem dim3_ok : Dim3_Statement := dim3_levelOK sweepLoopRe

/-- the general case at level `j + 1` meets the level interface if level `j` does -/
theorem generalStep_ok : GeneralStep_Statement := general_levelOK resetLoopC deleteLoopC afterDeletionsC

/-- every level of `hv_recursive` meets the level interface -/
theorem levels_ok {C : Cargo} {R : List ℚ} {d n : ℕ} {O : ℕ → List ℕ} (c : CCtx C R d n O) (F : ℕ) (hF : n + 2 ≤ F)
    (k : ℕ) (h2 : 2 ≤ k) (hk : k < d) : LevelOKC C R d n O F k :=
  levels_okC dim3_ok generalStep_ok c F hF k h2 hk

/-- `fpli_hv` returns the specification for three and more objectives — for EVERY list of points with as many
coordinates as the reference point, wherever they lie relative to it (points not strictly below the reference are
removed by `filter` and contribute nothing to `hvCells`) -/
theorem fpliHv_ge3_all (data : List (List ℚ)) (R : List ℚ) (hd : 3 ≤ R.length) (hlen : ∀ p ∈ data, p.length = R.length) :
    fpliHv data R = some (hvCells R data) :=
  fpliHv_ge3 dim3_ok generalStep_ok data R hd hlen

end HvC
