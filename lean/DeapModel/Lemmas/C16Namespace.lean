/-
C16 — the creator namespace between dump and load: unpickling under a translated class table
simulates unpickling under the dumper's own table (`rebuild_sim`), the table `loadClasses` builds is
such a translation (`tableMap_load`), histories of `create` / `del` keep the existing classes
(`nsRun_keeps`), and the identity-free description of a class is invariant (`describe_map`).
-/
import DeapModel.Core.Heap
import DeapModel.Lemmas.C16Defs
import DeapModel.Lemmas.C16Inst
import DeapModel.Lemmas.C16Pickle

namespace Heap

/-- The same object as an instance of the translated class. -/
def retag (tr : ClsId → ClsId) (o : Obj) : Obj := { o with cls := tr o.cls }

/-- The table `ct'` holds, under the translated id, the translated record of every class of `ct`. -/
def TableMap (ct ct' : ClassTable) (tr : ClsId → ClsId) : Prop :=
  ∀ c ci, ct[c]? = some ci → ct'[tr c]? = some (retagInfo tr ci)

/-- Two interpreter states that differ only in the class ids of the objects allocated from
`next0` on: `B` holds the `tr`-image of what `A` holds. -/
structure HRel (tr : ClsId → ClsId) (next0 : Nat) (A B : State) : Prop where
  next : A.next = B.next
  lo : next0 ≤ A.next
  objs : ∀ x, B.objs x = if x < next0 then A.objs x else (A.objs x).map (retag tr)

theorem HRel.reserve {tr : ClsId → ClsId} {next0 : Nat} {A B : State} (h : HRel tr next0 A B) :
    HRel tr next0 ⟨A.objs, A.next + 1, A.memo⟩ ⟨B.objs, B.next + 1, B.memo⟩ :=
  ⟨by show A.next + 1 = B.next + 1; rw [h.next], Nat.le_succ_of_le h.lo, h.objs⟩

/-- Defining the reserved slot on both sides keeps the relation. -/
theorem HRel.defineBoth {tr : ClsId → ClsId} {next0 : Nat} {A B sa sb : State}
    (h : HRel tr next0 A B) (hs : HRel tr next0 sa sb) (o : Obj) :
    HRel tr next0 ⟨Heap.define sa.objs A.next o, sa.next, sa.memo⟩
      ⟨Heap.define sb.objs B.next (retag tr o), sb.next, sb.memo⟩ := by
  refine ⟨hs.next, hs.lo, ?_⟩
  intro x
  show Heap.define sb.objs B.next (retag tr o) x
    = if x < next0 then Heap.define sa.objs A.next o x
      else (Heap.define sa.objs A.next o x).map (retag tr)
  by_cases hx : x = A.next
  · subst hx
    rw [define_same]
    have : A.next = B.next := h.next
    have hlo : next0 ≤ B.next := by rw [← this]; exact h.lo
    rw [this, define_same, if_neg (show ¬ B.next < next0 by omega)]
    rfl
  · rw [define_ne _ _ _ hx, define_ne _ _ _ (by rw [← h.next]; exact hx)]
    exact hs.objs x

/-! ### `mapSt` under a pointwise implication -/

theorem mapSt_mono {σ α β : Type} {f g : σ → α → Option (σ × β)}
    (hfg : ∀ s a r, f s a = some r → g s a = some r) :
    ∀ (l : List α) (s : σ) (r : σ × List β), mapSt f s l = some r → mapSt g s l = some r := by
  intro l
  induction l with
  | nil => intro s r h; exact h
  | cons a as ih =>
    intro s r h
    obtain ⟨s2, bs⟩ := r
    obtain ⟨s1, b, bs', h1, h2, rfl⟩ := mapSt_cons_inv h
    exact mapSt_cons_some (hfg _ _ _ h1) (ih _ _ h2)

/-! ### More fuel never changes a successful instantiation -/

theorem newInst_fuel_mono (ct : ClassTable) :
    ∀ (n n' : Nat) (st : State) (c : ClsId) (items : List Val) (r : State × Oid), n ≤ n' →
      newInst ct n st c items = some r → newInst ct n' st c items = some r := by
  intro n
  induction n with
  | zero => intro n' st c items r _ h; simp [newInst] at h
  | succ n ih =>
    intro n' st c items r hle h
    obtain ⟨k, rfl⟩ : ∃ k, n' = k + 1 := ⟨n' - 1, by omega⟩
    have hk : n ≤ k := by omega
    rw [newInst_succ] at h ⊢
    split at h
    · cases h
    · rename_i ci hci
      split at h
      · cases h
      · rename_i sb attrs hrun
        have hstep : ∀ s p r, instStep ct n s p = some r → instStep ct k s p = some r := by
          intro s p r hr
          simp only [instStep] at hr ⊢
          split at hr
          · cases hr
          · rename_i s' y hy
            rw [ih k s p.2 [] (s', y) hk hy]
            exact hr
        rw [mapSt_mono hstep _ _ _ hrun]
        exact h

theorem instAttrs_fuel_mono (ct : ClassTable) {n n' : Nat} (hle : n ≤ n') {st : State}
    {l : List (Name × ClsId)} {r : State × List (Name × Val)}
    (h : mapSt (instStep ct n) st l = some r) : mapSt (instStep ct n') st l = some r := by
  refine mapSt_mono ?_ _ _ _ h
  intro s p r hr
  simp only [instStep] at hr ⊢
  split at hr
  · cases hr
  · rename_i s' y hy
    rw [newInst_fuel_mono ct n n' s p.2 [] (s', y) hle hy]
    exact hr

/-! ### Simulation: instantiation and unpickling under a translated table -/

section Sim
variable {ct ct' : ClassTable} {tr : ClsId → ClsId} (hT : TableMap ct ct' tr) (next0 : Nat)
include hT

omit hT in
theorem instLoop_sim (n : Nat)
    (ih : ∀ (A B : State) (c : ClsId) (items : List Val) (A' : State) (y : Oid),
      HRel tr next0 A B → newInst ct n A c items = some (A', y) →
      ∃ B', newInst ct' n B (tr c) items = some (B', y) ∧ HRel tr next0 A' B') :
    ∀ (l : List (Name × ClsId)) (A B A' : State) (attrs : List (Name × Val)),
      HRel tr next0 A B → mapSt (instStep ct n) A l = some (A', attrs) →
      ∃ B', mapSt (instStep ct' n) B (l.map (fun p => (p.1, tr p.2))) = some (B', attrs) ∧
        HRel tr next0 A' B' := by
  intro l
  induction l with
  | nil =>
    intro A B A' attrs hR h
    rw [mapSt_nil] at h
    cases h
    exact ⟨B, rfl, hR⟩
  | cons p ps ihl =>
    intro A B A' attrs hR h
    obtain ⟨A1, b, bs, h1, h2, rfl⟩ := mapSt_cons_inv h
    simp only [instStep] at h1
    split at h1
    · cases h1
    · rename_i s' y hy
      cases h1
      obtain ⟨B1, hB1, hR1⟩ := ih A B p.2 [] _ y hR hy
      obtain ⟨B2, hB2, hR2⟩ := ihl _ B1 _ _ hR1 h2
      refine ⟨B2, ?_, hR2⟩
      rw [List.map_cons]
      refine mapSt_cons_some ?_ hB2
      simp only [instStep, hB1]

theorem newInst_sim :
    ∀ (n : Nat) (A B : State) (c : ClsId) (items : List Val) (A' : State) (y : Oid),
      HRel tr next0 A B → newInst ct n A c items = some (A', y) →
      ∃ B', newInst ct' n B (tr c) items = some (B', y) ∧ HRel tr next0 A' B' := by
  intro n
  induction n with
  | zero => intro A B c items A' y _ h; simp [newInst] at h
  | succ n ih =>
    intro A B c items A' y hR h
    rw [newInst_succ] at h
    split at h
    · cases h
    · rename_i ci hci
      split at h
      · cases h
      · rename_i sa attrs hrun
        cases h
        obtain ⟨sb, hsb, hRs⟩ := instLoop_sim (ct := ct) (ct' := ct') next0 n ih ci.dictInst _ _ _ _ hR.reserve hrun
        refine ⟨⟨define sb.objs B.next
            (retag tr ⟨c, items, dictUpdate attrs (baseInitAttrs ci.kind), ci.kind != .node⟩),
            sb.next, sb.memo⟩, ?_, ?_⟩
        · rw [newInst_succ, hT c ci hci]
          simp only [retagInfo] at hsb ⊢
          rw [hsb, hR.next]
          rfl
        · exact hR.defineBoth hRs _

/-- The optional `init_type` step of unpickling, under both tables (the loader's table is at least
as long, so its instantiation fuel is at least the dumper's). -/
theorem initStep_sim (hlen : ct.length ≤ ct'.length) (b : Bool) (ci : ClassInfo) {A B A' : State}
    {base : List (Name × Val)} (hR : HRel tr next0 A B)
    (h : (if b = true then instAttrs ct A ci.dictInst else some (A, [])) = some (A', base)) :
    ∃ B', (if b = true then instAttrs ct' B (retagInfo tr ci).dictInst else some (B, []))
        = some (B', base) ∧ HRel tr next0 A' B' := by
  cases b with
  | false =>
    simp only [Bool.false_eq_true, if_false, Option.some.injEq, Prod.mk.injEq] at h
    obtain ⟨rfl, rfl⟩ := h
    exact ⟨B, rfl, hR⟩
  | true =>
    simp only [if_true] at h ⊢
    rw [instAttrs_eq] at h
    obtain ⟨B', hB', hR'⟩ :=
      instLoop_sim (ct := ct) (ct' := ct') next0 ct.length (newInst_sim hT next0 ct.length) ci.dictInst _ _ _ _ hR h
    refine ⟨B', ?_, hR'⟩
    rw [instAttrs_eq]
    exact instAttrs_fuel_mono ct' hlen hB'

theorem rebuild_sim (hlen : ct.length ≤ ct'.length) :
    (∀ (t : PT) (A B A' : State) (v : Val), HRel tr next0 A B → rebuild ct A t = some (A', v) →
      ∃ B', rebuild ct' B (mapClsPT tr t) = some (B', v) ∧ HRel tr next0 A' B') ∧
    (∀ (ts : List PT) (A B A' : State) (vs : List Val), HRel tr next0 A B →
      rebuilds ct A ts = some (A', vs) →
      ∃ B', rebuilds ct' B (mapClsPTs tr ts) = some (B', vs) ∧ HRel tr next0 A' B') := by
  apply PT.ind2
  · intro a A B A' v hR h
    rw [rebuild.eq_1] at h
    cases h
    exact ⟨B, by rw [mapClsPT, rebuild.eq_1], hR⟩
  · intro c m is names vs ihis ihvs A B A' v hR h
    obtain ⟨ci, s1, is', s2, base, s3, vs', hci, h1, h2, h3, rfl, rfl⟩ := rebuild_node_inv h
    obtain ⟨b1, hb1, hR1⟩ := ihis _ _ _ _ hR.reserve h1
    obtain ⟨b2, hb2, hR2⟩ := initStep_sim hT next0 hlen ci.kind.initOnPickle ci hR1 h2
    obtain ⟨b3, hb3, hR3⟩ := ihvs _ _ _ _ hR2 h3
    refine ⟨⟨define b3.objs B.next (retag tr ⟨c, is', dictUpdate base (names.zip vs'), m⟩),
        b3.next, b3.memo⟩, ?_, ?_⟩
    · rw [mapClsPT, rebuild.eq_2, hT c ci hci]
      have hk : (retagInfo tr ci).kind = ci.kind := rfl
      simp only [hk, hb1, hb2, hb3]
      rw [hR.next]
      rfl
    · exact hR.defineBoth hR3 _
  · intro A B A' vs hR h
    rw [rebuilds.eq_1] at h
    cases h
    exact ⟨B, by rw [mapClsPTs, rebuilds.eq_1], hR⟩
  · intro t ts iht ihts A B A' l hR h
    obtain ⟨s1, v, vs, h1, h2, rfl⟩ := rebuilds_cons_inv h
    obtain ⟨b1, hb1, hR1⟩ := iht _ _ _ _ hR h1
    obtain ⟨b2, hb2, hR2⟩ := ihts _ _ _ _ hR1 h2
    refine ⟨b2, ?_, hR2⟩
    rw [mapClsPTs, rebuilds.eq_2]
    simp only [hb1, hb2]

end Sim

/-! ### The table built by `loadClasses` -/

theorem recreate_classes (tr : ClsId → ClsId) (met : Bool) (m : Module) (name : Name) (ci : ClassInfo) :
    (recreate tr met m name ci).classes = m.classes ++ [retagInfo tr ci] := by
  cases met <;> rfl

theorem recreate_names (tr : ClsId → ClsId) (met : Bool) (m : Module) (name : Name) (ci : ClassInfo) :
    (recreate tr met m name ci).names = m.names ++ [name] := by
  cases met <;> rfl

theorem recreateAll_classes (tr : ClsId → ClsId) (used : List ClsId) (names : List Name) :
    ∀ (l : List ClassInfo) (m : Module) (c : ClsId),
      (recreateAll tr used names m c l).classes = m.classes ++ l.map (retagInfo tr) := by
  intro l
  induction l with
  | nil => intro m c; simp [recreateAll]
  | cons ci r ih =>
    intro m c
    rw [recreateAll, ih, recreate_classes]
    simp

theorem recreateAll_names (tr : ClsId → ClsId) (used : List ClsId) (names : List Name) :
    ∀ (l : List ClassInfo) (m : Module) (c : ClsId),
      (recreateAll tr used names m c l).names
        = m.names ++ (List.range l.length).map (fun i => (names[c + i]?).getD 0) := by
  intro l
  induction l with
  | nil => intro m c; simp [recreateAll]
  | cons ci r ih =>
    intro m c
    rw [recreateAll, ih, recreate_names]
    simp only [List.length_cons, List.range_succ_eq_map, List.map_cons, List.map_map,
      List.append_assoc, List.singleton_append, Nat.add_zero]
    congr 2
    apply List.map_congr_left
    intro i _
    show (names[c + 1 + i]?).getD 0 = (names[c + (i + 1)]?).getD 0
    rw [Nat.add_assoc, Nat.add_comm 1 i]

theorem loadClasses_classes (m' : Module) (P : Pickle) :
    (loadClasses m' P).classes
      = m'.classes ++ (P.classes.drop P.nb).map (retagInfo (trLoad P.nb m'.classes.length)) :=
  recreateAll_classes _ _ _ _ _ _

/-- Classes that pickle by reference are classes of every interpreter; the by-value classes of the
dump are found, translated, behind the classes of the loading module. -/
theorem tableMap_load (ct pre : ClassTable) (nb : Nat) (hct : CTOk ct)
    (hnb : nb ≤ pre.length) (hpre : ∀ c, c < nb → pre[c]? = ct[c]?) :
    TableMap ct (pre ++ (ct.drop nb).map (retagInfo (trLoad nb pre.length))) (trLoad nb pre.length) := by
  intro c ci hci
  by_cases hc : c < nb
  · have htr : trLoad nb pre.length c = c := by simp [trLoad, hc]
    rw [htr, List.getElem?_append_left (Nat.lt_of_lt_of_le hc hnb), hpre c hc, hci]
    congr 1
    have : ci.dictInst.map (fun p => (p.1, trLoad nb pre.length p.2)) = ci.dictInst := by
      conv => rhs; rw [← List.map_id ci.dictInst]
      apply List.map_congr_left
      intro p hp
      have : p.2 < c := hct c ci hci p hp
      simp [trLoad, Nat.lt_trans this hc]
    simp only [retagInfo, this]
  · have htr : trLoad nb pre.length c = pre.length + (c - nb) := by simp [trLoad, hc]
    rw [htr, List.getElem?_append_right (Nat.le_add_right _ _), Nat.add_sub_cancel_left,
      List.getElem?_map, List.getElem?_drop]
    have hge : nb ≤ c := Nat.le_of_not_lt hc
    have : nb + (c - nb) = c := by omega
    rw [this, hci]
    rfl

/-! ### Histories of `create` / `del` -/

theorem nsStep_keeps (m : Module) (op : NsOp) :
    m.classes.length ≤ (nsStep m op).classes.length ∧
    ∀ c, c < m.classes.length → (nsStep m op).classes[c]? = m.classes[c]? := by
  cases op with
  | create name ci =>
    simp only [nsStep]
    split
    · refine ⟨by simp [metaCreate], fun c hc => ?_⟩
      show (m.classes ++ [ci])[c]? = m.classes[c]?
      exact List.getElem?_append_left hc
    · exact ⟨Nat.le_refl _, fun _ _ => rfl⟩
  | delete name => exact ⟨Nat.le_refl _, fun _ _ => rfl⟩

/-- Whatever is created or deleted, the class objects that exist stay what they are. -/
theorem nsRun_keeps (ops : List NsOp) : ∀ (m : Module),
    m.classes.length ≤ (nsRun m ops).classes.length ∧
    ∀ c, c < m.classes.length → (nsRun m ops).classes[c]? = m.classes[c]? := by
  induction ops with
  | nil => intro m; exact ⟨Nat.le_refl _, fun _ _ => rfl⟩
  | cons op ops ih =>
    intro m
    obtain ⟨h1, h2⟩ := nsStep_keeps m op
    obtain ⟨h3, h4⟩ := ih (nsStep m op)
    refine ⟨Nat.le_trans h1 h3, fun c hc => ?_⟩
    show (nsRun (nsStep m op) ops).classes[c]? = m.classes[c]?
    rw [h4 c (Nat.lt_of_lt_of_le hc h1), h2 c hc]

theorem CTOk.append_one {ct : ClassTable} (h : CTOk ct) (ci : ClassInfo)
    (hci : ∀ p ∈ ci.dictInst, p.2 < ct.length) : CTOk (ct ++ [ci]) := by
  intro c ci' hc p hp
  by_cases hlt : c < ct.length
  · rw [List.getElem?_append_left hlt] at hc
    exact h c ci' hc p hp
  · have hge : ct.length ≤ c := Nat.le_of_not_lt hlt
    rw [List.getElem?_append_right hge] at hc
    have : c - ct.length = 0 := by
      cases hk : c - ct.length with
      | zero => rfl
      | succ k => rw [hk] at hc; simp at hc
    rw [this] at hc
    simp at hc
    subst hc
    exact Nat.lt_of_lt_of_le (hci p hp) hge

/-- The namespace stays well-founded: a class only ever mentions classes that existed before it. -/
theorem nsRun_ctok (ops : List NsOp) : ∀ (m : Module), CTOk m.classes → CTOk (nsRun m ops).classes := by
  induction ops with
  | nil => intro m h; exact h
  | cons op ops ih =>
    intro m h
    apply ih
    cases op with
    | create name ci =>
      simp only [nsStep]
      split
      · rename_i hall
        apply CTOk.append_one h
        intro p hp
        have := List.all_eq_true.1 hall p hp
        exact of_decide_eq_true this
      · exact h
    | delete name => exact h

/-! ### The identity-free description of a class -/

theorem mapOpt_map {α β γ : Type} (f : β → Option γ) (g : α → β) (l : List α) :
    mapOpt f (l.map g) = mapOpt (fun a => f (g a)) l := by
  induction l with
  | nil => rfl
  | cons a as ih => simp only [List.map_cons, mapOpt, ih]

theorem mapOpt_congr {α β : Type} {f g : α → Option β} {l : List α}
    (h : ∀ a ∈ l, f a = g a) : mapOpt f l = mapOpt g l := by
  induction l with
  | nil => rfl
  | cons a as ih =>
    simp only [mapOpt]
    rw [h a List.mem_cons_self, ih (fun b hb => h b (List.mem_cons_of_mem _ hb))]

/-- The description of a class does not depend on where the class sits in the table: under a
translation that keeps records and names, every class of `ct` is described by the same words. -/
theorem describe_map {ct ct' : ClassTable} {tr : ClsId → ClsId} {names names' : List Name}
    (hct : CTOk ct) (hT : TableMap ct ct' tr)
    (hN : ∀ c, c < ct.length → names'[tr c]? = names[c]?) :
    ∀ (k : Nat) (c : ClsId), c < ct.length → describe ct' names' k (tr c) = describe ct names k c := by
  intro k
  induction k with
  | zero => intro c _; rfl
  | succ k ih =>
    intro c hc
    obtain ⟨ci, hci⟩ : ∃ ci, ct[c]? = some ci := ⟨ct[c], List.getElem?_eq_getElem hc⟩
    rw [describe, describe, hT c ci hci, hN c hc, hci]
    cases hn : names[c]? with
    | none => rfl
    | some nm =>
      simp only [retagInfo]
      rw [mapOpt_map]
      have : mapOpt (fun (a : Name × ClsId) => descEntry (describe ct' names' k) (a.1, tr a.2)) ci.dictInst
          = mapOpt (descEntry (describe ct names k)) ci.dictInst := by
        apply mapOpt_congr
        intro p hp
        have hlt : p.2 < ct.length := Nat.lt_trans (hct c ci hci p hp) hc
        simp only [descEntry]
        rw [ih p.2 hlt]
      rw [this]

/-! ### Names stay parallel to classes -/

/-- Every class object has its `__name__`. -/
def Module.WF (m : Module) : Prop := m.names.length = m.classes.length

theorem nsStep_wf (m : Module) (op : NsOp) (h : m.WF) : (nsStep m op).WF := by
  cases op with
  | create name ci =>
    simp only [nsStep]
    split
    · show (m.names ++ [name]).length = (m.classes ++ [ci]).length
      have h' : m.names.length = m.classes.length := h
      simp [h']
    · exact h
  | delete name => exact h

theorem nsRun_wf (ops : List NsOp) : ∀ (m : Module), m.WF → (nsRun m ops).WF := by
  induction ops with
  | nil => intro m h; exact h
  | cons op ops ih => intro m h; exact ih _ (nsStep_wf m op h)

theorem nsStep_names (m : Module) (op : NsOp) :
    ∀ c, c < m.names.length → (nsStep m op).names[c]? = m.names[c]? := by
  intro c hc
  cases op with
  | create name ci =>
    simp only [nsStep]
    split
    · show (m.names ++ [name])[c]? = m.names[c]?
      exact List.getElem?_append_left hc
    · rfl
  | delete name => rfl

theorem nsStep_names_len (m : Module) (op : NsOp) : m.names.length ≤ (nsStep m op).names.length := by
  cases op with
  | create name ci =>
    simp only [nsStep]
    split
    · show m.names.length ≤ (m.names ++ [name]).length
      simp
    · exact Nat.le_refl _
  | delete name => exact Nat.le_refl _

theorem nsRun_names (ops : List NsOp) : ∀ (m : Module),
    m.names.length ≤ (nsRun m ops).names.length ∧
    ∀ c, c < m.names.length → (nsRun m ops).names[c]? = m.names[c]? := by
  induction ops with
  | nil => intro m; exact ⟨Nat.le_refl _, fun _ _ => rfl⟩
  | cons op ops ih =>
    intro m
    obtain ⟨h3, h4⟩ := ih (nsStep m op)
    have h1 := nsStep_names_len m op
    refine ⟨Nat.le_trans h1 h3, fun c hc => ?_⟩
    show (nsRun (nsStep m op) ops).names[c]? = m.names[c]?
    rw [h4 c (Nat.lt_of_lt_of_le hc h1), nsStep_names m op c hc]

theorem loadClasses_names (m' : Module) (P : Pickle) :
    (loadClasses m' P).names
      = m'.names ++ (List.range (P.classes.length - P.nb)).map (fun i => (P.names[P.nb + i]?).getD 0) := by
  show (recreateAll _ _ _ _ _ _).names = _
  rw [recreateAll_names, List.length_drop]

/-- The names of the re-created classes are the pickled ones. -/
theorem names_load (m' : Module) (P : Pickle) (hm' : m'.WF) (hP : P.names.length = P.classes.length)
    (hnb : P.nb ≤ m'.classes.length) (hpre : ∀ c, c < P.nb → m'.names[c]? = P.names[c]?) :
    ∀ c, c < P.classes.length →
      (loadClasses m' P).names[trLoad P.nb m'.classes.length c]? = P.names[c]? := by
  intro c hc
  rw [loadClasses_names]
  by_cases hlt : c < P.nb
  · have htr : trLoad P.nb m'.classes.length c = c := by simp [trLoad, hlt]
    have h1 : c < m'.names.length := by rw [hm']; exact Nat.lt_of_lt_of_le hlt hnb
    rw [htr, List.getElem?_append_left h1, hpre c hlt]
  · have hge : P.nb ≤ c := Nat.le_of_not_lt hlt
    have htr : trLoad P.nb m'.classes.length c = m'.names.length + (c - P.nb) := by
      rw [hm']; simp [trLoad, hlt]
    rw [htr, List.getElem?_append_right (Nat.le_add_right _ _), Nat.add_sub_cancel_left,
      List.getElem?_map]
    have h2 : c - P.nb < P.classes.length - P.nb := by omega
    rw [List.getElem?_range h2]
    have h3 : P.nb + (c - P.nb) = c := by omega
    have h4 : c < P.names.length := by rw [hP]; exact hc
    simp only [Option.map_some, h3, List.getElem?_eq_getElem h4, Option.getD_some]

end Heap
