import DeapModel.Lemmas.C15HvCReB3
/-!
C15 — the 3-D base case of `_hv.c` re-entered, Case 3: the two loops of the entry phase.  `skipLoop` (l.855-857) walks
to the first node whose `domr` is at or above the bound; `reconnectLoop` (l.867-876) walks the remaining nodes below the
bound and inserts those whose `domr` is at or above the bound into the tree, which stays a staircase because these
nodes are pairwise incomparable.
-/
namespace HvC
set_option linter.unusedVariables false
open Hypervolume
open HvSweep (GCtx Hj RL preSet pos ARv VOLv ids Shaped Seg)

theorem skipLoop_spec (S : St) (m₀ : ℕ) (hm : ltBound S 2 (dr S m₀) = false) :
    ∀ (P0 : List ℕ) (s fuel : ℕ), Seg (toSw S) 2 s P0 m₀ → (∀ a ∈ P0, ltBound S 2 (dr S a) = true) → P0.length < fuel →
      skipLoop fuel (nx S 2 s) S = some m₀
  | [], s, fuel, hs, _, hf => by
    obtain ⟨f, rfl⟩ : ∃ f, fuel = f + 1 := ⟨fuel - 1, by simp at hf; omega⟩
    have h1 : nx S 2 s = m₀ := hs.1
    unfold skipLoop
    rw [h1, hm]
    simp
  | a :: P0, s, fuel, hs, hlt, hf => by
    obtain ⟨f, rfl⟩ : ∃ f, fuel = f + 1 := ⟨fuel - 1, by simp at hf; omega⟩
    have h1 : nx S 2 s = a := hs.1.1
    unfold skipLoop
    rw [h1, hlt a (by simp)]
    simp only [if_true]
    exact skipLoop_spec S m₀ hm P0 a f hs.2 (fun x hx => hlt x (by simp [hx])) (by simp at hf; omega)

/-- the invariant of `reconnectLoop`: `S` is the state at the entry of `dim3`, `m₀` the node found by `skipLoop`, `D` the
nodes visited so far (`m₀` included) -/
structure RInv (C : Cargo) (R : List ℚ) (b : ℚ) (S : St) (m₀ : ℕ) (D : List ℕ) (S' : St) : Prop where
  next : S'.next = S.next
  prev : S'.prev = S.prev
  bound : S'.bound = S.bound
  area : S'.area = S.area
  vol : S'.vol = S.vol
  ign : S'.ignore = S.ignore.set m₀ 0
  dlen : S'.domr.length = S.domr.length
  tnd : S'.tree.Nodup
  tmem : ∀ t, t ∈ S'.tree ↔ t ∈ D ∧ b ≤ dr S t
  stair : Stair (S'.tree.map (item C))
  drT : ∀ t ∈ S'.tree, dr S' t = rf R 2
  drO : ∀ a, a ∉ S'.tree → dr S' a = dr S a

theorem reconnect_spec (C : Cargo) (R : List ℚ) (b : ℚ) (S : St) (m₀ q0 : ℕ) (Pall : List ℕ)
    (hb : S.bound.getD 2 none = some b)
    (hinc : ∀ p e, p ∈ Pall → e ∈ Pall → b ≤ dr S p → b ≤ dr S e → p ≠ e →
      ¬ ((item C p).1 ≤ (item C e).1 ∧ (item C p).2 ≤ (item C e).2))
    (hq0 : b ≤ cg C q0 2) (hm0 : b ≤ dr S m₀) :
    ∀ (P1 D : List ℕ) (s fuel : ℕ) (S' : St), RInv C R b S m₀ D S' → m₀ ∈ D → (∀ a ∈ D, a ∈ Pall) →
      Seg (toSw S) 2 s P1 q0 → (∀ a ∈ P1, a ∈ Pall ∧ cg C a 2 < b ∧ a ∉ D ∧ a < S.domr.length) → P1.Nodup →
      P1.length < fuel →
      ∃ S'', reconnectLoop C R fuel (nx S' 2 s) S' = some (q0, S'') ∧ RInv C R b S m₀ (D ++ P1) S''
  | [], D, s, fuel, S', hI, hmD, hDP, hs, hP1, hnd, hf => by
    obtain ⟨f, rfl⟩ : ∃ f, fuel = f + 1 := ⟨fuel - 1, by simp at hf; omega⟩
    have hb' : S'.bound.getD 2 none = some b := by rw [hI.bound]; exact hb
    have h1 : nx S' 2 s = q0 := by
      show HvSweep.tget S'.next 2 s 0 = q0
      rw [hI.next]; exact hs.1
    refine ⟨S', ?_, by rw [List.append_nil]; exact hI⟩
    unfold reconnectLoop reconnectLoopWith
    rw [h1, ltBound_some hb', decide_eq_false (not_lt.mpr hq0)]
    simp
  | p :: P1, D, s, fuel, S', hI, hmD, hDP, hs, hP1, hnd, hf => by
    obtain ⟨f, rfl⟩ : ∃ f, fuel = f + 1 := ⟨fuel - 1, by simp at hf; omega⟩
    have hb' : S'.bound.getD 2 none = some b := by rw [hI.bound]; exact hb
    have h1 : nx S' 2 s = p := by
      show HvSweep.tget S'.next 2 s 0 = p
      rw [hI.next]; exact hs.1.1
    obtain ⟨hpP, hpz, hpD, hpl⟩ := hP1 p (by simp)
    have hnd' := List.nodup_cons.mp hnd
    have hpT : p ∉ S'.tree := fun hm => hpD ((hI.tmem p).mp hm).1
    have hdrp : dr S' p = dr S p := hI.drO p hpT
    have hm0T : m₀ ∈ S'.tree := (hI.tmem m₀).mpr ⟨hmD, hm0⟩
    have hne : S'.tree ≠ [] := fun e => by rw [e] at hm0T; exact absurd hm0T (List.not_mem_nil)
    -- the rest of the walk, from any state that satisfies the invariant for `D ++ [p]`
    have cont : ∀ S2 : St, RInv C R b S m₀ (D ++ [p]) S2 →
        ∃ S'', reconnectLoop C R f (nx S2 2 p) S2 = some (q0, S'') ∧ RInv C R b S m₀ (D ++ p :: P1) S'' := by
      intro S2 hI2
      obtain ⟨S'', h1, h2⟩ := reconnect_spec C R b S m₀ q0 Pall hb hinc hq0 hm0 P1 (D ++ [p]) p f S2 hI2
        (List.mem_append_left _ hmD)
        (by
          intro a ha
          rcases List.mem_append.mp ha with h | h
          · exact hDP a h
          · simp at h; rw [h]; exact hpP)
        hs.2
        (by
          intro a ha
          obtain ⟨e1, e2, e3, e4⟩ := hP1 a (by simp [ha])
          refine ⟨e1, e2, ?_, e4⟩
          intro hm
          rcases List.mem_append.mp hm with h | h
          · exact e3 h
          · simp at h; exact hnd'.1 (h ▸ ha))
        hnd'.2 (by simp at hf; omega)
      refine ⟨S'', h1, ?_⟩
      have : D ++ p :: P1 = D ++ [p] ++ P1 := by simp
      rw [this]; exact h2
    unfold reconnectLoop reconnectLoopWith
    rw [h1, ltBound_some hb', decide_eq_true hpz]
    simp only [if_true]
    rw [geBound_some hb', hdrp]
    by_cases hge : b ≤ dr S p
    · rw [decide_eq_true hge]
      simp only [if_true]
      set S1 := setDr S' p (rf R 2) with hS1
      have hsc : searchClosest C S1 (item C p) = searchList C (item C p) S'.tree := rfl
      obtain ⟨As, B, hAB, hAs, hres⟩ := searchList_spec C (item C p) S'.tree hne
      -- the members of the tree are reconnected nodes of `Pall` other than `p`
      have hTfacts : ∀ e ∈ S'.tree, e ∈ Pall ∧ b ≤ dr S e ∧ p ≠ e := by
        intro e he
        obtain ⟨h1, h2⟩ := (hI.tmem e).mp he
        exact ⟨hDP e h1, h2, fun e' => hpD (e' ▸ h1)⟩
      have hAsfacts : ∀ e ∈ As, (item C e).1 < (item C p).1 ∧ (item C p).2 < (item C e).2 := by
        intro e he
        have heT : e ∈ S'.tree := by rw [hAB]; exact List.mem_append_left _ he
        obtain ⟨g1, g2, g3⟩ := hTfacts e heT
        have hcmp := (cmpNeg_false_iff _ _).mp (hAs e he)
        have hni := hinc p e hpP g1 hge g2 g3
        have hx : (item C e).1 < (item C p).1 := by
          by_contra hc
          exact hni ⟨not_lt.mp hc, hcmp.1⟩
        refine ⟨hx, ?_⟩
        rcases lt_or_eq_of_le hcmp.1 with h | h
        · exact h
        · exact absurd (hcmp.2 h) (not_lt.mpr (le_of_lt hx))
      -- the state after the insertion
      have after : ∀ S2 : St, S2.tree = As ++ p :: B → S2.next = S'.next → S2.prev = S'.prev → S2.bound = S'.bound →
          S2.area = S'.area → S2.vol = S'.vol → S2.ignore = S'.ignore → S2.domr = S'.domr.set p (rf R 2) →
          (∀ e ∈ B, (item C p).1 < (item C e).1 ∧ (item C e).2 < (item C p).2) →
          RInv C R b S m₀ (D ++ [p]) S2 := by
        intro S2 hT e1 e2 e3 e4 e5 e6 e7 hBfacts
        have hpl' : p < S'.domr.length := by rw [hI.dlen]; exact hpl
        refine
          { next := e1.trans hI.next
            prev := e2.trans hI.prev
            bound := e3.trans hI.bound
            area := e4.trans hI.area
            vol := e5.trans hI.vol
            ign := e6.trans hI.ign
            dlen := by rw [e7, List.length_set]; exact hI.dlen
            tnd := by
              rw [hT]
              exact nodup_insert_mid (A := As) (D := []) (B := B) (by simpa [← hAB] using hI.tnd)
                (by simpa [← hAB] using hpT)
            tmem := ?_
            stair := ?_
            drT := ?_
            drO := ?_ }
        · intro t
          rw [hT]
          constructor
          · intro ht
            have : t = p ∨ t ∈ S'.tree := by
              rw [hAB]
              rcases List.mem_append.mp ht with h | h
              · exact Or.inr (List.mem_append_left _ h)
              · rcases List.mem_cons.mp h with h | h
                · exact Or.inl h
                · exact Or.inr (List.mem_append_right _ h)
            rcases this with rfl | h
            · exact ⟨by simp, hge⟩
            · obtain ⟨g1, g2⟩ := (hI.tmem t).mp h
              exact ⟨List.mem_append_left _ g1, g2⟩
          · rintro ⟨ht, hd⟩
            rcases List.mem_append.mp ht with h | h
            · have : t ∈ S'.tree := (hI.tmem t).mpr ⟨h, hd⟩
              rw [hAB] at this
              rcases List.mem_append.mp this with h' | h'
              · exact List.mem_append_left _ h'
              · exact List.mem_append_right _ (List.mem_cons_of_mem _ h')
            · simp at h; rw [h]; simp
        · rw [hT]
          have hpw := List.pairwise_map.mp hI.stair
          rw [hAB] at hpw
          have hpw' := List.pairwise_append.mp hpw
          unfold Stair
          rw [List.pairwise_map]
          refine List.pairwise_append.mpr ⟨hpw'.1, List.pairwise_cons.mpr ⟨fun e he => hBfacts e he, hpw'.2.1⟩, ?_⟩
          intro a ha e he
          rcases List.mem_cons.mp he with rfl | he
          · exact hAsfacts a ha
          · exact hpw'.2.2 a ha e he
        · intro t ht
          rw [hT] at ht
          show S2.domr.getD t 0 = rf R 2
          rw [e7]
          by_cases htp : t = p
          · rw [htp]; exact HvSweep.getD_set_self _ _ _ _ hpl'
          · rw [HvSweep.getD_set_ne _ _ _ _ _ htp]
            apply hI.drT t
            rw [hAB]
            rcases List.mem_append.mp ht with h | h
            · exact List.mem_append_left _ h
            · rcases List.mem_cons.mp h with h | h
              · exact absurd h htp
              · exact List.mem_append_right _ h
        · intro a ha
          rw [hT] at ha
          have hap : a ≠ p := fun e => ha (by rw [e]; simp)
          have haT : a ∉ S'.tree := by
            rw [hAB]
            intro hm
            rcases List.mem_append.mp hm with h | h
            · exact ha (List.mem_append_left _ h)
            · exact ha (List.mem_append_right _ (List.mem_cons_of_mem _ h))
          show S2.domr.getD a 0 = dr S a
          rw [e7, HvSweep.getD_set_ne _ _ _ _ _ hap]
          exact hI.drO a haT
      rw [hsc]
      rcases hres with ⟨hB, A', a, hA', hr⟩ | ⟨b', B', hB, hcb, hr⟩
      · -- `p` goes to the end of the tree
        subst hB
        simp only [List.append_nil] at hAB
        rw [hr]
        simp only
        have h10 : ¬ ((1 : ℤ) ≤ 0) := by decide
        rw [if_neg h10]
        have haA' : a ∉ A' := by
          have := hI.tnd
          rw [hAB, hA'] at this
          intro hm
          exact (List.nodup_append.mp this).2.2 a hm a (by simp) rfl
        have hT2 : (avlInsertAfter S1 a p).tree = As ++ p :: [] := by
          show insertAfter a p S'.tree = _
          rw [hAB, hA', insertAfter_mid a p [] A' haA']; simp
        exact cont _ (after (avlInsertAfter S1 a p) hT2 rfl rfl rfl rfl rfl rfl rfl
          (fun e he => absurd he (List.not_mem_nil)))
      · rw [hr]
        simp only
        have hm10 : ((-1 : ℤ) ≤ 0) := by decide
        rw [if_pos hm10]
        have hbAs : b' ∉ As := by
          have := hI.tnd
          rw [hAB, hB] at this
          intro hm
          exact (List.nodup_append.mp this).2.2 b' hm b' (by simp) rfl
        have hT2 : (avlInsertBefore S1 b' p).tree = As ++ p :: B := by
          show insertBefore b' p S'.tree = _
          rw [hAB, hB, insertBefore_mid b' p B' As hbAs]
        have hb'T : b' ∈ S'.tree := by rw [hAB, hB]; simp
        obtain ⟨g1, g2, g3⟩ := hTfacts b' hb'T
        have hcb' := (cmpNeg_true_iff _ _).mp hcb
        have hni := hinc b' p g1 hpP g2 hge (Ne.symm g3)
        have hby : (item C b').2 < (item C p).2 := by
          rcases hcb' with h | ⟨h1, h2⟩
          · exact h
          · exact absurd ⟨h2, le_of_eq h1⟩ hni
        have hbx : (item C p).1 < (item C b').1 := by
          by_contra hc
          exact hni ⟨not_lt.mp hc, le_of_lt hby⟩
        refine cont _ (after (avlInsertBefore S1 b' p) hT2 rfl rfl rfl rfl rfl rfl rfl ?_)
        intro e he
        rw [hB] at he
        rcases List.mem_cons.mp he with rfl | he
        · exact ⟨hbx, hby⟩
        · have hpw := List.pairwise_map.mp hI.stair
          rw [hAB, hB] at hpw
          have := (List.pairwise_cons.mp (List.pairwise_append.mp hpw).2.1).1 e he
          exact ⟨lt_trans hbx this.1, lt_trans this.2 hby⟩
    · rw [decide_eq_false hge]
      simp only [Bool.false_eq_true, if_false]
      refine cont S'
        { next := hI.next
          prev := hI.prev
          bound := hI.bound
          area := hI.area
          vol := hI.vol
          ign := hI.ign
          dlen := hI.dlen
          tnd := hI.tnd
          tmem := ?_
          stair := hI.stair
          drT := hI.drT
          drO := hI.drO }
      intro t
      rw [hI.tmem t]
      constructor
      · rintro ⟨g1, g2⟩; exact ⟨List.mem_append_left _ g1, g2⟩
      · rintro ⟨g1, g2⟩
        rcases List.mem_append.mp g1 with h | h
        · exact ⟨h, g2⟩
        · simp at h; rw [h] at g2; exact absurd g2 hge

end HvC
