/-
C04 lemmas, part 8: order facts used by the correctness proof of the log-time sort:
the lexicographic (descending) order of the sorted fitness list, its relation to dominance on a
prefix of the objectives, and the Boolean tests of the model expressed with `geOn` / `domOn`.
-/
import DeapModel.Lemmas.C04Sweep
import Mathlib.Data.List.Lex

set_option linter.unusedSectionVars false
set_option linter.unusedSimpArgs false
set_option linter.unusedVariables false

namespace C04L
open NDSort

variable {α : Type} [Field α] [LinearOrder α] [IsStrictOrderedRing α] [Inhabited α]

theorem tupleLt_iff_lt (a b : List α) : Py.tupleLt a b = true ↔ a < b := by
  have := C01.lt_iff_lex (⟨a⟩ : Fitness.Fit α) ⟨b⟩
  simpa [Fitness.lt] using this

/-- `a` comes strictly before `b` in the descending lexicographic order -/
def lexDesc (a b : List α) : Prop := Py.tupleLt b a = true

/-- `fitnesses.sort(reverse=True)` on distinct tuples is strictly descending. -/
theorem sorted_desc (l : List (List α)) (hnd : l.Nodup) :
    (l.mergeSort (fun a b => !Py.tupleLt a b)).Pairwise lexDesc := by
  have hle := List.pairwise_mergeSort (le := fun (a b : List α) => !Py.tupleLt a b)
    (by intro a b c h1 h2
        simp only [Bool.not_eq_true', Bool.eq_false_iff, ne_eq, tupleLt_iff_lt, not_lt] at h1 h2 ⊢
        exact le_trans h2 h1)
    (by intro a b
        simp only [Bool.or_eq_true, Bool.not_eq_true', Bool.eq_false_iff, ne_eq, tupleLt_iff_lt, not_lt]
        exact le_total _ _) l
  have hnd' : (l.mergeSort (fun a b => !Py.tupleLt a b)).Nodup := (List.mergeSort_perm _ _).nodup_iff.2 hnd
  refine (hle.and hnd').imp ?_
  intro a b ⟨h1, h2⟩
  simp only [Bool.not_eq_true', Bool.eq_false_iff, ne_eq, tupleLt_iff_lt, not_lt] at h1
  rw [lexDesc, tupleLt_iff_lt]
  exact lt_of_le_of_ne h1 (fun e => h2 e.symm)

theorem nth_cons_succ (x : α) (xs : List α) (i : Nat) : nth (x :: xs) (i + 1) = nth xs i := by
  simp [nth]

theorem nth_cons_zero (x : α) (xs : List α) : nth (x :: xs) 0 = x := by simp [nth]

/-- for tuples of one length, `<` is decided at the first differing objective -/
theorem tupleLt_first_diff : ∀ (a b : List α), a.length = b.length → Py.tupleLt a b = true →
    ∃ i, i < a.length ∧ (∀ j, j < i → nth a j = nth b j) ∧ nth a i < nth b i
  | [], [], _, h => by simp [Py.tupleLt] at h
  | [], _ :: _, hl, _ => by simp at hl
  | _ :: _, [], hl, _ => by simp at hl
  | x :: xs, y :: ys, hl, h => by
    simp only [Py.tupleLt] at h
    by_cases e : x = y
    · subst e
      simp only [↓reduceIte] at h
      obtain ⟨i, hi, h1, h2⟩ := tupleLt_first_diff xs ys (by simpa using hl) h
      refine ⟨i + 1, by simp; omega, ?_, by simpa [nth_cons_succ] using h2⟩
      intro j hj
      cases j with
      | zero => simp [nth_cons_zero]
      | succ j => rw [nth_cons_succ, nth_cons_succ]; exact h1 j (by omega)
    · simp only [e, ↓reduceIte, decide_eq_true_eq] at h
      exact ⟨0, by simp, fun j hj => by omega, by simpa [nth_cons_zero] using h⟩

/-- A later element of the sorted list is never at least as good as an earlier one on the first
`n` objectives when both agree on all further objectives. -/
theorem not_geOn_of_lexDesc (m n : Nat) (a b : List α) (ha : a.length = m) (hb : b.length = m)
    (hlex : lexDesc a b) (hagree : ∀ i, n ≤ i → i < m → nth a i = nth b i) : ¬ geOn n b a := by
  intro hge
  obtain ⟨i, hi, h1, h2⟩ := tupleLt_first_diff b a (by rw [ha, hb]) hlex
  rw [hb] at hi
  by_cases hin : i < n
  · exact absurd (hge i hin) (not_le.2 h2)
  · rw [hagree i (by omega) hi] at h2; exact lt_irrefl _ h2

theorem lex2_of_lexDesc (m : Nat) (a b : List α) (ha : a.length = m) (hb : b.length = m)
    (hlex : lexDesc a b) (hagree : ∀ i, 2 ≤ i → i < m → nth a i = nth b i) : lex2 a b := by
  obtain ⟨i, hi, h1, h2⟩ := tupleLt_first_diff b a (by rw [ha, hb]) hlex
  rw [hb] at hi
  have hi2 : i < 2 := by
    by_contra hc
    rw [hagree i (by omega) hi] at h2; exact lt_irrefl _ h2
  have : i = 0 ∨ i = 1 := by omega
  rcases this with rfl | rfl
  · exact Or.inl h2
  · exact Or.inr ⟨h1 0 (by omega), h2⟩

/-- weakly descending on the first two objectives -/
theorem ge2_of_lexDesc (m : Nat) (hm : 2 ≤ m) (a b : List α) (ha : a.length = m) (hb : b.length = m)
    (hlex : lexDesc a b) : nth b 0 < nth a 0 ∨ (nth b 0 = nth a 0 ∧ nth b 1 ≤ nth a 1) := by
  obtain ⟨i, hi, h1, h2⟩ := tupleLt_first_diff b a (by rw [ha, hb]) hlex
  rcases Nat.lt_or_ge i 1 with h | h
  · have : i = 0 := by omega
    subst this; exact Or.inl h2
  · refine Or.inr ⟨h1 0 (by omega), ?_⟩
    rcases Nat.lt_or_ge i 2 with h' | h'
    · have : i = 1 := by omega
      subst this; exact le_of_lt h2
    · exact le_of_eq (h1 1 (by omega))

/-! ### the Boolean tests of the model -/

theorem nth_take (f : List α) (n i : Nat) (hi : i < n) : nth (f.take n) i = nth f i := by
  simp [nth, List.getD_eq_getElem?_getD, List.getElem?_take, hi]

theorem isDominatedLoop_iff : ∀ (w1 w2 : List α) (ne : Bool), w1.length = w2.length →
    (isDominatedLoop w1 w2 ne = true ↔
      (∀ i, i < w1.length → nth w1 i ≤ nth w2 i) ∧ (ne = true ∨ ∃ i, i < w1.length ∧ nth w1 i < nth w2 i))
  | [], [], ne, _ => by simp [isDominatedLoop]
  | [], _ :: _, _, hl => by simp at hl
  | _ :: _, [], _, hl => by simp at hl
  | a :: as, b :: bs, ne, hl => by
    have hl' : as.length = bs.length := by simpa using hl
    simp only [isDominatedLoop]
    have hall : ∀ (P : Nat → Prop), (∀ i, i < (a :: as).length → P i) ↔ P 0 ∧ ∀ i, i < as.length → P (i + 1) := by
      intro P
      constructor
      · intro h; exact ⟨h 0 (by simp), fun i hi => h (i + 1) (by simp; omega)⟩
      · rintro ⟨h0, h1⟩ i hi
        cases i with
        | zero => exact h0
        | succ i => exact h1 i (by simp at hi; omega)
    have hex : ∀ (P : Nat → Prop), (∃ i, i < (a :: as).length ∧ P i) ↔ P 0 ∨ ∃ i, i < as.length ∧ P (i + 1) := by
      intro P
      constructor
      · rintro ⟨i, hi, hp⟩
        cases i with
        | zero => exact Or.inl hp
        | succ i => exact Or.inr ⟨i, by simp at hi; omega, hp⟩
      · rintro (h | ⟨i, hi, hp⟩)
        · exact ⟨0, by simp, h⟩
        · exact ⟨i + 1, by simp; omega, hp⟩
    rw [hall, hex]
    simp only [nth_cons_zero, nth_cons_succ]
    by_cases h1 : b < a
    · simp [h1, not_le.2 h1]
    · by_cases h2 : a < b
      · simp only [h1, h2, ↓reduceIte]
        rw [isDominatedLoop_iff as bs true hl']
        simp [le_of_lt h2]
      · simp only [h1, h2, ↓reduceIte]
        rw [isDominatedLoop_iff as bs ne hl']
        simp [not_lt.1 h1]

/-- `isDominated(f[:n], g[:n])` says that `g` dominates `f` on the first `n` objectives -/
theorem isDominated_take_iff (n : Nat) (f g : List α) (hf : n ≤ f.length) (hg : n ≤ g.length) :
    isDominated (f.take n) (g.take n) = true ↔ domOn n g f := by
  have hl : (f.take n).length = (g.take n).length := by simp [Nat.min_eq_left hf, Nat.min_eq_left hg]
  have hn : (f.take n).length = n := by simp [Nat.min_eq_left hf]
  rw [isDominated, isDominatedLoop_iff _ _ _ hl, hn]
  simp only [Bool.false_eq_true, false_or, domOn, geOn]
  constructor
  · rintro ⟨h1, i, hi, h2⟩
    refine ⟨fun j hj => ?_, i, hi, ?_⟩
    · have := h1 j hj; rwa [nth_take _ _ _ hj, nth_take _ _ _ hj] at this
    · rwa [nth_take _ _ _ hi, nth_take _ _ _ hi] at h2
  · rintro ⟨h1, i, hi, h2⟩
    refine ⟨fun j hj => ?_, i, hi, ?_⟩
    · rw [nth_take _ _ _ hj, nth_take _ _ _ hj]; exact h1 j hj
    · rw [nth_take _ _ _ hi, nth_take _ _ _ hi]; exact h2

theorem take_eq_take_iff (n : Nat) (f g : List α) (hf : n ≤ f.length) (hg : n ≤ g.length) :
    f.take n = g.take n ↔ ∀ i, i < n → nth f i = nth g i := by
  constructor
  · intro h i hi
    rw [← nth_take f n i hi, ← nth_take g n i hi, h]
  · intro h
    apply List.ext_getElem
    · simp [Nat.min_eq_left hf, Nat.min_eq_left hg]
    · intro i h1 h2
      have hi : i < n := by simp at h1; omega
      have := h i hi
      simp only [nth, List.getD_eq_getElem?_getD] at this
      rw [List.getElem?_eq_getElem (by omega), List.getElem?_eq_getElem (by omega)] at this
      simpa using this

/-- the test of `sortNDHelperB`'s direct branch: "dominated or equal on the first `n` objectives"
is `geOn` -/
theorem dominated_or_equal_iff (n : Nat) (f g : List α) (hf : n ≤ f.length) (hg : n ≤ g.length) :
    (isDominated (f.take n) (g.take n) || f.take n == g.take n) = true ↔ geOn n g f := by
  simp only [Bool.or_eq_true, beq_iff_eq, isDominated_take_iff n f g hf hg, take_eq_take_iff n f g hf hg]
  constructor
  · rintro (h | h)
    · exact h.1
    · intro i hi; exact le_of_eq (h i hi)
  · intro h
    by_cases he : ∀ i, i < n → nth f i = nth g i
    · exact Or.inr he
    · left
      have he' : ∃ i, i < n ∧ nth f i ≠ nth g i := by
        by_contra hc
        exact he (fun i hi => by_contra (fun hne => hc ⟨i, hi, hne⟩))
      obtain ⟨i, hi, hne⟩ := he'
      exact ⟨h, i, hi, lt_of_le_of_ne (h i hi) hne⟩

theorem isDominatedLoop_eq_dominatesLoop : ∀ (a b : List α) (ne : Bool),
    isDominatedLoop a b ne = Fitness.dominatesLoop b a ne
  | [], b, ne => by cases b <;> simp [isDominatedLoop, Fitness.dominatesLoop]
  | x :: xs, [], ne => by simp [isDominatedLoop, Fitness.dominatesLoop]
  | x :: xs, y :: ys, ne => by
    simp only [isDominatedLoop, Fitness.dominatesLoop]
    by_cases h1 : y < x
    · simp [h1, not_lt_of_gt h1]
    · by_cases h2 : x < y
      · simp [h1, h2, isDominatedLoop_eq_dominatesLoop xs ys]
      · simp [h1, h2, isDominatedLoop_eq_dominatesLoop xs ys]

/-- on tuples of length `m`, dominance of C01 is dominance on all `m` objectives -/
theorem domW_iff_domOn (m : Nat) (g f : List α) (hg : g.length = m) (hf : f.length = m) :
    domW g f = true ↔ domOn m g f := by
  rw [show domW g f = isDominated f g from (isDominatedLoop_eq_dominatesLoop f g false).symm]
  have := isDominated_take_iff m f g (by omega) (by omega)
  rwa [List.take_of_length_le (by omega), List.take_of_length_le (by omega)] at this

end C04L
