/-
Helper lemmas for C09: ordered crossover (OX).

The hole-filling loop reads `temp[(i+b+1) % size]` and writes `ind[k % size]` on the *same* list.
Seen through the rotation by `r = b+1` it is an in-place compaction
`for i in range(n): if keep(x[i]): x[c] = x[i]; c += 1`, whose write index never overtakes the
read index; so it leaves `filter keep x ++ drop c x`.
-/
import DeapModel.Lemmas.C09PMX
import Mathlib.Data.List.Rotate

set_option linter.unusedSectionVars false
set_option linter.unusedSimpArgs false
set_option linter.unusedVariables false
set_option linter.unnecessarySeqFocus false

namespace C09L
open CrossMut

/-! ### modular index arithmetic -/

theorem mod_cases (x n : Nat) (hn : 0 < n) (h : x < 2 * n) : x % n = if x < n then x else x - n := by
  split
  · next h1 => exact Nat.mod_eq_of_lt h1
  · next h1 =>
    rw [Nat.mod_eq_sub_mod (by omega), Nat.mod_eq_of_lt (by omega)]

/-- writing position `(r + c) % n` is writing position `c` of the list rotated by `r` -/
theorem rotate_set (l : List Nat) (n r c v : Nat) (hl : l.length = n) (hr : r ≤ n) (hc : c < n) :
    (l.set ((r + c) % n) v).rotate r = (l.rotate r).set c v := by
  apply List.ext_getElem?
  intro j
  by_cases hj : j < n
  · rw [List.getElem?_rotate (by simp [hl, hj]), List.getElem?_set, List.getElem?_set,
      List.getElem?_rotate (by simp [hl, hj])]
    simp only [List.length_set, hl, List.length_rotate]
    have e1 := mod_cases (r + c) n (by omega) (by omega)
    have e2 := mod_cases (j + r) n (by omega) (by omega)
    by_cases hcj : c = j
    · subst hcj
      have : (r + c) % n = (c + r) % n := by rw [Nat.add_comm]
      simp only [this, if_true]
      have : (c + r) % n < n := Nat.mod_lt _ (by omega)
      simp [this, hc]
    · have : (r + c) % n ≠ (j + r) % n := by
        rw [e1, e2]; split <;> split <;> omega
      simp only [this, hcj, if_false]
  · rw [List.getElem?_eq_none (by simp [hl]; omega), List.getElem?_eq_none (by simp [hl]; omega)]

/-! ### in-place compaction -/

/-- state after `k` iterations of the filling loop, started on `ind` with `k = r` -/
def fillState (n b : Nat) (holes : List Bool) (ind : List Nat) (k : Nat) : List Nat × Nat :=
  (List.range k).foldl (oxFillStep n b holes) (ind, b + 1)

/-- `not holes[v]` -/
def keepOf (holes : List Bool) (v : Nat) : Bool := !(holes[v]?.getD true)

theorem fillState_succ (n b : Nat) (holes : List Bool) (ind : List Nat) (k : Nat) :
    fillState n b holes ind (k + 1) = oxFillStep n b holes (fillState n b holes ind k) k := by
  unfold fillState
  rw [List.range_succ, List.foldl_append]
  rfl

theorem fill_inv (n b : Nat) (holes : List Bool) (ind : List Nat) (hl : ind.length = n) (hb : b + 1 ≤ n)
    (k : Nat) (hk : k ≤ n) :
    (fillState n b holes ind k).1.length = n ∧
    (fillState n b holes ind k).1.rotate (b + 1)
      = ((ind.rotate (b + 1)).take k).filter (keepOf holes)
          ++ (ind.rotate (b + 1)).drop ((((ind.rotate (b + 1)).take k).filter (keepOf holes)).length) ∧
    (fillState n b holes ind k).2 = (b + 1) + (((ind.rotate (b + 1)).take k).filter (keepOf holes)).length := by
  induction k with
  | zero => simp [fillState, hl]
  | succ k ih =>
    obtain ⟨h1, h2, h3⟩ := ih (by omega)
    rw [fillState_succ]
    generalize hst : fillState n b holes ind k = st at h1 h2 h3
    obtain ⟨l, kk⟩ := st
    simp only at h1 h2 h3
    set X := ind.rotate (b + 1) with hX
    have hXl : X.length = n := by simp [hX, hl]
    set F := (X.take k).filter (keepOf holes) with hF
    have hFk : F.length ≤ k := by
      have h0 : F.length ≤ (X.take k).length := List.length_filter_le (keepOf holes) (X.take k)
      have h00 : (X.take k).length ≤ k := by rw [List.length_take]; omega
      omega
    -- the value read is the `k`-th element of the rotated original
    have hread : l[(k + b + 1) % n]?.getD 0 = X[k]'(by omega) := by
      have e : l[(k + b + 1) % n]? = (l.rotate (b + 1))[k]? := by
        rw [List.getElem?_rotate (by omega), h1, Nat.add_assoc]
      rw [e, h2, List.getElem?_append_right (by omega), List.getElem?_drop]
      have : F.length + (k - F.length) = k := by omega
      rw [this, List.getElem?_eq_getElem (by omega)]
      rfl
    have htake : X.take (k + 1) = X.take k ++ [X[k]'(by omega)] := by
      rw [List.take_add_one, List.getElem?_eq_getElem (by omega)]; rfl
    unfold oxFillStep
    simp only [hread]
    by_cases hkeep : keepOf holes (X[k]'(by omega)) = true
    · have hk' : (!(holes[X[k]'(by omega)]?.getD true)) = true := hkeep
      rw [if_pos hk']
      simp only
      have hF' : (X.take (k + 1)).filter (keepOf holes) = F ++ [X[k]'(by omega)] := by
        rw [htake, List.filter_append]; simp [hkeep, hF]
      rw [hF']
      refine ⟨by simp [h1], ?_, by simp [h3]; omega⟩
      rw [h3, rotate_set l n (b + 1) F.length _ h1 hb (by omega), h2]
      rw [List.set_append_right _ _ (by omega), Nat.sub_self]
      have hd : X.drop F.length = X[F.length]'(by omega) :: X.drop (F.length + 1) := by
        rw [List.drop_eq_getElem_cons]
      rw [hd, List.set_cons_zero]
      simp [List.append_assoc]
    · have hk' : ¬ ((!(holes[X[k]'(by omega)]?.getD true)) = true) := hkeep
      rw [if_neg hk']
      have hF' : (X.take (k + 1)).filter (keepOf holes) = F := by
        rw [htake, List.filter_append]; simp [hkeep, hF]
      rw [hF']
      exact ⟨h1, h2, h3⟩

/-! ### the two halves of the loop body are independent -/

theorem oxLoop_eq (n b : Nat) (h1 h2 : List Bool) (l : List Nat) (x1 : List Nat) (k1 : Nat) (x2 : List Nat) (k2 : Nat) :
    l.foldl (oxStep n b h1 h2) ⟨x1, k1, x2, k2⟩ =
      ⟨(l.foldl (oxFillStep n b h1) (x1, k1)).1, (l.foldl (oxFillStep n b h1) (x1, k1)).2,
       (l.foldl (oxFillStep n b h2) (x2, k2)).1, (l.foldl (oxFillStep n b h2) (x2, k2)).2⟩ := by
  induction l generalizing x1 k1 x2 k2 with
  | nil => rfl
  | cons i is ih =>
    simp only [List.foldl_cons]
    exact ih _ _ _ _

/-! ### the hole tables -/

/-- `holes = [True]*n; for i in range(k): if i < a or i > b: holes[ind[i]] = False` -/
def holeTable (n a b : Nat) (ind : List Nat) (k : Nat) : List Bool :=
  (List.range k).foldl (fun h i => if i < a ∨ i > b then h.set (g ind i) false else h) (List.replicate n true)

theorem oxHoles_eq (n a b : Nat) (ind1 ind2 : List Nat) :
    oxHoles n a b ind1 ind2 = (holeTable n a b ind2 n, holeTable n a b ind1 n) := by
  unfold oxHoles holeTable
  rw [← foldl_pair (fun (h : List Bool) (i : Nat) => if i < a ∨ i > b then h.set (g ind2 i) false else h)
    (fun (h : List Bool) (i : Nat) => if i < a ∨ i > b then h.set (g ind1 i) false else h)]
  congr 1
  funext h i
  by_cases c : i < a ∨ i > b
  · simp only [c, if_true]; rfl
  · simp only [c, if_false]

theorem holeTable_succ (n a b : Nat) (ind : List Nat) (k : Nat) :
    holeTable n a b ind (k + 1) =
      if k < a ∨ k > b then (holeTable n a b ind k).set (g ind k) false else holeTable n a b ind k := by
  unfold holeTable
  rw [List.range_succ, List.foldl_append]
  rfl

theorem holeTable_length (n a b : Nat) (ind : List Nat) (k : Nat) : (holeTable n a b ind k).length = n := by
  induction k with
  | zero => simp [holeTable]
  | succ k ih => rw [holeTable_succ]; split <;> simp [ih]

theorem keepOf_set (h : List Bool) (u v : Nat) (hu : u < h.length) :
    keepOf (h.set u false) v = if v = u then true else keepOf h v := by
  unfold keepOf
  rw [List.getElem?_set]
  by_cases c : v = u
  · subst c; simp [hu]
  · have : ¬ u = v := fun e => c e.symm
    simp [c, this]

/-- a value is kept (not a hole) iff it sits outside `[a, b]` in the other parent -/
theorem keepOf_holeTable (n a b : Nat) (ind : List Nat) (hlt : ∀ i < n, g ind i < n) (k : Nat) (hk : k ≤ n) (v : Nat) :
    keepOf (holeTable n a b ind k) v = true ↔ ∃ i < k, (i < a ∨ i > b) ∧ g ind i = v := by
  induction k with
  | zero =>
    simp only [holeTable, keepOf, List.range_zero, List.foldl_nil, Nat.not_lt_zero, false_and, exists_false, iff_false]
    rw [List.getElem?_replicate]
    by_cases c : v < n <;> simp [c]
  | succ k ih =>
    have ih' := ih (by omega)
    rw [holeTable_succ]
    by_cases c : k < a ∨ k > b
    · rw [if_pos c, keepOf_set _ _ _ (by rw [holeTable_length]; exact hlt k (by omega))]
      by_cases e : v = g ind k
      · simp only [e, if_true, true_iff]
        exact ⟨k, by omega, c, rfl⟩
      · rw [if_neg e, ih']
        constructor
        · rintro ⟨i, hi, hc, hv⟩; exact ⟨i, by omega, hc, hv⟩
        · rintro ⟨i, hi, hc, hv⟩
          have : i ≠ k := fun ek => e (by rw [← hv, ek])
          exact ⟨i, by omega, hc, hv⟩
    · rw [if_neg c, ih']
      constructor
      · rintro ⟨i, hi, hc, hv⟩; exact ⟨i, by omega, hc, hv⟩
      · rintro ⟨i, hi, hc, hv⟩
        have : i ≠ k := fun ek => c (ek ▸ hc)
        exact ⟨i, by omega, hc, hv⟩

/-! ### the segment `[a, b]` of the other parent and the kept values -/

theorem seg_mem (y : List Nat) (a r v : Nat) (hr : r ≤ y.length) :
    v ∈ (y.take r).drop a ↔ ∃ i, a ≤ i ∧ i < r ∧ g y i = v := by
  rw [List.mem_drop_iff_getElem]
  constructor
  · rintro ⟨j, hj, e⟩
    have hj' : a + j < r := by
      have := hj
      simp only [List.length_take, Nat.min_eq_left hr] at this
      omega
    refine ⟨a + j, by omega, hj', ?_⟩
    rw [g_eq_getElem y (a + j) (by omega), ← e, List.getElem_take]
  · rintro ⟨i, h1, h2, e⟩
    refine ⟨i - a, by simp [List.length_take, Nat.min_eq_left hr]; omega, ?_⟩
    rw [List.getElem_take, ← e, g_eq_getElem y i (by omega)]
    congr 1; omega

/-- for a value below `n`: it is a hole iff it lies in the segment of the other parent -/
theorem hole_iff_seg (n a b : Nat) (y : List Nat) (hy : y.Perm (List.range n)) (hb : b < n) (v : Nat) :
    (v < n ∧ keepOf (holeTable n a b y n) v = false) ↔ v ∈ (y.take (b + 1)).drop a := by
  obtain ⟨hlen, hlt, hinj, hsur⟩ := perm_range_facts n y hy
  rw [seg_mem y a (b + 1) v (by omega)]
  have hk := keepOf_holeTable n a b y hlt n (Nat.le_refl n) v
  constructor
  · rintro ⟨hv, hkeep⟩
    obtain ⟨j, hj, e⟩ := hsur v hv
    refine ⟨j, ?_, ?_, e⟩
    · by_contra c
      have : keepOf (holeTable n a b y n) v = true := hk.2 ⟨j, hj, Or.inl (by omega), e⟩
      rw [this] at hkeep; cases hkeep
    · by_contra c
      have : keepOf (holeTable n a b y n) v = true := hk.2 ⟨j, hj, Or.inr (by omega), e⟩
      rw [this] at hkeep; cases hkeep
  · rintro ⟨i, h1, h2, e⟩
    refine ⟨by rw [← e]; exact hlt i (by omega), ?_⟩
    cases hc : keepOf (holeTable n a b y n) v with
    | false => rfl
    | true =>
      obtain ⟨i', hi', hc', e'⟩ := hk.1 hc
      have : i' = i := hinj i' hi' i (by omega) (by rw [e', e])
      omega

theorem seg_perm_holes (n a b : Nat) (y : List Nat) (hy : y.Perm (List.range n)) (hb : b < n) :
    ((y.take (b + 1)).drop a).Perm ((List.range n).filter (fun v => !(keepOf (holeTable n a b y n) v))) := by
  have hnd : y.Nodup := hy.nodup_iff.2 List.nodup_range
  rw [List.perm_ext_iff_of_nodup ((hnd.sublist (List.take_sublist _ _)).sublist (List.drop_sublist _ _))
    (List.nodup_range.filter _)]
  intro v
  rw [← hole_iff_seg n a b y hy hb v, List.mem_filter, List.mem_range]
  simp

/-- kept values of a permutation followed by the segment: again a permutation of `0..n-1` -/
theorem kept_append_seg_perm (n a b : Nat) (X y : List Nat) (hX : X.Perm (List.range n)) (hy : y.Perm (List.range n))
    (hb : b < n) :
    (X.filter (keepOf (holeTable n a b y n)) ++ (y.take (b + 1)).drop a).Perm (List.range n) := by
  have h1 : (X.filter (keepOf (holeTable n a b y n))).Perm ((List.range n).filter (keepOf (holeTable n a b y n))) :=
    hX.filter _
  exact (List.Perm.append h1 (seg_perm_holes n a b y hy hb)).trans (List.filter_append_perm _ _)

theorem kept_length (n a b : Nat) (X y : List Nat) (hX : X.Perm (List.range n)) (hy : y.Perm (List.range n))
    (hab : a ≤ b) (hb : b < n) :
    (X.filter (keepOf (holeTable n a b y n))).length = n - (b + 1 - a) := by
  have h := (kept_append_seg_perm n a b X y hX hy hb).length_eq
  have hl : y.length = n := by simpa using hy.length_eq
  simp only [List.length_append, List.length_drop, List.length_take, List.length_range, hl] at h
  omega

/-! ### assembling one child -/

theorem ox_assemble (n a b : Nat) (x y lx ly c F : List Nat)
    (hx : x.Perm (List.range n)) (hy : y.Perm (List.range n)) (hab : a ≤ b) (hb : b < n)
    (hlx : lx.length = n) (hly : ly.length = n) (hc : c.length = n)
    (rx : lx.rotate (b + 1) = (x.rotate (b + 1)).filter (keepOf (holeTable n a b y n))
            ++ (x.rotate (b + 1)).drop (n - (b + 1 - a)))
    (hF : F.length = n - (b + 1 - a))
    (ry : ly.rotate (b + 1) = F ++ (y.rotate (b + 1)).drop (n - (b + 1 - a)))
    (hcj : ∀ j : Nat, c[j]? = if a ≤ j ∧ j < b + 1 then ly[j]? else lx[j]?) :
    c.Perm (List.range n) := by
  have hxl : x.length = n := by simpa using hx.length_eq
  have hyl : y.length = n := by simpa using hy.length_eq
  have hX : (x.rotate (b + 1)).Perm (List.range n) := (List.rotate_perm x (b + 1)).trans hx
  have hFx := kept_length n a b (x.rotate (b + 1)) y hX hy hab hb
  -- the tail of the rotated other parent is its segment `[a, b]`
  have hseg : (y.rotate (b + 1)).drop (n - (b + 1 - a)) = (y.take (b + 1)).drop a := by
    rw [List.rotate_eq_drop_append_take (by omega), List.drop_append]
    have : (y.drop (b + 1)).drop (n - (b + 1 - a)) = [] := by
      apply List.drop_eq_nil_of_le; simp only [List.length_drop]; omega
    rw [List.drop_drop] at this
    rw [List.drop_drop, this, List.nil_append, List.length_drop]
    congr 1; omega
  have hsegl : ((y.take (b + 1)).drop a).length = b + 1 - a := by
    simp only [List.length_drop, List.length_take]; omega
  have key : c.rotate (b + 1) = (x.rotate (b + 1)).filter (keepOf (holeTable n a b y n)) ++ (y.take (b + 1)).drop a := by
    apply List.ext_getElem?
    intro j
    by_cases hj : j < n
    · rw [List.getElem?_rotate (by omega), hc, hcj]
      have hJ := mod_cases (j + (b + 1)) n (by omega) (by omega)
      have e1 : lx[(j + (b + 1)) % n]? = (lx.rotate (b + 1))[j]? := by
        rw [List.getElem?_rotate (by omega), hlx]
      have e2 : ly[(j + (b + 1)) % n]? = (ly.rotate (b + 1))[j]? := by
        rw [List.getElem?_rotate (by omega), hly]
      rw [e1, e2, rx, ry, hseg]
      by_cases hjc : j < n - (b + 1 - a)
      · have cnd : ¬ (a ≤ (j + (b + 1)) % n ∧ (j + (b + 1)) % n < b + 1) := by
          rw [hJ]; split <;> omega
        rw [if_neg cnd, List.getElem?_append_left (by omega), List.getElem?_append_left (by omega)]
      · have cnd : a ≤ (j + (b + 1)) % n ∧ (j + (b + 1)) % n < b + 1 := by
          rw [hJ]; split <;> omega
        rw [if_pos cnd, List.getElem?_append_right (by omega), List.getElem?_append_right (by omega), hF, hFx]
    · rw [List.getElem?_eq_none (by simp [hc]; omega),
        List.getElem?_eq_none (by simp only [List.length_append, hFx, hsegl]; omega)]
  exact ((List.rotate_perm c (b + 1)).symm.trans (key ▸ List.Perm.refl _)).trans
    (kept_append_seg_perm n a b (x.rotate (b + 1)) y hX hy hb)

/-- the hole-filling loop on one parent, in closed form (through the rotation by `b + 1`) -/
theorem fill_final (n a b : Nat) (x y : List Nat) (hx : x.Perm (List.range n)) (hy : y.Perm (List.range n))
    (hab : a ≤ b) (hb : b < n) :
    let l := ((List.range n).foldl (oxFillStep n b (holeTable n a b y n)) (x, b + 1)).1
    l.length = n ∧
    l.rotate (b + 1) = (x.rotate (b + 1)).filter (keepOf (holeTable n a b y n))
        ++ (x.rotate (b + 1)).drop (n - (b + 1 - a)) ∧
    ((x.rotate (b + 1)).filter (keepOf (holeTable n a b y n))).length = n - (b + 1 - a) := by
  have hxl : x.length = n := by simpa using hx.length_eq
  have hX : (x.rotate (b + 1)).Perm (List.range n) := (List.rotate_perm x (b + 1)).trans hx
  have hFx := kept_length n a b (x.rotate (b + 1)) y hX hy hab hb
  obtain ⟨h1, h2, _⟩ := fill_inv n b (holeTable n a b y n) x hxl (by omega) n (Nat.le_refl n)
  have ht : (x.rotate (b + 1)).take n = x.rotate (b + 1) := List.take_of_length_le (by simp [hxl])
  rw [ht, hFx] at h2
  exact ⟨h1, h2, hFx⟩

/-- OX on two permutations of `0..n-1` (`a < b < n` already ordered) -/
theorem ox_core (n a b : Nat) (ind1 ind2 : List Nat) (h1 : ind1.Perm (List.range n)) (h2 : ind2.Perm (List.range n))
    (hab : a ≤ b) (hb : b < n) :
    let h := oxHoles n a b ind1 ind2
    let s := (List.range n).foldl (oxStep n b h.1 h.2) ⟨ind1, b + 1, ind2, b + 1⟩
    let fin := (List.range' a (b + 1 - a)).foldl (fun p i => swapAt2 i p) (s.ind1, s.ind2)
    fin.1.Perm (List.range n) ∧ fin.2.Perm (List.range n) := by
  intro h s fin
  have hs : s = ⟨((List.range n).foldl (oxFillStep n b (holeTable n a b ind2 n)) (ind1, b + 1)).1,
                 ((List.range n).foldl (oxFillStep n b (holeTable n a b ind2 n)) (ind1, b + 1)).2,
                 ((List.range n).foldl (oxFillStep n b (holeTable n a b ind1 n)) (ind2, b + 1)).1,
                 ((List.range n).foldl (oxFillStep n b (holeTable n a b ind1 n)) (ind2, b + 1)).2⟩ := by
    show (List.range n).foldl (oxStep n b (oxHoles n a b ind1 ind2).1 (oxHoles n a b ind1 ind2).2) _ = _
    rw [oxHoles_eq, oxLoop_eq]
  obtain ⟨f1l, f1r, f1c⟩ := fill_final n a b ind1 ind2 h1 h2 hab hb
  obtain ⟨f2l, f2r, f2c⟩ := fill_final n a b ind2 ind1 h2 h1 hab hb
  have hfin := swapRange_exact a (b + 1 - a) (s.ind1, s.ind2) (by rw [hs]; simp only [f1l, f2l]; omega)
  have hlen := foldl_inv (fun p : List Nat × List Nat => p.1.length = n ∧ p.2.length = n)
    (fun p i => swapAt2 i p) (List.range' a (b + 1 - a)) (s.ind1, s.ind2)
    (by rw [hs]; exact ⟨f1l, f2l⟩)
    (fun p i _ hp => ⟨by rw [(swapAt2_length i p).1, hp.1], by rw [(swapAt2_length i p).2, hp.2]⟩)
  have hr : a + (b + 1 - a) = b + 1 := by omega
  constructor
  · refine ox_assemble n a b ind1 ind2 s.ind1 s.ind2 fin.1 _ h1 h2 hab hb (by rw [hs]; exact f1l)
      (by rw [hs]; exact f2l) hlen.1 (by rw [hs]; exact f1r) f2c (by rw [hs]; exact f2r) ?_
    intro j
    have := (hfin j).1
    rw [hr] at this
    exact this
  · refine ox_assemble n a b ind2 ind1 s.ind2 s.ind1 fin.2 _ h2 h1 hab hb (by rw [hs]; exact f2l)
      (by rw [hs]; exact f1l) hlen.2 (by rw [hs]; exact f2r) f1c (by rw [hs]; exact f1r) ?_
    intro j
    have := (hfin j).2
    rw [hr] at this
    exact this

end C09L
