/-
Helper lemmas and specification vocabulary for C06: the lexicase family.
-/
import DeapModel.Lemmas.C06

set_option linter.unusedSectionVars false
set_option linter.unusedSimpArgs false
set_option linter.unusedVariables false

namespace C06L
open Selection

/-! ### Vocabulary of the statements -/

/-- Individual `x` is at least as good as `y` on case `c` (larger value for a positive weight,
smaller otherwise — the direction `selLexicase` uses). -/
def geqOn (w : List Rat) (vals : List (List Rat)) (c x y : Nat) : Prop :=
  if w.getD c 0 > 0 then valAt vals y c ≤ valAt vals x c else valAt vals x c ≤ valAt vals y c

/-- Individual `x` is better than `y` on case `c` by more than `tol`. -/
def betterBy (w : List Rat) (vals : List (List Rat)) (c x y : Nat) (tol : Rat) : Prop :=
  if w.getD c 0 > 0 then valAt vals y c + tol < valAt vals x c else valAt vals x c + tol < valAt vals y c

/-- The cases the `while` loop actually processes, each with the candidate list it was applied to. -/
def lexTrace (rule : Rule) (w : List Rat) (vals : List (List Rat)) : List Nat → List Nat → List (Nat × List Nat)
  | [], _ => []
  | c :: cs, cands =>
    if cands.length > 1 then (c, cands) :: lexTrace rule w vals cs (filterCase rule w vals c cands) else []

/-- The tolerance `rule` applies at case `c` to the candidate list `cands`. -/
def tolAt (rule : Rule) (vals : List (List Rat)) (c : Nat) (cands : List Nat) : Rat :=
  tolOf rule (cands.map (fun i => valAt vals i c))

/-! ### max / min of a list of numbers -/

theorem foldl_max_ge (xs : List Rat) (x : Rat) :
    x ≤ xs.foldl (fun m y => if y > m then y else m) x ∧
    ∀ e ∈ xs, e ≤ xs.foldl (fun m y => if y > m then y else m) x := by
  induction xs generalizing x with
  | nil => simp
  | cons y ys ih =>
    simp only [List.foldl_cons]
    obtain ⟨h1, h2⟩ := ih (if y > x then y else x)
    refine ⟨?_, ?_⟩
    · refine le_trans ?_ h1; split <;> [exact le_of_lt ‹_›; exact le_refl _]
    · intro e he
      rcases List.mem_cons.1 he with rfl | he
      · refine le_trans ?_ h1; split <;> [exact le_refl _; exact not_lt.1 ‹_›]
      · exact h2 e he

theorem listMax_ge {l : List Rat} : ∀ e ∈ l, e ≤ listMax l := by
  cases l with
  | nil => simp
  | cons x xs =>
    intro e he
    simp only [listMax]
    rcases List.mem_cons.1 he with rfl | he
    · exact (foldl_max_ge xs e).1
    · exact (foldl_max_ge xs x).2 e he

theorem foldl_max_mem (xs : List Rat) (x : Rat) :
    xs.foldl (fun m y => if y > m then y else m) x ∈ x :: xs := by
  induction xs generalizing x with
  | nil => simp
  | cons y ys ih =>
    simp only [List.foldl_cons]
    have := ih (if y > x then y else x)
    rcases List.mem_cons.1 this with h | h
    · rw [h]; split <;> simp
    · simp [h]

theorem listMax_mem {l : List Rat} (h : l ≠ []) : listMax l ∈ l := by
  cases l with
  | nil => exact absurd rfl h
  | cons x xs => exact foldl_max_mem xs x

theorem foldl_min_le (xs : List Rat) (x : Rat) :
    xs.foldl (fun m y => if y < m then y else m) x ≤ x ∧
    ∀ e ∈ xs, xs.foldl (fun m y => if y < m then y else m) x ≤ e := by
  induction xs generalizing x with
  | nil => simp
  | cons y ys ih =>
    simp only [List.foldl_cons]
    obtain ⟨h1, h2⟩ := ih (if y < x then y else x)
    refine ⟨?_, ?_⟩
    · refine le_trans h1 ?_; split <;> [exact le_of_lt ‹_›; exact le_refl _]
    · intro e he
      rcases List.mem_cons.1 he with rfl | he
      · refine le_trans h1 ?_; split <;> [exact le_refl _; exact not_lt.1 ‹_›]
      · exact h2 e he

theorem listMin_le {l : List Rat} : ∀ e ∈ l, listMin l ≤ e := by
  cases l with
  | nil => simp
  | cons x xs =>
    intro e he
    simp only [listMin]
    rcases List.mem_cons.1 he with rfl | he
    · exact (foldl_min_le xs e).1
    · exact (foldl_min_le xs x).2 e he

theorem foldl_min_mem (xs : List Rat) (x : Rat) :
    xs.foldl (fun m y => if y < m then y else m) x ∈ x :: xs := by
  induction xs generalizing x with
  | nil => simp
  | cons y ys ih =>
    simp only [List.foldl_cons]
    have := ih (if y < x then y else x)
    rcases List.mem_cons.1 this with h | h
    · rw [h]; split <;> simp
    · simp [h]

theorem listMin_mem {l : List Rat} (h : l ≠ []) : listMin l ∈ l := by
  cases l with
  | nil => exact absurd rfl h
  | cons x xs => exact foldl_min_mem xs x

/-! ### One case -/

theorem filterCase_sub (rule : Rule) (w : List Rat) (vals : List (List Rat)) (c : Nat) (cands : List Nat) :
    ∀ i ∈ filterCase rule w vals c cands, i ∈ cands := by
  intro i hi
  unfold filterCase at hi
  cases rule <;> simp only at hi
  · exact (List.mem_filter.1 hi).1
  · split at hi <;> exact (List.mem_filter.1 hi).1
  · split at hi <;> exact (List.mem_filter.1 hi).1

/-- Membership in the filtered list, uniformly for the three rules. -/
theorem mem_filterCase (rule : Rule) (w : List Rat) (vals : List (List Rat)) (c : Nat) (cands : List Nat)
    (i : Nat) (hi : i ∈ cands) :
    i ∈ filterCase rule w vals c cands ↔
      (if w.getD c 0 > 0
        then listMax (cands.map (fun j => valAt vals j c)) ≤ valAt vals i c + tolAt rule vals c cands
        else valAt vals i c ≤ listMin (cands.map (fun j => valAt vals j c)) + tolAt rule vals c cands) := by
  have hmem : valAt vals i c ∈ cands.map (fun j => valAt vals j c) := List.mem_map.2 ⟨i, hi, rfl⟩
  have hmax := listMax_ge _ hmem
  have hmin := listMin_le _ hmem
  unfold filterCase tolAt
  cases rule
  · -- exact
    simp only [tolOf, add_zero]
    by_cases hw : w.getD c 0 > 0
    · simp only [hw, decide_true, ↓reduceIte, List.mem_filter, hi, true_and, decide_eq_true_eq]
      constructor
      · intro h; rw [h]
      · intro h; exact le_antisymm hmax h
    · simp only [hw, decide_false, ↓reduceIte, List.mem_filter, hi, true_and, decide_eq_true_eq,
        Bool.false_eq_true]
      constructor
      · intro h; rw [h]
      · intro h; exact le_antisymm h hmin
  · rename_i e
    by_cases hw : w.getD c 0 > 0
    · simp only [hw, decide_true, ↓reduceIte, List.mem_filter, hi, true_and, decide_eq_true_eq, ge_iff_le,
        sub_le_iff_le_add]
    · simp only [hw, decide_false, ↓reduceIte, List.mem_filter, hi, true_and, decide_eq_true_eq,
        Bool.false_eq_true]
  · by_cases hw : w.getD c 0 > 0
    · simp only [hw, decide_true, ↓reduceIte, List.mem_filter, hi, true_and, decide_eq_true_eq, ge_iff_le,
        sub_le_iff_le_add]
    · simp only [hw, decide_false, ↓reduceIte, List.mem_filter, hi, true_and, decide_eq_true_eq,
        Bool.false_eq_true]

/-- Whoever is at least as good as a survivor on this case survives too. -/
theorem filterCase_keep {rule : Rule} {w : List Rat} {vals : List (List Rat)} {c : Nat} {cands : List Nat}
    {x y : Nat} (hy : y ∈ filterCase rule w vals c cands) (hx : x ∈ cands) (hg : geqOn w vals c x y) :
    x ∈ filterCase rule w vals c cands := by
  have hyc := filterCase_sub _ _ _ _ _ y hy
  rw [mem_filterCase _ _ _ _ _ _ hyc] at hy
  rw [mem_filterCase _ _ _ _ _ _ hx]
  unfold geqOn at hg
  by_cases hw : w.getD c 0 > 0
  · simp only [hw, ↓reduceIte] at *; linarith
  · simp only [hw, ↓reduceIte] at *; linarith

/-- No candidate beats a survivor by more than the tolerance used. -/
theorem filterCase_bound {rule : Rule} {w : List Rat} {vals : List (List Rat)} {c : Nat} {cands : List Nat}
    {x y : Nat} (hy : y ∈ filterCase rule w vals c cands) (hx : x ∈ cands) :
    ¬ betterBy w vals c x y (tolAt rule vals c cands) := by
  have hyc := filterCase_sub _ _ _ _ _ y hy
  rw [mem_filterCase _ _ _ _ _ _ hyc] at hy
  have hmem : valAt vals x c ∈ cands.map (fun j => valAt vals j c) := List.mem_map.2 ⟨x, hx, rfl⟩
  have hmax := listMax_ge _ hmem
  have hmin := listMin_le _ hmem
  unfold betterBy
  by_cases hw : w.getD c 0 > 0
  · simp only [hw, ↓reduceIte] at *; linarith
  · simp only [hw, ↓reduceIte] at *; linarith

/-! ### The loop -/

theorem lexLoop_sub (rule : Rule) (w : List Rat) (vals : List (List Rat)) (cs cands : List Nat) :
    ∀ i ∈ lexLoop rule w vals cs cands, i ∈ cands := by
  induction cs generalizing cands with
  | nil => simp [lexLoop]
  | cons c cs ih =>
    intro i hi
    simp only [lexLoop] at hi
    split at hi
    · exact filterCase_sub _ _ _ _ _ i (ih _ i hi)
    · exact hi

theorem lexLoop_keep {rule : Rule} {w : List Rat} {vals : List (List Rat)} {cs cands : List Nat} {x y : Nat}
    (hy : y ∈ lexLoop rule w vals cs cands) (hx : x ∈ cands) (hg : ∀ c ∈ cs, geqOn w vals c x y) :
    x ∈ lexLoop rule w vals cs cands := by
  induction cs generalizing cands with
  | nil => simpa [lexLoop] using hx
  | cons c cs ih =>
    simp only [lexLoop] at hy ⊢
    split
    · next hl =>
      simp only [hl, ↓reduceIte] at hy
      have hyf := lexLoop_sub _ _ _ _ _ y hy
      exact ih hy (filterCase_keep hyf hx (hg c (by simp))) (fun c' hc' => hg c' (by simp [hc']))
    · exact hx

theorem two_le_length {l : List Nat} {x y : Nat} (hx : x ∈ l) (hy : y ∈ l) (hne : x ≠ y) : l.length > 1 := by
  match l, hx, hy with
  | [], hx, _ => simp at hx
  | [a], hx, hy => simp at hx hy; exact absurd (hx.trans hy.symm) hne
  | _ :: _ :: _, _, _ => simp

/-- Along the whole loop a rival `x` that is nowhere worse than the eventual survivor `y` stays a
candidate next to `y`, and at no processed case beats `y` by more than the tolerance used there;
if `x ≠ y` the loop cannot stop early, so every case is processed. -/
theorem lexTrace_spec {rule : Rule} {w : List Rat} {vals : List (List Rat)} {cs cands : List Nat} {x y : Nat}
    (hy : y ∈ lexLoop rule w vals cs cands) (hx : x ∈ cands) (hg : ∀ c ∈ cs, geqOn w vals c x y) :
    (∀ p ∈ lexTrace rule w vals cs cands, x ∈ p.2 ∧ y ∈ p.2 ∧
        ¬ betterBy w vals p.1 x y (tolAt rule vals p.1 p.2)) ∧
    (x ≠ y → (lexTrace rule w vals cs cands).map Prod.fst = cs) := by
  induction cs generalizing cands with
  | nil => simp [lexTrace]
  | cons c cs ih =>
    have hyc : y ∈ cands := lexLoop_sub _ _ _ _ _ y hy
    simp only [lexLoop] at hy
    simp only [lexTrace]
    by_cases hl : cands.length > 1
    · simp only [hl, ↓reduceIte] at hy ⊢
      have hyf := lexLoop_sub _ _ _ _ _ y hy
      have hxf := filterCase_keep hyf hx (hg c (by simp))
      obtain ⟨ih1, ih2⟩ := ih hy hxf (fun c' hc' => hg c' (by simp [hc']))
      refine ⟨?_, ?_⟩
      · intro p hp
        rcases List.mem_cons.1 hp with rfl | hp
        · exact ⟨hx, hyc, filterCase_bound hyf hx⟩
        · exact ih1 p hp
      · intro hne
        simp [ih2 hne]
    · simp only [hl, ↓reduceIte]
      refine ⟨by simp, ?_⟩
      intro hne
      exact absurd (two_le_length hx hyc hne) hl

/-! ### The candidate list never becomes empty (tolerance ≥ 0) -/

theorem median_nonneg {l : List Rat} (h : ∀ x ∈ l, 0 ≤ x) : 0 ≤ median l := by
  unfold median
  simp only
  have hs : ∀ x ∈ l.mergeSort (fun a b => decide (a ≤ b)), 0 ≤ x :=
    fun x hx => h x ((List.mergeSort_perm _ _).mem_iff.1 hx)
  have hget : ∀ i, 0 ≤ (l.mergeSort (fun a b => decide (a ≤ b))).getD i 0 := by
    intro i
    rw [List.getD_eq_getElem?_getD]
    cases hi : (l.mergeSort (fun a b => decide (a ≤ b)))[i]? with
    | none => simp
    | some v => exact hs v (List.mem_of_getElem? hi)
  split
  · exact le_refl _
  · split
    · exact hget _
    · have := hget ((l.mergeSort (fun a b => decide (a ≤ b))).length / 2 - 1)
      have := hget ((l.mergeSort (fun a b => decide (a ≤ b))).length / 2)
      positivity

theorem absRat_nonneg (x : Rat) : 0 ≤ absRat x := by
  unfold absRat; split <;> linarith

/-- `rule` uses a non-negative tolerance (`ε ≥ 0` for the ε variant; 0 and the MAD always are). -/
def RuleOK : Rule → Prop
  | .eps e => 0 ≤ e
  | _ => True

theorem tolOf_nonneg {rule : Rule} (h : RuleOK rule) (errs : List Rat) : 0 ≤ tolOf rule errs := by
  cases rule with
  | exact => exact le_refl _
  | eps e => exact h
  | auto =>
    simp only [tolOf]
    apply median_nonneg
    intro x hx
    obtain ⟨y, _, rfl⟩ := List.mem_map.1 hx
    exact absRat_nonneg _

theorem filterCase_ne_nil {rule : Rule} (hr : RuleOK rule) (w : List Rat) (vals : List (List Rat)) (c : Nat)
    {cands : List Nat} (hne : cands ≠ []) : filterCase rule w vals c cands ≠ [] := by
  have hne' : cands.map (fun j => valAt vals j c) ≠ [] := by simpa using hne
  have htol : 0 ≤ tolAt rule vals c cands := tolOf_nonneg hr _
  by_cases hw : w.getD c 0 > 0
  · obtain ⟨i, hi, hv⟩ := List.mem_map.1 (listMax_mem hne')
    intro h0
    have : i ∈ filterCase rule w vals c cands := by
      rw [mem_filterCase _ _ _ _ _ _ hi]; simp only [hw, ↓reduceIte]; rw [hv]; linarith
    rw [h0] at this; simp at this
  · obtain ⟨i, hi, hv⟩ := List.mem_map.1 (listMin_mem hne')
    intro h0
    have : i ∈ filterCase rule w vals c cands := by
      rw [mem_filterCase _ _ _ _ _ _ hi]; simp only [hw, ↓reduceIte]; rw [hv]; linarith
    rw [h0] at this; simp at this

theorem lexLoop_ne_nil {rule : Rule} (hr : RuleOK rule) (w : List Rat) (vals : List (List Rat))
    (cs : List Nat) {cands : List Nat} (hne : cands ≠ []) : lexLoop rule w vals cs cands ≠ [] := by
  induction cs generalizing cands with
  | nil => simpa [lexLoop] using hne
  | cons c cs ih =>
    simp only [lexLoop]
    split
    · exact ih (filterCase_ne_nil hr w vals c hne)
    · exact hne

/-! ### One selection -/

/-- `len(individuals[0].fitness.values)` -/
def nCases (w : List Rat) (pop : Pop) : Nat := ((pop.map (values w)).headD []).length

theorem popShuffle_some {n : Nat} {t t' : Tape} {p : List Nat} :
    popShuffle n t = some (p, t') ↔ t = Draw.shuffle p :: t' ∧ p.Perm (List.range n) := by
  cases t with
  | nil => simp [popShuffle]
  | cons d t =>
    cases d <;> simp [popShuffle]
    rename_i q
    rw [List.isPerm_iff]
    constructor
    · rintro ⟨h, rfl, rfl⟩; exact ⟨⟨rfl, rfl⟩, h⟩
    · rintro ⟨⟨rfl, rfl⟩, h⟩; exact ⟨h, rfl, rfl⟩

theorem lexStep_spec {rule : Rule} {w : List Rat} {pop : Pop} {t t' : Tape} {win : Nat}
    (h : lexStep rule w pop t = some (win, t')) :
    ∃ cases j, t = Draw.shuffle cases :: Draw.choice j :: t' ∧ cases.Perm (List.range (nCases w pop)) ∧
      win ∈ lexLoop rule w (pop.map (values w)) cases (List.range pop.length) := by
  unfold lexStep at h
  simp only at h
  unfold nCases
  cases hv : pop.map (values w) with
  | nil => simp [hv] at h
  | cons v0 rest =>
    simp only [hv] at h
    split at h
    · cases hs : popShuffle v0.length t with
      | none => simp [hs] at h
      | some p =>
        obtain ⟨cases, t1⟩ := p
        simp only [hs] at h
        obtain ⟨rfl, hperm⟩ := popShuffle_some.1 hs
        cases hc : popChoice (lexLoop rule w (v0 :: rest) cases (List.range pop.length)).length t1 with
        | none => simp [hc] at h
        | some q =>
          obtain ⟨j, t2⟩ := q
          simp only [hc, Option.some.injEq, Prod.mk.injEq] at h
          obtain ⟨rfl, rfl⟩ := h
          obtain ⟨rfl, hj⟩ := popChoice_some.1 hc
          refine ⟨cases, j, rfl, by simpa using hperm, ?_⟩
          rw [List.getD_eq_getElem?_getD, List.getElem?_eq_getElem hj]
          exact List.getElem_mem hj
    · simp at h

end C06L
