/-
C18 helper lemmas, part H: the TEXT of a logbook (`Core/LogbookText.lean`).  On a logbook whose chapters
are aligned at every depth `__txt__` never raises and returns a header block followed by exactly one line per
row from `startindex` on; that line is `rowLine` — the cells of the row in column order (a chapter column
holds the chapter's line of the same record), left-justified to the `columns_len` after the call.
-/
import DeapModel.Lemmas.C18Aux
import DeapModel.Core.LogbookText

set_option linter.unusedSimpArgs false
set_option linter.unusedVariables false
set_option linter.unusedSectionVars false

namespace C18L
open Logbook

/-! ### the line of a record -/

mutual
/-- the line of record number `i` of the logbook when its row is `r`: one cell per column, in column order —
for a chapter column the line of record `i` in that chapter, else the formatted field (`""` for a missing
one) — left-justified to the widths `W.len` and joined by tabs -/
def rowLineOf (fmt : Fmt) (i : Nat) (r : Row) : LB → CL → String
  | .mk rows chs _ h _ _, W =>
      formatLine (W.len.getD []) ((columnsOf fmt h rows (chs.map (·.1))).map fun name =>
        (chapterLine fmt i name chs W.chapters).getD (cellVal fmt r name))
/-- the line of record `i` in the chapter called `name` (the chapters and their `columns_len` trees in step) -/
def chapterLine (fmt : Fmt) (i : Nat) (name : Name) : List (Name × LB) → List (Name × CL) → Option String
  | [], _ => none
  | (k, ch) :: rest, cs =>
      if name = k then some (rowLineOf fmt i (ch.rows.getD i []) ch ((cs.head?.map (·.2)).getD CL.empty))
      else chapterLine fmt i name rest cs.tail
end

/-- the line of record `i` of the logbook -/
def rowLine (fmt : Fmt) (i : Nat) (lb : LB) (W : CL) : String := rowLineOf fmt i (lb.rows.getD i []) lb W

/-- the lines of the records `si, si+1, …` of the logbook -/
def dataLines (fmt : Fmt) (si : Nat) (lb : LB) (W : CL) : List String :=
  (List.range' si (lb.rows.length - si)).map fun i => rowLine fmt i lb W

theorem dataLines_length (fmt : Fmt) (si : Nat) (lb : LB) (W : CL) :
    (dataLines fmt si lb W).length = lb.rows.length - si := by simp [dataLines]

@[simp] theorem CL.len_mk (l : Option (List Nat)) (c : List (Name × CL)) : (CL.mk l c).len = l := rfl
@[simp] theorem CL.chapters_mk (l : Option (List Nat)) (c : List (Name × CL)) : (CL.mk l c).chapters = c := rfl

/-! ### lists -/

theorem pyIndex_append {α : Type} (H D : List α) (i : Nat) :
    pyIndex (H ++ D) ((i : Int) + (H.length : Int)) = D[i]? := by
  unfold pyIndex
  have h0 : (0 : Int) ≤ (i : Int) + (H.length : Int) := by omega
  rw [if_pos h0]
  have : ((i : Int) + (H.length : Int)).toNat = H.length + i := by omega
  rw [this, List.getElem?_append_right (by omega)]
  congr 1; omega

theorem le_maxNat_aux (l : List Nat) : ∀ (a : Nat), a ≤ l.foldl max a ∧ ∀ x ∈ l, x ≤ l.foldl max a := by
  induction l with
  | nil => intro a; simp
  | cons y ys ih =>
    intro a
    obtain ⟨h1, h2⟩ := ih (max a y)
    refine ⟨by simp only [List.foldl_cons]; omega, ?_⟩
    intro x hx
    simp only [List.foldl_cons]
    rcases List.mem_cons.1 hx with rfl | hx
    · omega
    · exact h2 x hx

theorem le_maxNat (l : List Nat) (x : Nat) (hx : x ∈ l) : x ≤ maxNat l := (le_maxNat_aux l 0).2 x hx

theorem allSome_of_forall {α : Type} (l : List (Option α)) (h : ∀ o ∈ l, o.isSome) :
    ∃ ys, allSome l = some ys ∧ ys.length = l.length := by
  induction l with
  | nil => exact ⟨[], rfl, rfl⟩
  | cons o os ih =>
    obtain ⟨ys, h1, h2⟩ := ih (fun o' ho' => h o' (List.mem_cons_of_mem _ ho'))
    cases o with
    | none => exact absurd (h none (by simp)) (by simp)
    | some x => exact ⟨x :: ys, by simp [allSome, h1], by simp [h2]⟩

/-! ### the loops of `__txt__` when no cell raises -/

theorem cellLoop_ok (f : Name → Option String) (g : Name → String) :
    ∀ (cols : List Name) (w : List Nat), w.length = cols.length → (∀ c ∈ cols, f c = some (g c)) →
      (cellLoop f cols w).1 = some (cols.map g) ∧ (cellLoop f cols w).2.length = cols.length := by
  intro cols
  induction cols with
  | nil => intro w hw _; cases w <;> simp_all [cellLoop]
  | cons c cs ih =>
    intro w hw hf
    cases w with
    | nil => simp at hw
    | cons k ks =>
      have hk : ks.length = cs.length := by simpa using hw
      obtain ⟨h1, h2⟩ := ih ks hk (fun c' hc' => hf c' (List.mem_cons_of_mem _ hc'))
      have hc := hf c (by simp)
      simp [cellLoop, hc, h1, h2]

theorem rowLoop_ok (f : Row → Nat → Name → Option String) (g : Row → Nat → Name → String) (cols : List Name) :
    ∀ (rs : List Row) (i0 : Nat) (w : List Nat), w.length = cols.length →
      (∀ p ∈ rs.zipIdx i0, ∀ c ∈ cols, f p.1 p.2 c = some (g p.1 p.2 c)) →
      (rowLoop f cols rs i0 w).1 = some ((rs.zipIdx i0).map fun p => cols.map (g p.1 p.2)) ∧
      (rowLoop f cols rs i0 w).2.length = cols.length := by
  intro rs
  induction rs with
  | nil => intro i0 w hw _; simp [rowLoop, hw]
  | cons r rs ih =>
    intro i0 w hw hf
    obtain ⟨h1, h2⟩ := cellLoop_ok (f r i0) (g r i0) cols w hw (fun c hc => hf (r, i0) (by simp [List.zipIdx_cons]) c hc)
    obtain ⟨h3, h4⟩ := ih (i0 + 1) (cellLoop (f r i0) cols w).2 h2
      (fun p hp c hc => hf p (by simp only [List.zipIdx_cons]; exact List.mem_cons_of_mem _ hp) c hc)
    have hsplit : cellLoop (f r i0) cols w = (some (cols.map (g r i0)), (cellLoop (f r i0) cols w).2) := by
      rw [← h1]
    simp only [rowLoop]
    rw [hsplit]
    simp only [h3, h4, Option.map_some, List.zipIdx_cons, List.map_cons, and_self]

/-! ### `__txt__` from the row loop on -/

/-- what `__txt__` needs from the texts of the chapters: the text of a chapter is some header lines (none when
`startindex > 0`) followed by the chapter's lines `L i` of the records `si ≤ i < n` -/
def ChOk (si n : Nat) (chTxt : List (Name × List String)) (L : Nat → Name → Option String) : Prop :=
  ∀ name, match chTxt.lookup name with
    | none => ∀ i, L i name = none
    | some t => ∃ H, t = H ++ (List.range' si (n - si)).map (fun i => (L i name).getD "") ∧
        (si ≠ 0 → H = []) ∧ ∀ i, (L i name).isSome = true

theorem initWidths_length (fmt : Fmt) (cols : List Name) (old : Option (List Nat)) :
    (initWidths fmt cols old).length = cols.length := by
  unfold initWidths
  split
  · split
    · assumption
    · simp
  · simp

theorem cellAt_ok (fmt : Fmt) (si n : Nat) (chTxt : List (Name × List String)) (L : Nat → Name → Option String)
    (hok : ChOk si n chTxt L) (row : Row) (i : Nat) (hi : i < n - si) (name : Name) :
    cellAt fmt si n chTxt row i name = some ((L (si + i) name).getD (cellVal fmt row name)) := by
  have h := hok name
  unfold cellAt
  cases hl : chTxt.lookup name with
  | none =>
    rw [hl] at h
    simp [h (si + i)]
  | some t =>
    rw [hl] at h
    obtain ⟨H, ht, hH, hs⟩ := h
    have hoff : offsetOf si n t = (H.length : Int) := by
      unfold offsetOf
      by_cases h0 : si = 0
      · subst h0
        rw [if_pos rfl, ht]
        simp
      · rw [if_neg h0, hH h0]; rfl
    simp only [hoff]
    rw [ht, pyIndex_append]
    rw [List.getElem?_map, List.getElem?_range' hi]
    have := hs (si + i)
    cases hL : L (si + i) name with
    | none => rw [hL] at this; simp at this
    | some x => simp [hL]

theorem headerLines_pos (si n : Nat) (h0 : si = 0) (chTxt : List (Name × List String)) (L : Nat → Name → Option String)
    (hok : ChOk si n chTxt L) : 0 < headerLines n chTxt := by
  unfold headerLines
  cases chTxt with
  | nil => simp
  | cons q rest =>
    obtain ⟨k, t⟩ := q
    have h := hok k
    simp only [List.lookup_cons, beq_self_eq_true] at h
    obtain ⟨H, ht, _, _⟩ := h
    have hlen : n ≤ t.length := by rw [ht]; simp [h0]
    have hm : t.length ≤ maxNat (((k, t) :: rest).map (·.2.length)) := le_maxNat _ _ (by simp)
    simp only [List.isEmpty_cons]
    omega

theorem finishTxt_ok (fmt : Fmt) (si : Nat) (hdr : Bool) (rows : List Row) (lh : Bool) (cols : List Name)
    (w0 : List Nat) (chTxt : List (Name × List String)) (L : Nat → Name → Option String)
    (hn : rows.length ≠ 0) (hw : w0.length = cols.length) (hok : ChOk si rows.length chTxt L) :
    ∃ Hd, (finishTxt fmt si hdr rows lh cols w0 chTxt).1 =
        some (Hd ++ (List.range' si (rows.length - si)).map (fun i =>
          formatLine (finishTxt fmt si hdr rows lh cols w0 chTxt).2
            (cols.map fun name => (L i name).getD (cellVal fmt (rows.getD i []) name)))) ∧
      (Hd ≠ [] ↔ (hdr && si == 0 && lh) = true) := by
  have hdl : (rows.drop si).length = rows.length - si := List.length_drop
  obtain ⟨h3, h4⟩ := rowLoop_ok (cellAt fmt si rows.length chTxt)
    (fun r i name => (L (si + i) name).getD (cellVal fmt r name)) cols (rows.drop si) 0 w0 hw (by
      intro p hp c _
      obtain ⟨r, i⟩ := p
      obtain ⟨_, h2, _⟩ := List.mem_zipIdx hp
      exact cellAt_ok fmt si rows.length chTxt L hok r i (by omega) c)
  have hsplit : rowLoop (cellAt fmt si rows.length chTxt) cols (rows.drop si) 0 w0 =
      (some (((rows.drop si).zipIdx 0).map fun p => cols.map fun name => (L (si + p.2) name).getD (cellVal fmt p.1 name)),
       (rowLoop (cellAt fmt si rows.length chTxt) cols (rows.drop si) 0 w0).2) := by
    rw [← h3]
  -- the data lines
  have hdata : ∀ (w : List Nat),
      ((((rows.drop si).zipIdx 0).map fun p => cols.map fun name => (L (si + p.2) name).getD (cellVal fmt p.1 name)).map (formatLine w)) =
      (List.range' si (rows.length - si)).map (fun i =>
          formatLine w (cols.map fun name => (L i name).getD (cellVal fmt (rows.getD i []) name))) := by
    intro w
    apply List.ext_getElem
    · simp [hdl]
    · intro k hk1 hk2
      have hk : k < rows.length - si := by simpa using hk2
      have hks : si + k < rows.length := by omega
      simp only [List.getElem_map, List.getElem_zipIdx, List.getElem_range', List.getElem_drop, Nat.zero_add,
        Nat.one_mul, List.getD_eq_getElem?_getD, List.getElem?_eq_getElem hks, Option.getD_some]
  by_cases hflag : (hdr && si == 0 && lh) = true
  · -- with the header block
    have h0 : si = 0 := by
      simp only [Bool.and_eq_true, beq_iff_eq] at hflag; exact hflag.1.2
    have hpos := headerLines_pos si rows.length h0 chTxt L hok
    obtain ⟨hcols, hh1, _⟩ := allSome_of_forall
      (cols.zipIdx.map fun p => headerCol fmt rows.length (headerLines rows.length chTxt) chTxt
        (((rows.drop si).zipIdx 0).map fun p => cols.map fun name => (L (si + p.2) name).getD (cellVal fmt p.1 name)) p.2 p.1) (by
        intro o ho
        obtain ⟨p, _, rfl⟩ := List.mem_map.1 ho
        unfold headerCol
        have h := hok p.1
        cases hl : chTxt.lookup p.1 with
        | none => simp only []; rw [if_neg (by omega)]; rfl
        | some t =>
          rw [hl] at h
          obtain ⟨H, ht, _, _⟩ := h
          have hlen : t.length = H.length + rows.length := by rw [ht]; simp [h0]
          have hne : t.isEmpty = false := by
            cases t with
            | nil => simp at hlen; omega
            | cons _ _ => rfl
          simp only []
          rw [if_neg (by rw [hne]; simp; omega)]; rfl)
    refine ⟨(headerBlock (headerLines rows.length chTxt).toNat hcols).map
      (formatLine (finishTxt fmt si hdr rows lh cols w0 chTxt).2), ?_, ?_⟩
    · unfold finishTxt
      rw [hsplit]
      simp only [hflag, if_true, hh1, List.map_append, hdata]
    · simp only [hflag, iff_true]
      intro he
      have := congrArg List.length he
      simp [headerBlock] at this
      omega
  · refine ⟨[], ?_, by simp [hflag]⟩
    unfold finishTxt
    rw [hsplit]
    simp only [hflag, if_false, List.nil_append, hdata]
    simp

theorem allSome_map_some {α β : Type} (l : List α) (f : α → β) : allSome (l.map fun x => some (f x)) = some (l.map f) := by
  induction l with
  | nil => rfl
  | cons x xs ih => simp [allSome, ih]

/-- a logbook without chapters: the header block is the single line of the column names -/
theorem finishTxt_plain (fmt : Fmt) (si : Nat) (hdr : Bool) (rows : List Row) (lh : Bool) (cols : List Name)
    (w0 : List Nat) (hn : rows.length ≠ 0) (hw : w0.length = cols.length) :
    (finishTxt fmt si hdr rows lh cols w0 []).1 =
      some ((if (hdr && si == 0 && lh) = true then [formatLine (finishTxt fmt si hdr rows lh cols w0 []).2 (cols.map fmt.name)]
          else []) ++
        (List.range' si (rows.length - si)).map (fun i =>
          formatLine (finishTxt fmt si hdr rows lh cols w0 []).2 (cols.map fun name => cellVal fmt (rows.getD i []) name))) := by
  have hok : ChOk si rows.length [] (fun _ _ => none) := by intro name; simp
  obtain ⟨h3, h4⟩ := rowLoop_ok (cellAt fmt si rows.length [])
    (fun r i name => cellVal fmt r name) cols (rows.drop si) 0 w0 hw (by
      intro p hp c _
      simp [cellAt])
  have hsplit : rowLoop (cellAt fmt si rows.length []) cols (rows.drop si) 0 w0 =
      (some (((rows.drop si).zipIdx 0).map fun p => cols.map fun name => cellVal fmt p.1 name),
       (rowLoop (cellAt fmt si rows.length []) cols (rows.drop si) 0 w0).2) := by
    rw [← h3]
  have hdl : (rows.drop si).length = rows.length - si := List.length_drop
  have hdata : ∀ (w : List Nat),
      ((((rows.drop si).zipIdx 0).map fun p => cols.map fun name => cellVal fmt p.1 name).map (formatLine w)) =
      (List.range' si (rows.length - si)).map (fun i =>
          formatLine w (cols.map fun name => cellVal fmt (rows.getD i []) name)) := by
    intro w
    apply List.ext_getElem
    · simp [hdl]
    · intro k hk1 hk2
      have hk : k < rows.length - si := by simpa using hk2
      have hks : si + k < rows.length := by omega
      simp only [List.getElem_map, List.getElem_zipIdx, List.getElem_range', List.getElem_drop, Nat.zero_add,
        Nat.one_mul, List.getD_eq_getElem?_getD, List.getElem?_eq_getElem hks, Option.getD_some]
  have hcols : ∀ M, (cols.zipIdx.map fun p => headerCol fmt rows.length (headerLines rows.length []) [] M p.2 p.1) =
      (cols.zipIdx.map fun p => some [fmt.name p.1]) := by
    intro M
    apply List.map_congr_left
    intro p _
    simp [headerCol, headerLines]
  by_cases hflag : (hdr && si == 0 && lh) = true
  · unfold finishTxt
    rw [hsplit]
    simp only [hflag, if_true, hcols, allSome_map_some, List.map_append, hdata]
    simp only [headerBlock, headerLines, List.map_map, Function.comp_def, List.isEmpty_nil, if_true]
    have hz : (List.map (fun x => fmt.name x.1) cols.zipIdx) = cols.map fmt.name := by
      have := congrArg (List.map fmt.name) (List.zipIdx_map_fst 0 cols)
      rw [List.map_map] at this
      exact this
    simp [hz]
  · unfold finishTxt
    rw [hsplit]
    simp only [hflag, if_false, List.nil_append, hdata]
    simp

/-- … for the logbook itself: without chapters `__txt__` never raises, and its text is the line of the column
names (iff the header flag holds) followed by the lines of the rows, every cell the formatted field -/
theorem txtT_plain (fmt : Fmt) (si : Nat) (hdr : Bool) (rows : List Row) (b : Nat) (h : Option (List Name))
    (lh hs : Bool) (cl : CL) (hn : rows.length ≠ 0) :
    (txtT fmt si hdr (.mk rows [] b h lh hs) cl).1 =
      some ((if (hdr && si == 0 && lh) = true
            then [formatLine ((txtT fmt si hdr (.mk rows [] b h lh hs) cl).2.len.getD []) ((columnsOf fmt h rows []).map fmt.name)]
            else []) ++
        (List.range' si (rows.length - si)).map (fun i =>
          formatLine ((txtT fmt si hdr (.mk rows [] b h lh hs) cl).2.len.getD [])
            ((columnsOf fmt h rows []).map fun name => cellVal fmt (rows.getD i []) name))) := by
  have hf := finishTxt_plain fmt si hdr rows lh (columnsOf fmt h rows []) (initWidths fmt (columnsOf fmt h rows []) cl.len)
    hn (initWidths_length _ _ _)
  simp only [txtT, hn, if_false, chaptersT, List.map_nil, CL.len_mk, Option.getD_some]
  exact hf

/-! ### `__txt__` on an aligned logbook -/

mutual
/-- On a logbook aligned at every depth `__txt__(si, hdr)` does not raise; its text is a header block `Hd`
followed by the lines of the records `si, si+1, …` (formatted with the `columns_len` the call leaves behind);
the header block is there iff `hdr and si == 0 and log_header` on a non-empty logbook (the flag of
`Logbook.txt`). -/
theorem txtT_ok (fmt : Fmt) (si : Nat) (hdr : Bool) : ∀ (lb : LB) (cl : CL), DeepAligned lb →
    ∃ Hd, (txtT fmt si hdr lb cl).1 = some (Hd ++ dataLines fmt si lb (txtT fmt si hdr lb cl).2) ∧
      (Hd ≠ [] ↔ (txt si hdr lb).header = true)
  | .mk rows chs b h lh hs, cl, hd => by
    have hd' : b ≤ rows.length ∧ AllAligned rows.length chs := by simpa [DeepAligned] using hd
    by_cases hz : rows.length = 0
    · refine ⟨[], ?_, ?_⟩
      · simp [txtT, hz, dataLines]
      · simp [txt, hz]
    · obtain ⟨chTxt, hc1, hc2⟩ := chaptersT_ok fmt si hdr rows.length chs cl.chapters hd'.2
      have hsplit : chaptersT fmt si hdr chs cl.chapters = (some chTxt, (chaptersT fmt si hdr chs cl.chapters).2) := by
        rw [← hc1]
      obtain ⟨Hd, hf1, hf2⟩ := finishTxt_ok fmt si hdr rows lh (columnsOf fmt h rows (chs.map (·.1)))
        (initWidths fmt (columnsOf fmt h rows (chs.map (·.1))) cl.len) chTxt _ hz (initWidths_length _ _ _) hc2
      refine ⟨Hd, ?_, ?_⟩
      · simp only [txtT, hz, if_false]
        rw [hsplit]
        simp only [hf1, dataLines, rowLine, rowLineOf, CL.len_mk, CL.chapters_mk, Option.getD_some, rows_mk]
      · rw [hf2]
        simp [txt, hz, LB.rows, LB.logHeader]
/-- the texts of the chapters of an aligned logbook -/
theorem chaptersT_ok (fmt : Fmt) (si : Nat) (hdr : Bool) (n : Nat) :
    ∀ (chs : List (Name × LB)) (cs : List (Name × CL)), AllAligned n chs →
    ∃ chTxt, (chaptersT fmt si hdr chs cs).1 = some chTxt ∧
      ChOk si n chTxt (fun i name => chapterLine fmt i name chs (chaptersT fmt si hdr chs cs).2)
  | [], cs, _ => ⟨[], rfl, by intro name; simp [chapterLine]⟩
  | (k, ch) :: rest, cs, ha => by
    have ha' : ch.rows.length = n ∧ DeepAligned ch ∧ AllAligned n rest := by simpa [AllAligned] using ha
    obtain ⟨Hk, hk1, hk2⟩ := txtT_ok fmt si hdr ch (clChild k cs) ha'.2.1
    obtain ⟨restTxt, hr1, hr2⟩ := chaptersT_ok fmt si hdr n rest cs ha'.2.2
    have hsplit : txtT fmt si hdr ch (clChild k cs) =
        (some (Hk ++ dataLines fmt si ch (txtT fmt si hdr ch (clChild k cs)).2), (txtT fmt si hdr ch (clChild k cs)).2) := by
      rw [← hk1]
    have hrs : chaptersT fmt si hdr rest cs = (some restTxt, (chaptersT fmt si hdr rest cs).2) := by
      rw [← hr1]
    refine ⟨(k, Hk ++ dataLines fmt si ch (txtT fmt si hdr ch (clChild k cs)).2) :: restTxt, ?_, ?_⟩
    · simp only [chaptersT]
      rw [hsplit]
      simp only [hr1, Option.map_some]
    · have hcs : (chaptersT fmt si hdr ((k, ch) :: rest) cs).2 =
          (k, (txtT fmt si hdr ch (clChild k cs)).2) :: (chaptersT fmt si hdr rest cs).2 := by
        simp only [chaptersT]
        rw [hsplit]
      intro name
      rw [hcs]
      by_cases hnk : name = k
      · subst hnk
        simp only [List.lookup_cons, beq_self_eq_true]
        refine ⟨Hk, ?_, ?_, ?_⟩
        · simp [chapterLine, dataLines, rowLine, ha'.1]
        · intro h0
          by_contra hne
          have := hk2.1 hne
          simp only [txt] at this
          split at this
          · simp at this
          · simp only [Bool.and_eq_true, beq_iff_eq] at this
            exact h0 this.1.2
        · intro i; simp [chapterLine]
      · have hb : (name == k) = false := by simpa using hnk
        have := hr2 name
        simp only [List.lookup_cons, hb, chapterLine, hnk, if_false, List.tail_cons]
        exact this
end

/-! ### the operations at text level follow `Logbook.step` -/

theorem stepT_lb (fmt : Fmt) (s : LB × CL) (o : Op) : (stepT fmt s o).1.1 = (step s.1 o).1 := by
  cases o <;> simp only [stepT]
  split <;> rfl

theorem stepT_obs (fmt : Fmt) (s : LB × CL) (o : Op) : (stepT fmt s o).2.1 = (step s.1 o).2 := by
  cases o <;> simp only [stepT]
  split <;> rfl

theorem runFromT_lb (fmt : Fmt) (ops : List Op) : ∀ (s : LB × CL), (runFromT fmt s ops).1 = runFrom s.1 ops := by
  induction ops with
  | nil => intro s; rfl
  | cons o os ih =>
    intro s
    have h1 : runFromT fmt s (o :: os) = runFromT fmt (stepT fmt s o).1 os := rfl
    have h2 : runFrom s.1 (o :: os) = runFrom (step s.1 o).1 os := rfl
    rw [h1, h2, ih, stepT_lb]

theorem runT_lb (fmt : Fmt) (ops : List Op) : (runT fmt ops).1 = run ops := runFromT_lb fmt ops _

/-! ### one reading of the stream, taken apart -/

/-- what one reading of the stream returns, taken apart: the header block, and every delivered row next to
its line -/
def block (fmt : Fmt) (s : LB × CL) : List String × List (Row × String) :=
  let r := txtT fmt s.1.buffindex (!s.1.headerStreamed) s.1 s.2
  let D := dataLines fmt s.1.buffindex s.1 r.2
  let t := r.1.getD []
  (t.take (t.length - D.length), (s.1.rows.drop s.1.buffindex).zip D)

theorem stream_rows (lb : LB) : (stream lb).1.rows = lb.rows.drop lb.buffindex := by
  rw [(stream_state lb).2.2.2.2]
  simp only [txt]
  split
  · next hz => simp [List.length_eq_zero_iff.1 hz]
  · rfl

theorem block_ok (fmt : Fmt) (s : LB × CL) (hd : DeepAligned s.1) :
    (streamT fmt s).1 = some ((block fmt s).1 ++ (block fmt s).2.map (·.2)) ∧
    (block fmt s).2.map (·.1) = (stream s.1).1.rows ∧
    ((block fmt s).1 ≠ [] ↔ (stream s.1).1.header = true) ∧
    ∀ p ∈ (block fmt s).2, ∃ i, s.1.rows[i]? = some p.1 ∧ p.2 = rowLineOf fmt i p.1 s.1 (streamT fmt s).2.2 := by
  obtain ⟨Hd, h1, h2⟩ := txtT_ok fmt s.1.buffindex (!s.1.headerStreamed) s.1 s.2 hd
  have hlen : (dataLines fmt s.1.buffindex s.1 (txtT fmt s.1.buffindex (!s.1.headerStreamed) s.1 s.2).2).length =
      (s.1.rows.drop s.1.buffindex).length := by simp [dataLines_length]
  have hb1 : (block fmt s).1 = Hd := by
    simp only [block, h1, Option.getD_some, List.length_append, Nat.add_sub_cancel]
    exact List.take_left' rfl
  have hb2 : (block fmt s).2 = (s.1.rows.drop s.1.buffindex).zip
      (dataLines fmt s.1.buffindex s.1 (txtT fmt s.1.buffindex (!s.1.headerStreamed) s.1 s.2).2) := rfl
  refine ⟨?_, ?_, ?_, ?_⟩
  · rw [hb1, hb2, List.map_snd_zip (by omega)]
    exact h1
  · rw [hb2, List.map_fst_zip (by omega), stream_rows]
  · rw [hb1, h2, (stream_state s.1).2.2.2.2]
  · intro p hp
    rw [hb2] at hp
    obtain ⟨r, line⟩ := p
    obtain ⟨k, hk, he⟩ := List.mem_iff_getElem.1 hp
    have hk' : k < (s.1.rows.drop s.1.buffindex).length ∧
        k < (dataLines fmt s.1.buffindex s.1 (txtT fmt s.1.buffindex (!s.1.headerStreamed) s.1 s.2).2).length := by
      rw [List.length_zip] at hk; omega
    have hk1 := hk'.1
    have hk2 := hk'.2
    have hk3 : ((s.1.rows.drop s.1.buffindex)[k],
        (dataLines fmt s.1.buffindex s.1 (txtT fmt s.1.buffindex (!s.1.headerStreamed) s.1 s.2).2)[k]) = (r, line) := by
      rw [← he, List.getElem_zip]
    have hr : r = (s.1.rows.drop s.1.buffindex)[k] := (congrArg Prod.fst hk3).symm
    have hl : line = (dataLines fmt s.1.buffindex s.1 (txtT fmt s.1.buffindex (!s.1.headerStreamed) s.1 s.2).2)[k] :=
      (congrArg Prod.snd hk3).symm
    have hkn : s.1.buffindex + k < s.1.rows.length := by
      have := hk1; rw [List.length_drop] at this; omega
    refine ⟨s.1.buffindex + k, ?_, ?_⟩
    · rw [hr, List.getElem_drop, List.getElem?_eq_getElem hkn]
    · rw [hl, hr]
      simp only [dataLines, List.getElem_map, List.getElem_range', Nat.one_mul, rowLine, List.getElem_drop,
        List.getD_eq_getElem?_getD, List.getElem?_eq_getElem hkn, Option.getD_some]
      rfl

/-! ### histories -/

/-- the readings of the stream along a history, each taken apart -/
def blocksFrom (fmt : Fmt) : LB × CL → List Op → List (List String × List (Row × String))
  | _, [] => []
  | s, .stream :: ops => block fmt s :: blocksFrom fmt (stepT fmt s .stream).1 ops
  | s, o :: ops => blocksFrom fmt (stepT fmt s o).1 ops

theorem blocksFrom_other (fmt : Fmt) (s : LB × CL) (o : Op) (os : List Op) (h : o ≠ .stream) :
    blocksFrom fmt s (o :: os) = blocksFrom fmt (stepT fmt s o).1 os := by
  cases o <;> first | rfl | exact absurd rfl h

theorem streamTextsFrom_other (fmt : Fmt) (s : LB × CL) (o : Op) (os : List Op) (h : o ≠ .stream) :
    streamTextsFrom fmt s (o :: os) = streamTextsFrom fmt (stepT fmt s o).1 os := by
  cases o <;> first | rfl | exact absurd rfl h

/-- Along a history all of whose intermediate logbooks are aligned at every depth: every reading of the stream
returns a text, which is its header block followed by the lines of exactly the rows that `Logbook.stream`
delivers (in that order); the header block is there iff `Logbook.stream` says so; every line is the line of
its row in the logbook of that moment. -/
theorem blocks_history (fmt : Fmt) : ∀ (ops : List Op) (s : LB × CL),
    (∀ pre, pre <+: ops → DeepAligned (runFrom s.1 pre)) →
    streamTextsFrom fmt s ops = (blocksFrom fmt s ops).map (fun b => some (b.1 ++ b.2.map (·.2))) ∧
    (blocksFrom fmt s ops).map (fun b => b.2.map (·.1)) = (streamsFrom s.1 ops).map (·.rows) ∧
    (blocksFrom fmt s ops).map (fun b => decide (b.1 ≠ [])) = (streamsFrom s.1 ops).map (·.header) ∧
    ∀ b ∈ blocksFrom fmt s ops, ∀ p ∈ b.2, ∃ pre W i, pre <+: ops ∧
      (runFrom s.1 pre).rows[i]? = some p.1 ∧ p.2 = rowLineOf fmt i p.1 (runFrom s.1 pre) W := by
  intro ops
  induction ops with
  | nil => intro s _; simp [streamTextsFrom, blocksFrom, streamsFrom]
  | cons o os ih =>
    intro s hall
    have hd : DeepAligned s.1 := hall [] List.nil_prefix
    have hall' : ∀ pre, pre <+: os → DeepAligned (runFrom (stepT fmt s o).1.1 pre) := by
      intro pre hp
      rw [stepT_lb]
      exact hall (o :: pre) (List.cons_prefix_cons.2 ⟨rfl, hp⟩)
    obtain ⟨i1, i2, i3, i4⟩ := ih (stepT fmt s o).1 hall'
    have hlift : ∀ b ∈ blocksFrom fmt (stepT fmt s o).1 os, ∀ p ∈ b.2, ∃ pre W i, pre <+: (o :: os) ∧
        (runFrom s.1 pre).rows[i]? = some p.1 ∧ p.2 = rowLineOf fmt i p.1 (runFrom s.1 pre) W := by
      intro b hb p hp
      obtain ⟨pre, W, i, hpre, hr, hl⟩ := i4 b hb p hp
      rw [stepT_lb] at hr hl
      exact ⟨o :: pre, W, i, List.cons_prefix_cons.2 ⟨rfl, hpre⟩, hr, hl⟩
    by_cases hs : o = .stream
    · subst hs
      obtain ⟨b1, b2, b3, b4⟩ := block_ok fmt s hd
      have e1 : streamTextsFrom fmt s (Op.stream :: os) =
          (streamT fmt s).1 :: streamTextsFrom fmt (stepT fmt s .stream).1 os := rfl
      have e2 : blocksFrom fmt s (Op.stream :: os) = block fmt s :: blocksFrom fmt (stepT fmt s .stream).1 os := rfl
      have e3 : streamsFrom s.1 (Op.stream :: os) = (stream s.1).1 :: streamsFrom (stream s.1).2 os := rfl
      have e4 : (stepT fmt s Op.stream).1.1 = (stream s.1).2 := stepT_lb fmt s .stream
      rw [e4] at i2 i3
      refine ⟨?_, ?_, ?_, ?_⟩
      · rw [e1, e2, List.map_cons, b1, i1]
      · rw [e2, e3, List.map_cons, List.map_cons, b2, i2]
      · rw [e2, e3, List.map_cons, List.map_cons, i3]
        congr 1
        rw [Bool.eq_iff_iff]
        simpa using b3
      · intro b hb p hp
        rw [e2] at hb
        rcases List.mem_cons.1 hb with rfl | hb
        · obtain ⟨i, hr, hl⟩ := b4 p hp
          exact ⟨[], (streamT fmt s).2.2, i, List.nil_prefix, hr, hl⟩
        · exact hlift b hb p hp
    · have e4 : (stepT fmt s o).1.1 = (step s.1 o).1 := stepT_lb fmt s o
      rw [e4] at i2 i3
      rw [streamTextsFrom_other fmt s o os hs, blocksFrom_other fmt s o os hs, streamsFrom_other s.1 o os hs]
      exact ⟨i1, i2, i3, hlift⟩

/-- every intermediate logbook of a valid history is aligned at every depth -/
theorem valid_prefix_deep {C : List Name} : ∀ (ops : List Op) (lb : LB) (es : List Entry), Rep C lb es →
    Valid C es ops → ∀ pre, pre <+: ops → DeepAligned (runFrom lb pre) := by
  intro ops
  induction ops with
  | nil => intro lb es h _ pre hp; rw [List.prefix_nil.1 hp]; exact h.deep
  | cons o os ih =>
    intro lb es h hv pre hp
    cases pre with
    | nil => exact h.deep
    | cons o' pre' =>
      obtain ⟨rfl, hp'⟩ := List.cons_prefix_cons.1 hp
      exact ih (step lb o').1 (specStep es o') (step_rep h o' hv.1) hv.2 pre' hp'

/-- … and so is every intermediate logbook of a history over records with sub-dictionaries -/
theorem validDeep_prefix_deep {sh : Shape} : ∀ (ops : List Op) (lb : LB) (es : List Entry), RepDeep sh lb es →
    ValidDeep sh es ops → ∀ pre, pre <+: ops → DeepAligned (runFrom lb pre) := by
  intro ops
  induction ops with
  | nil => intro lb es h _ pre hp; rw [List.prefix_nil.1 hp]; exact shaped_deep sh lb h.shaped
  | cons o os ih =>
    intro lb es h hv pre hp
    cases pre with
    | nil => exact shaped_deep sh lb h.shaped
    | cons o' pre' =>
      obtain ⟨rfl, hp'⟩ := List.cons_prefix_cons.1 hp
      exact ih (step lb o').1 (specStep es o') (step_repDeep h o' hv.1) hv.2 pre' hp'

/-- the cell of a chapter column is the line of the same record in that chapter -/
theorem chapterLine_of_getChapter (fmt : Fmt) (i : Nat) (name : Name) :
    ∀ (chs : List (Name × LB)) (cs : List (Name × CL)) (ch : LB), getChapter name chs = some ch →
      ∃ W, chapterLine fmt i name chs cs = some (rowLine fmt i ch W) := by
  intro chs
  induction chs with
  | nil => intro cs ch h; simp [getChapter] at h
  | cons q rest ih =>
    intro cs ch h
    obtain ⟨k, c⟩ := q
    by_cases hnk : name = k
    · subst hnk
      simp only [getChapter, List.lookup_cons, beq_self_eq_true, Option.some.injEq] at h
      subst h
      exact ⟨(cs.head?.map (·.2)).getD CL.empty, by simp [chapterLine, rowLine]⟩
    · have hb : (name == k) = false := by simpa using hnk
      simp only [getChapter, List.lookup_cons, hb] at h
      obtain ⟨W, hW⟩ := ih cs.tail ch h
      exact ⟨W, by simp [chapterLine, hnk, hW]⟩

/-- … and a column that is not a chapter is never one -/
theorem chapterLine_none (fmt : Fmt) (i : Nat) (name : Name) :
    ∀ (chs : List (Name × LB)) (cs : List (Name × CL)), getChapter name chs = none →
      chapterLine fmt i name chs cs = none := by
  intro chs
  induction chs with
  | nil => intro cs _; rfl
  | cons q rest ih =>
    intro cs h
    obtain ⟨k, c⟩ := q
    by_cases hnk : name = k
    · subst hnk; simp [getChapter, List.lookup_cons] at h
    · have hb : (name == k) = false := by simpa using hnk
      simp only [getChapter, List.lookup_cons, hb] at h
      simp [chapterLine, hnk, ih cs.tail h]

end C18L
