/-
C18 translator tie: helper lemmas and the closing tactics of `lean/DeapModel/GenEq/C18.lean.tmpl` (the theorems
`Gen.<Class>_<method> … = <model> …` about the definitions regenerated from `deap/tools/support.py`).
Bridges between the Python notions of `Core/GenPreludeC18.lean` and the hand-written model `Core/Logbook.lean`.
-/
import DeapModel.Core.GenPreludeC18
import DeapModel.Lemmas.C18Ops
import Mathlib.Data.List.Nodup

open Logbook

namespace Gen18

/-! ### dict -/

theorem dictSet_eq_setFn {κ φ ρ : Type} (name : Name) (v : φ × (φ → List κ → ρ)) :
    ∀ l : List (Name × (φ × (φ → List κ → ρ))), dictSet l name v = Stats.setFn name v l
  | [] => rfl
  | (k, w) :: rest => by
    by_cases h : k = name <;> simp [dictSet, Stats.setFn, dictSet_eq_setFn name v rest, h]

theorem dictSet_fresh {β : Type} (k : Name) (v : β) : ∀ d : List (Name × β), k ∉ d.map (·.1) → dictSet d k v = d ++ [(k, v)]
  | [], _ => rfl
  | (k', v') :: rest, h => by
    have h1 : k' ≠ k := fun e => h (by simp [e])
    have h2 : k ∉ rest.map (·.1) := fun e => h (by simp at e ⊢; exact Or.inr e)
    simp [dictSet, h1, dictSet_fresh k v rest h2]

/-- a loop `for p in l: d[p.key] = f p` over distinct keys appends one entry per element, in order -/
theorem forIn_dictSet {τ β : Type} (key : τ → Name) (f : τ → β) (body : τ → List (Name × β) → List (Name × β))
    (hb : ∀ p d, body p d = dictSet d (key p) (f p)) :
    ∀ (l : List τ) (acc : List (Name × β)), (l.map key).Nodup → (∀ p ∈ l, key p ∉ acc.map (·.1)) →
      forIn l acc body = acc ++ l.map (fun p => (key p, f p))
  | [], acc, _, _ => by simp [forIn]
  | p :: rest, acc, hn, hd => by
    have hn' : key p ∉ rest.map key ∧ (rest.map key).Nodup := List.nodup_cons.1 (by simpa using hn)
    have h1 : key p ∉ acc.map (·.1) := hd p (by simp)
    have ih := forIn_dictSet key f body hb rest (acc ++ [(key p, f p)]) hn'.2 (by
      intro q hq
      have := hd q (by simp [hq])
      simp only [List.map_append, List.mem_append, List.map_cons, List.map_nil, List.mem_singleton, not_or]
      refine ⟨this, fun e => hn'.1 ?_⟩
      rw [← e]; exact List.mem_map_of_mem hq)
    simp only [forIn, List.foldl_cons] at ih ⊢
    rw [hb, dictSet_fresh _ _ _ h1, ih]
    simp

theorem forIn_dictSet_nil {τ β : Type} (key : τ → Name) (f : τ → β) (body : τ → List (Name × β) → List (Name × β))
    (hb : ∀ p d, body p d = dictSet d (key p) (f p)) (l : List τ) (hn : (l.map key).Nodup) :
    forIn l [] body = l.map (fun p => (key p, f p)) := by
  simpa using forIn_dictSet key f body hb l [] hn (by simp)

/-- a loop `for x in l: acc.append(f x)` -/
theorem forIn_append {τ β : Type} (f : τ → β) : ∀ (l : List τ) (acc : List β),
    forIn l acc (fun x st => st ++ [f x]) = acc ++ l.map f
  | [], acc => by simp [forIn]
  | x :: l, acc => by
    have ih := forIn_append f l (acc ++ [f x])
    simp only [forIn, List.foldl_cons] at ih ⊢
    rw [ih]; simp

theorem mapM_some' {α β : Type} (g : α → β) (f : α → Option β) (hf : ∀ a, f a = some (g a)) :
    ∀ l : List α, l.mapM f = some (l.map g)
  | [] => rfl
  | a :: l => by simp [List.mapM_cons, hf, mapM_some' g f hf l]

theorem insertDesc_eq (x : Nat) : ∀ l, insertDesc x l = Logbook.insertDesc x l
  | [] => rfl
  | y :: ys => by simp [insertDesc, Logbook.insertDesc, insertDesc_eq x ys]

theorem sortedRev_eq : ∀ l, sortedRev l = Logbook.sortDesc l
  | [] => rfl
  | x :: xs => by simp [sortedRev, Logbook.sortDesc, sortedRev_eq xs, insertDesc_eq]

/-! ### nesting depth of the chapters = the fuel the recursive methods need -/

mutual
def depth : LB → Nat
  | .mk _ chs _ _ _ _ => depthAll chs + 1
def depthAll : List (Name × LB) → Nat
  | [] => 0
  | (_, ch) :: rest => max (depth ch) (depthAll rest)
end

theorem depth_le_depthAll : ∀ (chs : List (Name × LB)) (p : Name × LB), p ∈ chs → depth p.2 ≤ depthAll chs
  | [], _, h => by simp at h
  | (k, ch) :: rest, p, h => by
    simp only [depthAll]
    rcases List.mem_cons.1 h with rfl | h'
    · exact Nat.le_max_left _ _
    · exact Nat.le_trans (depth_le_depthAll rest p h') (Nat.le_max_right _ _)

mutual
theorem depth_pop (index : Int) : ∀ lb : LB, depth (pop index lb).2 = depth lb
  | .mk rows chs b h lh hs => by
    have hc := depthAll_popChapters index chs
    simp only [pop]
    rcases hp : popChapters index chs with ⟨chs', _ | _⟩ <;> rw [hp] at hc <;> simp only at hc ⊢
    · split <;> simp [depth, hc]
    · simp [depth, hc]
theorem depthAll_popChapters (index : Int) : ∀ chs : List (Name × LB), depthAll (popChapters index chs).1 = depthAll chs
  | [] => rfl
  | (k, ch) :: rest => by
    have h1 := depth_pop index ch
    have h2 := depthAll_popChapters index rest
    simp only [popChapters]
    rcases hp : pop index ch with ⟨_ | r, ch'⟩ <;> rw [hp] at h1 <;> simp only at h1 ⊢
    · simp [depthAll, h1]
    · simp [depthAll, h1, h2]
end

/-- the model's `Option Row × LB` (value or IndexError, and the logbook as it was left) as a `Res` -/
def ofPop : Option Row × LB → Res LB Row
  | (some r, lb) => .ok lb r
  | (none, lb) => .raise lb

/-- the model's `LB × Bool` (`true` = IndexError) as a `Res` -/
def ofDel : LB × Bool → Res LB Unit
  | (lb, false) => .ok lb ()
  | (lb, true) => .raise lb

theorem listPop_eq {α : Type} (l : List α) (index : Int) :
    listPop l index =
      (if 0 ≤ position l.length index ∧ position l.length index < (l.length : Int)
       then (l[(position l.length index).toNat]?).map (fun x => (x, l.eraseIdx (position l.length index).toNat)) else none) := rfl

/-- the model's `pop` written with `list.pop` -/
theorem pop_eq_listPop (index : Int) (rows : List Row) (chs : List (Name × LB)) (b : Nat) (h lh hs) :
    Logbook.pop index (.mk rows chs b h lh hs) =
      (match popChapters index chs with
       | (chs', true) => (none, .mk rows chs' (if 0 ≤ position rows.length index ∧ position rows.length index < (b : Int) then b - 1 else b) h lh hs)
       | (chs', false) =>
          match listPop rows index with
          | none => (none, .mk rows chs' (if 0 ≤ position rows.length index ∧ position rows.length index < (b : Int) then b - 1 else b) h lh hs)
          | some (r, rows') => (some r, .mk rows' chs' (if 0 ≤ position rows.length index ∧ position rows.length index < (b : Int) then b - 1 else b) h lh hs)) := by
  simp only [Logbook.pop, listPop_eq]
  rcases popChapters index chs with ⟨chs', _ | _⟩
  · by_cases h3 : 0 ≤ position rows.length index ∧ position rows.length index < (rows.length : Int)
    · have : (position rows.length index).toNat < rows.length := by omega
      simp [h3, this]
    · simp [h3]
  · rfl

/-- the loop `for chapter in self.chapters.values(): chapter.pop(index)` is `popChapters` -/
theorem forValuesE_pop (g : LB → Res LB Row) (index : Int) (body : LB → Res LB Unit)
    (hb : ∀ ch, body ch = match g ch with
          | .ok chapter _ => .ok chapter ()
          | .raise chapter => .raise chapter
          | .nofuel => .nofuel)
    : ∀ (chs : List (Name × LB)), (∀ p ∈ chs, g p.2 = ofPop (pop index p.2)) →
    forValuesE chs body
      = (match popChapters index chs with
         | (chs', true) => .raise chs'
         | (chs', false) => .ok chs' ())
  | [], _ => by simp [forValuesE, popChapters]
  | (k, ch) :: rest, h => by
    have h1 := h (k, ch) (by simp)
    have h2 := forValuesE_pop g index body hb rest (fun p hp => h p (by simp [hp]))
    simp only [forValuesE, popChapters]
    simp only at h1
    rw [h2, hb, h1]
    rcases hp : pop index ch with ⟨_ | r, ch'⟩
    · simp [ofPop]
    · simp only [ofPop]
      rcases popChapters index rest with ⟨r', _ | _⟩ <;> simp

/-- the loop `for i in sorted(.., reverse=True): self.pop(i)` is `delEach` -/
theorem forInE_pop (fuel : Nat) (body : Nat → LB → Res LB Unit)
    (hb : ∀ i lb, depth lb ≤ fuel → body i lb = ofDel (delIndex (i : Int) lb)) :
    ∀ (is : List Nat) (lb : LB), depth lb ≤ fuel → forInE is lb body = ofDel (delEach is lb)
  | [], lb, _ => by simp [forInE, delEach, ofDel]
  | i :: is, lb, hd => by
    have hdep : depth (delIndex (i : Int) lb).1 ≤ fuel := by
      have := depth_pop (i : Int) lb
      simp only [delIndex]
      rcases hp : pop (i : Int) lb with ⟨_ | r, lb'⟩ <;> rw [hp] at this <;> simp only at this ⊢ <;> omega
    have ih := forInE_pop fuel body hb is (delIndex (i : Int) lb).1 hdep
    simp only [forInE, delEach, hb i lb hd]
    rcases hdel : delIndex (i : Int) lb with ⟨lb', _ | _⟩ <;> rw [hdel] at ih <;> simp only [ofDel] at ih ⊢
    exact ih

theorem ofDel_delIndex (i : Int) (lb : LB) :
    ofDel (delIndex i lb) = (match ofPop (pop i lb) with | .ok s _ => .ok s () | .raise s => .raise s | .nofuel => .nofuel) := by
  simp only [delIndex]
  rcases pop i lb with ⟨_ | r, lb'⟩ <;> simp [ofDel, ofPop]

end Gen18
