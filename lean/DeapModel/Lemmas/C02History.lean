/-
C02 — helper lemmas for the `tools.History` model (`Core/History.lean`); core Lean only.

* dict lemmas (`dget` / `dset`), `updateLoop` by induction over the individuals (counter, index, frame, the stored
  copies, the stamps, the two dicts as appends under `WF`),
* the decorated operators meet their half of `OpContract`,
* `genealogy`: sub-map of the tree, termination on a tree whose parents are smaller than their children, closure under
  parents when there is no depth bound (the DFS invariant), and non-termination on a cyclic tree.
-/
import DeapModel.Core.History
import DeapModel.Lemmas.C02Ops

namespace History
open Variation

/-! ## dicts -/

theorem dget_dset_same {β : Type} (d : Dict β) (k : Nat) (v : β) : dget (dset d k v) k = some v := by
  induction d with
  | nil => simp [dset, dget]
  | cons e d ih =>
    obtain ⟨k', v'⟩ := e
    by_cases h : k' = k
    · simp [dset, dget, h]
    · simp [dset, dget, h, ih]

theorem dget_dset_other {β : Type} (d : Dict β) (k k2 : Nat) (v : β) (hne : k2 ≠ k) :
    dget (dset d k v) k2 = dget d k2 := by
  induction d with
  | nil => simp [dset, dget, Ne.symm hne]
  | cons e d ih =>
    obtain ⟨k', v'⟩ := e
    by_cases h : k' = k
    · subst h; simp [dset, dget, Ne.symm hne]
    · by_cases h2 : k' = k2
      · subst h2; simp [dset, dget, h]
      · simp [dset, dget, h, h2, ih]

theorem dset_fresh {β : Type} (d : Dict β) (k : Nat) (v : β) (hk : k ∉ dkeys d) : dset d k v = d ++ [(k, v)] := by
  induction d with
  | nil => rfl
  | cons e d ih =>
    obtain ⟨k', v'⟩ := e
    have h1 : k' ≠ k := fun e => hk (by simp [dkeys, e])
    have h2 : k ∉ dkeys d := fun hm => hk (by simp only [dkeys, List.map_cons, List.mem_cons]; exact Or.inr hm)
    simp [dset, h1, ih h2]

theorem dget_isSome_iff {β : Type} (d : Dict β) (k : Nat) : (dget d k).isSome = true ↔ k ∈ dkeys d := by
  induction d with
  | nil => simp [dget, dkeys]
  | cons e d ih =>
    obtain ⟨k', v'⟩ := e
    by_cases h : k' = k
    · simp [dget, dkeys, h]
    · have ih' : (dget d k).isSome = true ↔ k ∈ List.map (fun x => x.1) d := ih
      simp [dget, dkeys, h, ih', Ne.symm h]

theorem dget_append_left {β : Type} (d e : Dict β) (k : Nat) (hk : k ∈ dkeys d) : dget (d ++ e) k = dget d k := by
  induction d with
  | nil => simp [dkeys] at hk
  | cons x d ih =>
    obtain ⟨k', v'⟩ := x
    by_cases h : k' = k
    · simp [dget, h]
    · have : k ∈ dkeys d := by
        simp only [dkeys, List.map_cons, List.mem_cons] at hk
        rcases hk with hk | hk
        · exact absurd hk.symm h
        · exact hk
      simp [dget, h, ih this]

theorem dget_append_right {β : Type} (d e : Dict β) (k : Nat) (hk : k ∉ dkeys d) : dget (d ++ e) k = dget e k := by
  induction d with
  | nil => rfl
  | cons x d ih =>
    obtain ⟨k', v'⟩ := x
    have h1 : k' ≠ k := fun e => hk (by simp [dkeys, e])
    have h2 : k ∉ dkeys d := fun hm => hk (by simp only [dkeys, List.map_cons, List.mem_cons]; exact Or.inr hm)
    simp [dget, h1, ih h2]


theorem mapM_mem {α β : Type} (f : α → Option β) : ∀ (l : List α) (r : List β), l.mapM f = some r →
    ∀ q ∈ r, ∃ o ∈ l, f o = some q := by
  intro l
  induction l with
  | nil => intro r h q hq; simp at h; subst h; simp at hq
  | cons x rest ih =>
    intro r h q hq
    cases hx : f x with
    | none => simp [List.mapM_cons, hx] at h
    | some a =>
      cases hm : List.mapM f rest with
      | none => simp [List.mapM_cons, hx, hm] at h
      | some l2 =>
        simp [List.mapM_cons, hx, hm] at h
        subst h
        rcases List.mem_cons.mp hq with e | hq2
        · subst e; exact ⟨x, by simp, hx⟩
        · obtain ⟨o, ho, e⟩ := ih l2 hm q hq2
          exact ⟨o, List.mem_cons_of_mem _ ho, e⟩

/-- every recorded parent index is the `history_index` some individual carried before the call -/
theorem parentIndices_mem (h : Heap) (inds : List Nat) : ∀ q ∈ parentIndices h inds, ∃ o ∈ inds, (h o).hidx = some q := by
  unfold parentIndices
  cases hm : List.mapM (fun o => (h o).hidx) inds with
  | none => intro q hq; simp at hq
  | some l => exact mapM_mem _ inds l hm

/-! ## update -/

/-- the keys of both dicts are `1, 2, …, genealogy_index`, in this order -/
def WF (H : Hist) : Prop := dkeys H.tree = List.range' 1 H.index ∧ dkeys H.hist = List.range' 1 H.index

theorem WF_init : WF {} := ⟨rfl, rfl⟩

theorem updateLoop_next (ps : List Nat) (H : Hist) (h : Heap) (n : Nat) (inds : List Nat) :
    (updateLoop ps H h n inds).next = n + inds.length := by
  induction inds generalizing H h n with
  | nil => rfl
  | cons o rest ih => simp only [updateLoop, ih, List.length_cons]; omega

theorem updateLoop_index (ps : List Nat) (H : Hist) (h : Heap) (n : Nat) (inds : List Nat) :
    (updateLoop ps H h n inds).hist.index = H.index + inds.length := by
  induction inds generalizing H h n with
  | nil => rfl
  | cons o rest ih => simp only [updateLoop, ih, List.length_cons]; omega

/-- `update` writes the individuals it is given and the objects it allocates, nothing else -/
theorem updateLoop_frame (ps : List Nat) (H : Hist) (h : Heap) (n : Nat) (inds : List Nat) (o : Nat)
    (ho : o ∉ inds) (hn : o < n) : (updateLoop ps H h n inds).heap o = h o := by
  induction inds generalizing H h n with
  | nil => rfl
  | cons x rest ih =>
    simp only [updateLoop]
    rw [ih _ _ _ (fun hm => ho (List.mem_cons_of_mem _ hm)) (by omega)]
    have h1 : o ≠ x := fun e => ho (by simp [e])
    have h2 : o ≠ n := by omega
    simp [Heap.set, h1, h2]

/-- … and it changes nothing but `history_index` on them: genome and fitness of every old object stay -/
theorem updateLoop_genome_fit (ps : List Nat) (H : Hist) (h : Heap) (n : Nat) (inds : List Nat) (o : Nat) (hn : o < n) :
    ((updateLoop ps H h n inds).heap o).genome = (h o).genome ∧ ((updateLoop ps H h n inds).heap o).fit = (h o).fit := by
  induction inds generalizing H h n with
  | nil => exact ⟨rfl, rfl⟩
  | cons x rest ih =>
    simp only [updateLoop]
    have := ih { index := H.index + 1, tree := dset H.tree (H.index + 1) ps, hist := dset H.hist (H.index + 1) n }
      ((h.set x { h x with hidx := some (H.index + 1) }).set n ((h.set x { h x with hidx := some (H.index + 1) }) x))
      (n + 1) (by omega)
    rw [this.1, this.2]
    have h2 : o ≠ n := by omega
    by_cases h1 : o = x
    · subst h1; simp [Heap.set, h2]
    · simp [Heap.set, h1, h2]

theorem setHidx_twice (x : Obj) (a b : Option Nat) : ({ ({ x with hidx := a } : Obj) with hidx := b } : Obj) = { x with hidx := b } := rfl

/-- the object stored under the `i`-th new index is a copy of the `i`-th individual as it is after its stamp -/
theorem updateLoop_copy (ps : List Nat) (H : Hist) (h : Heap) (n : Nat) (inds : List Nat) (hlt : ∀ o ∈ inds, o < n)
    (i o : Nat) (hi : inds[i]? = some o) :
    (updateLoop ps H h n inds).heap (n + i) = { h o with hidx := some (H.index + i + 1) } := by
  induction inds generalizing H h n i with
  | nil => simp at hi
  | cons x rest ih =>
    have hx : x < n := hlt x (by simp)
    have hrest : ∀ o ∈ rest, o < n + 1 := fun o ho => Nat.lt_succ_of_lt (hlt o (List.mem_cons_of_mem _ ho))
    simp only [updateLoop]
    cases i with
    | zero =>
      simp only [List.getElem?_cons_zero, Option.some.injEq] at hi
      subst hi
      show (updateLoop _ _ _ _ _).heap n = _
      rw [updateLoop_frame _ _ _ _ _ n (fun hm => by have := hlt n (List.mem_cons_of_mem _ hm); omega) (by omega)]
      simp [Heap.set]
    | succ j =>
      simp only [List.getElem?_cons_succ] at hi
      have := ih { index := H.index + 1, tree := dset H.tree (H.index + 1) ps, hist := dset H.hist (H.index + 1) n }
        ((h.set x { h x with hidx := some (H.index + 1) }).set n ((h.set x { h x with hidx := some (H.index + 1) }) x))
        (n + 1) hrest j hi
      have e1 : n + (j + 1) = n + 1 + j := by omega
      rw [e1, this]
      have hon : o ≠ n := by have := hlt o (List.mem_cons_of_mem _ (List.mem_of_getElem? hi)); omega
      have e2 : H.index + 1 + j + 1 = H.index + (j + 1) + 1 := by omega
      by_cases hox : o = x
      · subst hox; simp [Heap.set, hon, e2]
      · simp [Heap.set, hon, hox, e2]

/-- the live individuals carry the new indices, in call order (individuals pairwise different objects) -/
theorem updateLoop_live (ps : List Nat) (H : Hist) (h : Heap) (n : Nat) (inds : List Nat) (hlt : ∀ o ∈ inds, o < n)
    (hnd : inds.Nodup) (i o : Nat) (hi : inds[i]? = some o) :
    (updateLoop ps H h n inds).heap o = { h o with hidx := some (H.index + i + 1) } := by
  induction inds generalizing H h n i with
  | nil => simp at hi
  | cons x rest ih =>
    have hx : x < n := hlt x (by simp)
    have hrest : ∀ o ∈ rest, o < n + 1 := fun o ho => Nat.lt_succ_of_lt (hlt o (List.mem_cons_of_mem _ ho))
    rw [List.nodup_cons] at hnd
    simp only [updateLoop]
    cases i with
    | zero =>
      simp only [List.getElem?_cons_zero, Option.some.injEq] at hi
      subst hi
      rw [updateLoop_frame _ _ _ _ _ x hnd.1 (by omega)]
      have : x ≠ n := by omega
      simp [Heap.set, this]
    | succ j =>
      simp only [List.getElem?_cons_succ] at hi
      have := ih { index := H.index + 1, tree := dset H.tree (H.index + 1) ps, hist := dset H.hist (H.index + 1) n }
        ((h.set x { h x with hidx := some (H.index + 1) }).set n ((h.set x { h x with hidx := some (H.index + 1) }) x))
        (n + 1) hrest hnd.2 j hi
      rw [this]
      have hmem : o ∈ rest := List.mem_of_getElem? hi
      have hon : o ≠ n := by have := hlt o (List.mem_cons_of_mem _ hmem); omega
      have hox : o ≠ x := fun e => hnd.1 (e ▸ hmem)
      have e2 : H.index + 1 + j + 1 = H.index + (j + 1) + 1 := by omega
      simp [Heap.set, hon, hox, e2]

theorem range'_one_succ (k : Nat) : List.range' 1 (k + 1) = List.range' 1 k ++ [k + 1] := by
  rw [List.range'_concat]; simp [Nat.add_comm]

theorem WF_step (H : Hist) (hwf : WF H) (ps : List Nat) (n : Nat) :
    WF { index := H.index + 1, tree := dset H.tree (H.index + 1) ps, hist := dset H.hist (H.index + 1) n } ∧
    dset H.tree (H.index + 1) ps = H.tree ++ [(H.index + 1, ps)] ∧
    dset H.hist (H.index + 1) n = H.hist ++ [(H.index + 1, n)] := by
  have hk1 : H.index + 1 ∉ dkeys H.tree := by rw [hwf.1]; simp [List.mem_range']; omega
  have hk2 : H.index + 1 ∉ dkeys H.hist := by rw [hwf.2]; simp [List.mem_range']; omega
  have e1 := dset_fresh H.tree (H.index + 1) ps hk1
  have e2 := dset_fresh H.hist (H.index + 1) n hk2
  refine ⟨⟨?_, ?_⟩, e1, e2⟩
  · show dkeys (dset H.tree (H.index + 1) ps) = List.range' 1 (H.index + 1)
    rw [e1, range'_one_succ, ← hwf.1]; simp [dkeys]
  · show dkeys (dset H.hist (H.index + 1) n) = List.range' 1 (H.index + 1)
    rw [e2, range'_one_succ, ← hwf.2]; simp [dkeys]

/-- on a history whose keys are `1..index`, `update` APPENDS: the new keys are `index+1, index+2, …` in call order, every
new tree entry is the tuple of parent indices, the `i`-th new history entry is the `i`-th freshly allocated object -/
theorem updateLoop_dicts (ps : List Nat) (H : Hist) (h : Heap) (n : Nat) (inds : List Nat) (hwf : WF H) :
    WF (updateLoop ps H h n inds).hist ∧
    (updateLoop ps H h n inds).hist.tree = H.tree ++ (List.range' (H.index + 1) inds.length).map (fun k => (k, ps)) ∧
    (updateLoop ps H h n inds).hist.hist =
      H.hist ++ List.zip (List.range' (H.index + 1) inds.length) (List.range' n inds.length) := by
  induction inds generalizing H h n with
  | nil => simp [updateLoop, hwf]
  | cons x rest ih =>
    obtain ⟨hwf', e1, e2⟩ := WF_step H hwf ps n
    simp only [updateLoop]
    obtain ⟨w, t, hh⟩ := ih { index := H.index + 1, tree := dset H.tree (H.index + 1) ps, hist := dset H.hist (H.index + 1) n }
      ((h.set x { h x with hidx := some (H.index + 1) }).set n ((h.set x { h x with hidx := some (H.index + 1) }) x))
      (n + 1) hwf'
    refine ⟨w, ?_, ?_⟩
    · rw [t]; show dset H.tree (H.index + 1) ps ++ _ = _
      rw [e1]; simp [List.range'_succ]
    · rw [hh]; show dset H.hist (H.index + 1) n ++ _ = _
      rw [e2]; simp [List.range'_succ]

/-! ## the decorated operators and `OpContract` -/

theorem histMate_contract {σ : Type} {m : σ → Heap → Nat → Nat → Nat → MateRes σ} (hm : MateContract m) :
    MateContract (histMate m) where
  next := fun t h n a b => by
    have := hm.next t.1 h n a b
    simp only [histMate, update, updateLoop_next]; omega
  fst := fun t h n a b => by
    rcases hm.fst t.1 h n a b with h1 | h1 | h1
    · exact Or.inl h1
    · exact Or.inr (Or.inl h1)
    · refine Or.inr (Or.inr ⟨h1.1, ?_⟩)
      simp only [histMate, update, updateLoop_next]; omega
  snd := fun t h n a b => by
    rcases hm.snd t.1 h n a b with h1 | h1 | h1
    · exact Or.inl h1
    · exact Or.inr (Or.inl h1)
    · refine Or.inr (Or.inr ⟨h1.1, ?_⟩)
      simp only [histMate, update, updateLoop_next]; omega
  distinct := fun t h n a b hab => hm.distinct t.1 h n a b hab
  frame := fun t h n a b o ha hb hn => by
    have hnx := hm.next t.1 h n a b
    have h1 : o ≠ (m t.1 h n a b).fst := by
      rcases hm.fst t.1 h n a b with e | e | e
      · rw [e]; exact ha
      · rw [e]; exact hb
      · omega
    have h2 : o ≠ (m t.1 h n a b).snd := by
      rcases hm.snd t.1 h n a b with e | e | e
      · rw [e]; exact ha
      · rw [e]; exact hb
      · omega
    simp only [histMate, update]
    rw [updateLoop_frame _ _ _ _ _ o (by simp [h1, h2]) (by omega)]
    exact hm.frame t.1 h n a b o ha hb hn

theorem histMutate_contract {σ : Type} {u : σ → Heap → Nat → Nat → MutRes σ} (hu : MutContract u) :
    MutContract (histMutate u) where
  next := fun t h n a => by
    have := hu.next t.1 h n a
    simp only [histMutate, update, updateLoop_next]; omega
  ret := fun t h n a => by
    rcases hu.ret t.1 h n a with h1 | h1
    · exact Or.inl h1
    · refine Or.inr ⟨h1.1, ?_⟩
      simp only [histMutate, update, updateLoop_next]; omega
  frame := fun t h n a o ha hn => by
    have hnx := hu.next t.1 h n a
    have h1 : o ≠ (u t.1 h n a).ret := by
      rcases hu.ret t.1 h n a with e | e
      · rw [e]; exact ha
      · omega
    simp only [histMutate, update]
    rw [updateLoop_frame _ _ _ _ _ o (by simp [h1]) (by omega)]
    exact hu.frame t.1 h n a o ha hn

theorem plainMate_contract {σ : Type} {m : σ → Heap → Nat → Nat → Nat → MateRes σ} (hm : MateContract m) :
    MateContract (plainMate m) :=
  ⟨fun t => hm.next t.1, fun t => hm.fst t.1, fun t => hm.snd t.1, fun t => hm.distinct t.1, fun t => hm.frame t.1⟩

theorem plainMutate_contract {σ : Type} {u : σ → Heap → Nat → Nat → MutRes σ} (hu : MutContract u) :
    MutContract (plainMutate u) :=
  ⟨fun t => hu.next t.1, fun t => hu.ret t.1, fun t => hu.frame t.1⟩

theorem histOps_contract {σ : Type} {ops : Ops σ} (hc : OpContract ops) (dm du : Bool) : OpContract (histOps dm du ops) := by
  apply OpContract.of_halves
  · cases dm
    · exact plainMate_contract hc.mateHalf
    · exact histMate_contract hc.mateHalf
  · cases du
    · exact plainMutate_contract hc.mutHalf
    · exact histMutate_contract hc.mutHalf

/-! ## getGenealogy -/

/-- `g` is a sub-map of `tree` -/
def Sub (g tree : Dict (List Nat)) : Prop := ∀ k ps, dget g k = some ps → dget tree k = some ps

theorem Sub_dset {g tree : Dict (List Nat)} (hs : Sub g tree) (k : Nat) (ps : List Nat) (hk : dget tree k = some ps) :
    Sub (dset g k ps) tree := by
  intro k2 ps2 h2
  by_cases e : k2 = k
  · subst e; rw [dget_dset_same] at h2; cases h2; exact hk
  · rw [dget_dset_other _ _ _ _ e] at h2; exact hs k2 ps2 h2

theorem forParents_sub (tree : Dict (List Nat)) (rec : Nat → GSt → Option GSt)
    (hrec : ∀ p s s', Sub s.gtree tree → rec p s = some s' → Sub s'.gtree tree) :
    ∀ (ps : List Nat) (s s' : GSt), Sub s.gtree tree → forParents rec ps s = some s' → Sub s'.gtree tree := by
  intro ps
  induction ps with
  | nil => intro s s' hs h; simp only [forParents, Option.some.injEq] at h; subst h; exact hs
  | cons p ps ih =>
    intro s s' hs h
    simp only [forParents] at h
    split at h
    · exact ih s s' hs h
    · split at h
      · cases h
      · next s1 h1 => exact ih { s1 with visited := p :: s1.visited } s' (hrec p s s1 hs h1) h

theorem genealogy_sub (tree : Dict (List Nat)) (maxd : Option Nat) :
    ∀ (fuel index depth : Nat) (s s' : GSt), Sub s.gtree tree → genealogy tree maxd fuel index depth s = some s' →
      Sub s'.gtree tree := by
  intro fuel
  induction fuel with
  | zero => intro index depth s s' _ h; simp [genealogy] at h
  | succ fuel ih =>
    intro index depth s s' hs h
    simp only [genealogy] at h
    split at h
    · cases h; exact hs
    · next parents hp =>
      split at h
      · cases h; exact hs
      · exact forParents_sub tree _ (fun p s1 s2 h1 h2 => ih p (depth + 1) s1 s2 h1 h2) parents _ s'
          (Sub_dset hs index parents hp) h

/-- every parent index is smaller than its child's: what `update` builds when no index comes from elsewhere -/
def Below (tree : Dict (List Nat)) : Prop := ∀ k ps, dget tree k = some ps → ∀ p ∈ ps, p < k

theorem forParents_isSome (rec : Nat → GSt → Option GSt) :
    ∀ (ps : List Nat) (s : GSt), (∀ p ∈ ps, ∀ s, (rec p s).isSome = true) → (forParents rec ps s).isSome = true := by
  intro ps
  induction ps with
  | nil => intro s _; rfl
  | cons p ps ih =>
    intro s hrec
    simp only [forParents]
    split
    · exact ih s (fun q hq => hrec q (List.mem_cons_of_mem _ hq))
    · have := hrec p (by simp) s
      cases hr : rec p s with
      | none => rw [hr] at this; cases this
      | some s1 => exact ih _ (fun q hq => hrec q (List.mem_cons_of_mem _ hq))

theorem genealogy_isSome (tree : Dict (List Nat)) (maxd : Option Nat) (hb : Below tree) :
    ∀ (fuel index depth : Nat) (s : GSt), index < fuel → (genealogy tree maxd fuel index depth s).isSome = true := by
  intro fuel
  induction fuel with
  | zero => intro index depth s h; omega
  | succ fuel ih =>
    intro index depth s hlt
    simp only [genealogy]
    split
    · rfl
    · next parents hp =>
      split
      · rfl
      · exact forParents_isSome _ parents _ (fun p hpm s1 => ih p (depth + 1) s1 (by have := hb index parents hp p hpm; omega))

/-! ### closure under parents (no depth bound): the invariant of the depth-first search -/

def inG (s : GSt) (k : Nat) : Prop := (dget s.gtree k).isSome = true
def inT (tree : Dict (List Nat)) (k : Nat) : Prop := (dget tree k).isSome = true

/-- every visited index of the tree has been recorded, and every recorded index that is not still being worked on
(`S` = the indices whose frames are on the stack) has all its parents (that the tree knows) recorded -/
def Inv (tree : Dict (List Nat)) (S : Nat → Prop) (s : GSt) : Prop :=
  (∀ v ∈ s.visited, inT tree v → inG s v) ∧
  (∀ k, inG s k → ¬ S k → ∀ ps, dget tree k = some ps → ∀ p ∈ ps, inT tree p → inG s p)

def Mono (s s' : GSt) : Prop := ∀ k, inG s k → inG s' k

theorem inG_dset (s : GSt) (k k2 : Nat) (ps : List Nat) :
    inG { s with gtree := dset s.gtree k ps } k2 ↔ (k2 = k ∨ inG s k2) := by
  unfold inG
  by_cases e : k2 = k
  · subst e; simp [dget_dset_same]
  · simp [dget_dset_other _ _ _ _ e, e]

theorem forParents_inv (tree : Dict (List Nat)) (S : Nat → Prop) (rec : Nat → GSt → Option GSt)
    (hrec : ∀ p s s', Inv tree S s → rec p s = some s' → Inv tree S s' ∧ Mono s s' ∧ (inT tree p → inG s' p)) :
    ∀ (ps : List Nat) (s s' : GSt), Inv tree S s → forParents rec ps s = some s' →
      Inv tree S s' ∧ Mono s s' ∧ (∀ p ∈ ps, inT tree p → inG s' p) := by
  intro ps
  induction ps with
  | nil =>
    intro s s' hi h
    simp only [forParents, Option.some.injEq] at h; subst h
    exact ⟨hi, fun _ h => h, fun p hp => by simp at hp⟩
  | cons p ps ih =>
    intro s s' hi h
    simp only [forParents] at h
    split at h
    · next hv =>
      have hv' : p ∈ s.visited := by simpa using hv
      obtain ⟨i1, m1, c1⟩ := ih s s' hi h
      refine ⟨i1, m1, fun q hq ht => ?_⟩
      rcases List.mem_cons.mp hq with e | hq
      · subst e; exact m1 _ (hi.1 _ hv' ht)
      · exact c1 q hq ht
    · split at h
      · cases h
      · next s1 h1 =>
        obtain ⟨i1, m1, c1⟩ := hrec p s s1 hi h1
        have i2 : Inv tree S { s1 with visited := p :: s1.visited } := by
          refine ⟨fun v hv ht => ?_, i1.2⟩
          rcases List.mem_cons.mp hv with e | hv
          · subst e; exact c1 ht
          · exact i1.1 v hv ht
        obtain ⟨i3, m3, c3⟩ := ih _ s' i2 h
        refine ⟨i3, fun k hk => m3 k (m1 k hk), fun q hq ht => ?_⟩
        rcases List.mem_cons.mp hq with e | hq
        · subst e; exact m3 _ (c1 ht)
        · exact c3 q hq ht

theorem genealogy_inv (tree : Dict (List Nat)) :
    ∀ (fuel index depth : Nat) (S : Nat → Prop) (s s' : GSt), Inv tree S s →
      genealogy tree none fuel index depth s = some s' →
      Inv tree S s' ∧ Mono s s' ∧ (inT tree index → inG s' index) := by
  intro fuel
  induction fuel with
  | zero => intro index depth S s s' _ h; simp [genealogy] at h
  | succ fuel ih =>
    intro index depth S s s' hi h
    simp only [genealogy] at h
    split at h
    · next hnone =>
      cases h
      exact ⟨hi, fun _ h => h, fun ht => by unfold inT at ht; rw [hnone] at ht; cases ht⟩
    · next parents hp =>
      simp only [over, Bool.false_eq_true, if_false] at h
      -- the frame of `index` is now on the stack
      have i0 : Inv tree (fun k => S k ∨ k = index) { s with gtree := dset s.gtree index parents } := by
        refine ⟨fun v hv ht => (inG_dset s index v parents).mpr (Or.inr (hi.1 v hv ht)), ?_⟩
        intro k hk hS ps hps p hpm ht
        have hk' : inG s k := by
          rcases (inG_dset s index k parents).mp hk with e | hk
          · exact absurd (Or.inr e) hS
          · exact hk
        exact (inG_dset s index p parents).mpr (Or.inr (hi.2 k hk' (fun hs => hS (Or.inl hs)) ps hps p hpm ht))
      obtain ⟨i1, m1, c1⟩ := forParents_inv tree (fun k => S k ∨ k = index)
        (fun p s1 => genealogy tree none fuel p (depth + 1) s1)
        (fun p s1 s2 h1 h2 => ih p (depth + 1) _ s1 s2 h1 h2) parents _ s' i0 h
      have hidx : inG s' index := m1 index ((inG_dset s index index parents).mpr (Or.inl rfl))
      refine ⟨⟨i1.1, ?_⟩, fun k hk => m1 k ((inG_dset s index k parents).mpr (Or.inr hk)), fun _ => hidx⟩
      intro k hk hS ps hps p hpm ht
      by_cases e : k = index
      · subst e
        rw [hp] at hps; cases hps
        exact c1 p hpm ht
      · exact i1.2 k hk (fun hs => hs.elim hS e) ps hps p hpm ht

/-! ### an individual that is its own ancestor: the recursion never ends -/

/-- what two `update`s build when the first individual carried the index `2` of ANOTHER history: `1 ↦ (2,)`, `2 ↦ (1,)` -/
def cyclicTree : Dict (List Nat) := [(1, [2]), (2, [1])]

theorem genealogy_cyclic (maxd : Option Nat) (hinf : maxd = none) :
    ∀ (fuel depth : Nat) (s : GSt), 1 ∉ s.visited → 2 ∉ s.visited →
      genealogy cyclicTree maxd fuel 1 depth s = none ∧ genealogy cyclicTree maxd fuel 2 depth s = none := by
  subst hinf
  intro fuel
  induction fuel with
  | zero => intro depth s _ _; exact ⟨rfl, rfl⟩
  | succ fuel ih =>
    intro depth s h1 h2
    constructor
    · have := (ih (depth + 1) { s with gtree := dset s.gtree 1 [2] } h1 h2).2
      simp only [cyclicTree] at this
      simp [genealogy, cyclicTree, dget, over, forParents, h2, this]
    · have := (ih (depth + 1) { s with gtree := dset s.gtree 2 [1] } h1 h2).1
      simp only [cyclicTree] at this
      simp [genealogy, cyclicTree, dget, over, forParents, h1, this]

end History
