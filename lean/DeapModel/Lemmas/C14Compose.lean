/-
C14 helper lemmas for the COMPOSITION theorem `C14.mo_select_library`: `_select` instantiated with
the C04 model of `sortLogNondominated` and the C15 model of the hypervolume indicator
(`Core/CmaSelectLib.lean`).  Uses the property theorems of C04 (`sortLog_eq_peel`,
`sortLog_front_iff_depth`) and C15 (`indicator_least`); nothing about the two components is assumed.
-/
import DeapModel.Core.CmaSelectLib
import DeapModel.Lemmas.C14Select
import DeapModel.Props.C04
import DeapModel.Props.C15

set_option linter.unusedSectionVars false
set_option linter.unusedVariables false
set_option linter.unusedSimpArgs false

namespace C14Compose
open CmaElitist CmaElitist.MO CmaElitist.MOLib NDSort Hypervolume C14Select

/-! ### the indicator of the composed model is C15's, on the negated weighted values -/

theorem zipWith_mul_ones : ∀ (v : List ℚ) (m : Nat), v.length ≤ m →
    List.zipWith (· * ·) v (List.replicate m (1 : ℚ)) = v
  | [], _, _ => by simp
  | _ :: _, 0, h => by simp at h
  | x :: v, m + 1, h => by
    simp only [List.replicate_succ, List.zipWith_cons_cons, mul_one]
    rw [zipWith_mul_ones v m (by simpa using h)]

/-- With unit weights the points C15's indicator works on are the negated weighted values. -/
theorem wobj_ones (m : Nat) (l : List Cand) (h : ∀ c ∈ l, c.w.length = m) :
    wobj (List.replicate m 1) (l.map (fun c => c.w)) = negW l := by
  unfold wobj negW wvalues
  rw [List.map_map]
  apply List.map_congr_left
  intro c hc
  simp only [Function.comp]
  rw [zipWith_mul_ones c.w m (by rw [h c hc])]

theorem negW_eraseIdx (l : List Cand) (i : Nat) : negW (l.eraseIdx i) = (negW l).eraseIdx i := by
  unfold negW
  induction l generalizing i with
  | nil => simp
  | cons a l ih =>
    cases i with
    | zero => simp
    | succ i =>
      simp only [List.eraseIdx_cons_succ, List.map_cons]
      rw [ih]

theorem negW_length (l : List Cand) : (negW l).length = l.length := by simp [negW]

/-- The answer of the composed model's indicator is always an index of the front it is given
(`numpy.argmax`), whatever the lengths of the fitnesses. -/
theorem indicator_lt (m : Nat) (ref : List ℚ) (front : List Cand) (hne : front ≠ []) :
    indicator m ref front < front.length := by
  have h := (C15.indicator_least (List.replicate m 1) (front.map (fun c => c.w)) (some ref)
    (by simpa using hne)).1
  simpa [indicator] using h

/-- **C15 inside `_select`.**  On a non-empty front of fitnesses with `m` objectives the index the
indicator answers (i) is an index of the front, (ii) minimises the hypervolume lost by removing
one individual — hypervolume = `hvCells`, the measure of the region dominated w.r.t. `ref`
(`C15.hvCells_eq_volume`) — and (iii) is the first such index. -/
theorem indicator_spec (m : Nat) (ref : List ℚ) (front : List Cand) (hne : front ≠ [])
    (hlen : ∀ c ∈ front, c.w.length = m) :
    indicator m ref front < front.length ∧
    (∀ k, k < front.length →
      hvCells ref (negW front) - hvCells ref (negW (front.eraseIdx (indicator m ref front)))
        ≤ hvCells ref (negW front) - hvCells ref (negW (front.eraseIdx k))) ∧
    (∀ k, k < indicator m ref front →
      hvCells ref (negW (front.eraseIdx k)) < hvCells ref (negW (front.eraseIdx (indicator m ref front)))) := by
  have h := C15.indicator_least (List.replicate m 1) (front.map (fun c => c.w)) (some ref)
    (by simpa using hne)
  simp only [Option.getD_some, List.length_map] at h
  rw [wobj_ones m front hlen] at h
  obtain ⟨h1, h2, h3, _⟩ := h
  refine ⟨h1, fun k hk => ?_, fun k hk => ?_⟩
  · rw [negW_eraseIdx, negW_eraseIdx]; exact h2 k hk
  · rw [negW_eraseIdx, negW_eraseIdx]; exact h3 k hk

/-- The unit-weight call of the composed model loses nothing: for ANY weights and raw values whose
products are the front's weighted values, C15's indicator answers the same index. -/
theorem indicator_any_weights (m : Nat) (ref : List ℚ) (front : List Cand)
    (hlen : ∀ c ∈ front, c.w.length = m) (weights : List ℚ) (vals : List (List ℚ))
    (h : vals.map (wvalues weights) = front.map (fun c => c.w)) :
    leastContributor weights vals (some ref) = indicator m ref front := by
  have e : wobj weights vals = negW front := by
    have : wobj weights vals = (vals.map (wvalues weights)).map (fun w => w.map (fun x => x * (-1))) := by
      unfold wobj; rw [List.map_map]; rfl
    rw [this, h]; unfold negW; rw [List.map_map]; rfl
  unfold indicator leastContributor
  simp only
  rw [e, wobj_ones m front hlen]

/-- cma.py:463-464: the reference point is, in every objective, the worst (largest negated weighted)
value among ALL candidates plus one — every candidate strictly dominates it. -/
theorem refPoint_spec (m : Nat) (cands : List Cand) (hne : cands ≠ []) (hlen : ∀ c ∈ cands, c.w.length = m) :
    (refPoint cands).length = m ∧
    ∀ j < m, (∀ q ∈ negW cands, q.getD j 0 + 1 ≤ (refPoint cands).getD j 0) ∧
      (∃ q ∈ negW cands, (refPoint cands).getD j 0 = q.getD j 0 + 1) := by
  apply defaultRef_spec
  · intro h; exact hne (List.map_eq_nil_iff.mp h)
  · intro q hq
    simp only [negW, List.mem_map] at hq
    obtain ⟨c, hc, rfl⟩ := hq
    simp [hlen c hc]
/-! ### the least-contributor loop as a specification -/

/-- `LeastDrops ref cnt mid mid' removed`: `mid'` is what is left of `mid` after `cnt` successive
removals, `removed` lists the removed individuals in the order of their removal, and EVERY removal
takes out an individual whose removal loses the least hypervolume (w.r.t. `ref`) among the
individuals still present — the first such individual (`numpy.argmax`). -/
inductive LeastDrops (ref : List ℚ) : Nat → List Cand → List Cand → List Cand → Prop
  | done (mid : List Cand) : LeastDrops ref 0 mid mid []
  | step (cnt : Nat) (mid mid' removed : List Cand) (i : Nat) (hi : i < mid.length)
      (hleast : ∀ k, k < mid.length →
        hvCells ref (negW mid) - hvCells ref (negW (mid.eraseIdx i))
          ≤ hvCells ref (negW mid) - hvCells ref (negW (mid.eraseIdx k)))
      (hfirst : ∀ k, k < i → hvCells ref (negW (mid.eraseIdx k)) < hvCells ref (negW (mid.eraseIdx i)))
      (hrest : LeastDrops ref cnt (mid.eraseIdx i) mid' removed) :
      LeastDrops ref (cnt + 1) mid mid' (mid[i] :: removed)

/-- Nobody is lost or invented by the removals. -/
theorem LeastDrops.perm {ref : List ℚ} {cnt : Nat} {mid mid' removed : List Cand}
    (h : LeastDrops ref cnt mid mid' removed) :
    (mid' ++ removed).Perm mid ∧ removed.length = cnt ∧ mid'.length + cnt = mid.length := by
  induction h with
  | done mid => simp
  | step cnt mid mid' removed i hi _ _ _ ih =>
    obtain ⟨p, l1, l2⟩ := ih
    have hlen : (mid.eraseIdx i).length = mid.length - 1 := by rw [List.length_eraseIdx, if_pos hi]
    refine ⟨?_, by simp [l1], by omega⟩
    exact (List.perm_middle).trans ((p.cons _).trans (perm_eraseIdx mid i hi))

/-- The loop of cma.py:466-468 with the library indicator: it never raises, and it is a sequence of
least-contributor removals. -/
theorem dropLeast_least (m : Nat) (ref : List ℚ) :
    ∀ (cnt : Nat) (mid nc : List Cand), cnt ≤ mid.length → (∀ c ∈ mid, c.w.length = m) →
      ∃ mid' removed, dropLeast (indicator m ref) cnt mid nc = some (mid', nc ++ removed) ∧
        LeastDrops ref cnt mid mid' removed
  | 0, mid, nc, _, _ => ⟨mid, [], by simp [dropLeast], LeastDrops.done mid⟩
  | cnt + 1, mid, nc, h, hl => by
    have hne : mid ≠ [] := by intro e; subst e; simp at h
    obtain ⟨hi, hleast, hfirst⟩ := indicator_spec m ref mid hne hl
    have hl' : ∀ c ∈ mid.eraseIdx (indicator m ref mid), c.w.length = m :=
      fun c hc => hl c (List.mem_of_mem_eraseIdx hc)
    have hlen : (mid.eraseIdx (indicator m ref mid)).length = mid.length - 1 := by
      rw [List.length_eraseIdx, if_pos hi]
    obtain ⟨mid', removed, h1, h2⟩ :=
      dropLeast_least m ref cnt (mid.eraseIdx (indicator m ref mid)) (nc ++ [mid[indicator m ref mid]])
        (by omega) hl'
    refine ⟨mid', mid[indicator m ref mid] :: removed, ?_,
      LeastDrops.step cnt mid mid' removed _ hi hleast hfirst h2⟩
    simp only [dropLeast, List.getElem?_eq_getElem hi]
    rw [h1]; simp

/-! ### the fronts of the library sort -/

/-- How many leading fronts fit depends only on the sizes of the fronts. -/
theorem wholeCount_congr {ι : Type} (mu : Nat) :
    ∀ (F P : List (List ι)) (c : Nat), List.Forall₂ List.Perm F P → wholeCount mu F c = wholeCount mu P c
  | _, _, _, List.Forall₂.nil => rfl
  | _, _, c, List.Forall₂.cons (a := f) (b := p) (l₁ := F) (l₂ := P) hp hrest => by
    simp only [wholeCount, hp.length_eq]
    rw [wholeCount_congr mu F P _ hrest]

/-- **C04 inside `_select`.**  `sortLogNondominated(candidates, len(candidates))` on more than zero
candidates with `m ≥ 2` objectives returns, front by front, the complete ranking by peeling: front
`i` holds exactly the candidates of dominance depth `i` (with their multiplicity), no front is
empty, nobody is lost. -/
theorem sort_all (m : Nat) (cands : List Cand) (hm : 2 ≤ m) (hne : cands ≠ [])
    (hlen : ∀ c ∈ cands, c.w.length = m) :
    ∃ F, sortLog cands cands.length = some F ∧ List.Forall₂ List.Perm F (peel domI cands) ∧
      F.flatten.Perm cands ∧
      (∀ i f, F[i]? = some f → ∀ c, c ∈ f ↔ c ∈ cands ∧ depth domI cands c = i) := by
  obtain ⟨F, h1, h2⟩ := C04.sortLog_eq_peel cands m hm hne hlen cands.length
  have hS := C04L.spo_domI m cands hlen
  have hall : leading (peel domI cands) cands.length = peel domI cands :=
    C04L.leading_all _ _ (C04L.peel_fronts_ne_nil cands hS)
      (by rw [(C04L.peel_flatten_perm cands hS).length_eq])
  rw [hall] at h2
  refine ⟨F, h1, h2, (C04L.forall₂_perm_flatten h2).trans (C04L.peel_flatten_perm cands hS), ?_⟩
  intro i f hf c
  exact C04.sortLog_front_iff_depth cands m hm hne hlen cands.length F h1 i f hf c

/-! ### list bookkeeping: members of the leading / trailing fronts -/

theorem mem_take_flatten {ι : Type} (F : List (List ι)) (j : Nat) (c : ι) (h : c ∈ (F.take j).flatten) :
    ∃ i f, i < j ∧ F[i]? = some f ∧ c ∈ f := by
  obtain ⟨f, hf, hc⟩ := List.mem_flatten.1 h
  obtain ⟨i, hi⟩ := List.mem_iff_getElem?.1 hf
  rw [List.getElem?_take] at hi
  by_cases hij : i < j
  · rw [if_pos hij] at hi; exact ⟨i, f, hij, hi, hc⟩
  · rw [if_neg hij] at hi; cases hi

theorem mem_drop_flatten {ι : Type} (F : List (List ι)) (j : Nat) (c : ι) (h : c ∈ (F.drop j).flatten) :
    ∃ i f, j ≤ i ∧ F[i]? = some f ∧ c ∈ f := by
  obtain ⟨f, hf, hc⟩ := List.mem_flatten.1 h
  obtain ⟨i, hi⟩ := List.mem_iff_getElem?.1 hf
  rw [List.getElem?_drop] at hi
  exact ⟨j + i, f, Nat.le_add_right _ _, hi, hc⟩

theorem drop_cons_getElem? {ι : Type} (F : List (List ι)) (j : Nat) (mid : List ι) (rest : List (List ι))
    (h : F.drop j = mid :: rest) : F[j]? = some mid ∧ F.drop (j + 1) = rest := by
  constructor
  · have := List.getElem?_drop (xs := F) (i := j) (j := 0)
    rw [h] at this; simpa using this.symm
  · have : F.drop (j + 1) = (F.drop j).drop 1 := by rw [List.drop_drop]
    rw [this, h]; rfl

end C14Compose
