/-
C09 — helper lemmas of the TRANSLATOR TIE (`harness/py2lean_c09.py`, `GenEq/C09.lean.tmpl`): the prelude of the
generated definitions (`Core/GenPrelude.lean`, `Core/GenPreludeC09.lean`) on the naturals the models of
`Core/CrossMut.lean` work with — Python's slices / indices / item and slice assignment at non-negative positions,
the tape, and the `for` loop as a fold.
-/
import DeapModel.Core.GenPreludeC09
import DeapModel.Lemmas.C09Basic
import Mathlib.Tactic.Lift

set_option linter.unusedSimpArgs false
set_option linter.unusedVariables false
set_option linter.unusedTactic false
set_option linter.unreachableTactic false
set_option linter.unusedSectionVars false

namespace GenCL
open CrossMut

variable {β γ σ ρ S : Type}

/-! ### the tape -/

@[simp] theorem randint_cons (rs : List ρ) (v : Int) (vs : List Int) (a b : Int) :
    GenC.randint ⟨rs, v :: vs⟩ a b = if a ≤ v ∧ v ≤ b then some (v, ⟨rs, vs⟩) else none := rfl

@[simp] theorem randint_nil (rs : List ρ) (a b : Int) : GenC.randint ⟨rs, []⟩ a b = none := rfl

@[simp] theorem randrange_cons (rs : List ρ) (v : Int) (vs : List Int) (n : Int) :
    GenC.randrange ⟨rs, v :: vs⟩ n = if 0 ≤ v ∧ v ≤ n - 1 then some (v, ⟨rs, vs⟩) else none := rfl

@[simp] theorem randrange_nil (rs : List ρ) (n : Int) : GenC.randrange ⟨rs, []⟩ n = none := rfl

@[simp] theorem random_cons (r : ρ) (rs : List ρ) (vs : List Int) :
    GenC.random ⟨r :: rs, vs⟩ = some (r, ⟨rs, vs⟩) := rfl

@[simp] theorem random_nil (vs : List Int) : GenC.random (⟨[], vs⟩ : GenC.Tape ρ) = none := rfl

/-! ### slices and items at natural positions -/

@[simp] theorem bound_natCast (n c : Nat) : Gen.bound n (c : Int) = min c n := by
  simp [Gen.bound]

theorem slice_some_none (l : List β) (c : Nat) : Gen.slice l (some (c : Int)) none = l.drop c := by
  simp only [Gen.slice, bound_natCast, List.take_length]
  by_cases h : c ≤ l.length
  · rw [Nat.min_eq_left h]
  · have h' : l.length ≤ c := by omega
    rw [Nat.min_eq_right h', List.drop_length, List.drop_eq_nil_of_le h']

theorem slice_some_some (l : List β) (a b : Nat) :
    Gen.slice l (some (a : Int)) (some (b : Int)) = pySlice l a b := by
  simp only [Gen.slice, bound_natCast, pySlice]
  by_cases hb : b ≤ l.length
  · rw [Nat.min_eq_left hb]
    by_cases ha : a ≤ l.length
    · rw [Nat.min_eq_left ha]
    · have : l.length ≤ a := by omega
      rw [Nat.min_eq_right this, List.drop_eq_nil_of_le (by simp; omega), List.drop_eq_nil_of_le (by simp; omega)]
  · have hb' : l.length ≤ b := by omega
    rw [Nat.min_eq_right hb', List.take_length, List.take_of_length_le hb']
    by_cases ha : a ≤ l.length
    · rw [Nat.min_eq_left ha]
    · have : l.length ≤ a := by omega
      rw [Nat.min_eq_right this, List.drop_length, List.drop_eq_nil_of_le this]

theorem sliceSet_some_none (l r : List β) (c : Nat) :
    GenC.sliceSet l (some (c : Int)) none r = l.take c ++ r := by
  simp only [GenC.sliceSet, bound_natCast]
  have h1 : max (min c l.length) l.length = l.length := by omega
  rw [h1, List.drop_length, List.append_nil]
  by_cases h : c ≤ l.length
  · rw [Nat.min_eq_left h]
  · have h' : l.length ≤ c := by omega
    rw [Nat.min_eq_right h', List.take_length, List.take_of_length_le h']

theorem sliceSet_some_some (l r : List β) (a b : Nat) :
    GenC.sliceSet l (some (a : Int)) (some (b : Int)) r = sliceAssign l a b r := by
  simp only [GenC.sliceSet, bound_natCast, sliceAssign]
  by_cases ha : a ≤ l.length
  · rw [Nat.min_eq_left ha]
    by_cases hb : b ≤ l.length
    · rw [Nat.min_eq_left hb]
    · have hb' : l.length ≤ b := by omega
      rw [Nat.min_eq_right hb']
      have e1 : max a l.length = l.length := by omega
      rw [e1, List.drop_length, List.drop_eq_nil_of_le (by omega : l.length ≤ max a b)]
  · have ha' : l.length ≤ a := by omega
    rw [Nat.min_eq_right ha', List.take_length, List.take_of_length_le ha',
      List.drop_eq_nil_of_le (by omega : l.length ≤ max l.length (min b l.length)),
      List.drop_eq_nil_of_le (by omega : l.length ≤ max a b)]

@[simp] theorem index_natCast (l : List β) (k : Nat) : Gen.index l (k : Int) = l[k]? := by
  simp [Gen.index]

@[simp] theorem setIndex_natCast (l : List β) (k : Nat) (v : β) :
    GenC.setIndex l (k : Int) v = if k < l.length then some (l.set k v) else none := by
  simp [GenC.setIndex]

theorem int_min_natCast (a b : Nat) : min (a : Int) (b : Int) = ((min a b : Nat) : Int) := by omega

theorem int_max_natCast (a b : Nat) : max (a : Int) (b : Int) = ((max a b : Nat) : Int) := by omega

/-- the rejecting half of an equality theorem: every path of the generated definition on which a draw is not a
value the `random` function can return ends in `none`; what remains are the paths the guard excludes -/
macro "gen_reject" : tactic =>
  `(tactic| (repeat' (first | rfl | (split <;> try simp only [Option.bind_some, Option.bind_none, randint_cons, randrange_cons]))))

theorem range_zero_natCast (n : Nat) : Gen.range 0 (n : Int) = (List.range n).map fun (k : Nat) => (k : Int) := by
  simp [Gen.range]

/-! ### loops: `GenC.forM` over an index list = the model's `foldl` over the indices zipped with the decisions -/

section loops
open C09L
variable [LT ρ] [DecidableLT ρ]

/-- the loop of `cxUniform`: any body `F` that, on a state with a non-empty tape and an index inside both lists, does
what `swapAt2` does when the draw is below `indpb` (the hypothesis the committed theorem proves of the REGENERATED
body), folds like the model -/
theorem cxUniform_loop (indpb : ρ)
    (F : List γ × List γ × GenC.Tape ρ → Int → Option (List γ × List γ × GenC.Tape ρ))
    (hF : ∀ (a b : List γ) (r : ρ) (rs : List ρ) (vs : List Int) (k : Nat), k < a.length → k < b.length →
      F (a, b, ⟨r :: rs, vs⟩) (k : Int) =
        some ((if r < indpb then swapAt2 k (a, b) else (a, b)).1,
              (if r < indpb then swapAt2 k (a, b) else (a, b)).2, ⟨rs, vs⟩)) :
    ∀ (is : List Nat) (a b : List γ) (rs : List ρ) (vs : List Int),
      (∀ k ∈ is, k < a.length ∧ k < b.length) → is.length ≤ rs.length →
      GenC.forM (is.map fun (k : Nat) => (k : Int)) (a, b, (⟨rs, vs⟩ : GenC.Tape ρ)) F =
        some (((is.zip (decisions indpb rs)).foldl
                (fun p (id : Nat × Bool) => if id.2 then swapAt2 id.1 p else p) (a, b)).1,
              ((is.zip (decisions indpb rs)).foldl
                (fun p (id : Nat × Bool) => if id.2 then swapAt2 id.1 p else p) (a, b)).2,
              ⟨rs.drop is.length, vs⟩) := by
  intro is
  induction is with
  | nil => intro a b rs vs _ _; simp [GenC.forM]
  | cons k t ih =>
    intro a b rs vs hk hlen
    cases rs with
    | nil => simp at hlen
    | cons r rs =>
      have hk0 := hk k (by simp)
      simp only [List.map_cons, GenC.forM, hF a b r rs vs k hk0.1 hk0.2, Option.bind_some]
      have hl := swapAt2_length k (a, b)
      by_cases hr : r < indpb
      · simp only [if_pos hr]
        rw [ih _ _ rs vs (by
          intro j hj; have := hk j (by simp [hj]); simp only [hl.1, hl.2]; exact this) (by simpa using hlen)]
        simp [decisions, hr]
      · simp only [if_neg hr]
        rw [ih _ _ rs vs (by intro j hj; exact hk j (by simp [hj])) (by simpa using hlen)]
        simp [decisions, hr]

/-- a loop `for i in …: if random.random() < indpb: <update of one list at i>` over the index list `is`: the fold of the
model's step `g` over the indices zipped with the decisions, consuming one `random()` result per index -/
theorem rnd_loop1 (indpb : ρ) (g : List γ → Nat × Bool → List γ) (hg : ∀ a id, (g a id).length = a.length)
    (F : List γ × GenC.Tape ρ → Int → Option (List γ × GenC.Tape ρ))
    (hF : ∀ (a : List γ) (r : ρ) (rs : List ρ) (vs : List Int) (k : Nat), k < a.length →
      F (a, ⟨r :: rs, vs⟩) (k : Int) = some (g a (k, decide (r < indpb)), ⟨rs, vs⟩)) :
    ∀ (is : List Nat) (a : List γ) (rs : List ρ) (vs : List Int),
      (∀ k ∈ is, k < a.length) → is.length ≤ rs.length →
      GenC.forM (is.map fun (k : Nat) => (k : Int)) (a, (⟨rs, vs⟩ : GenC.Tape ρ)) F =
        some ((is.zip (decisions indpb rs)).foldl g a, ⟨rs.drop is.length, vs⟩) := by
  intro is
  induction is with
  | nil => intro a rs vs _ _; simp [GenC.forM]
  | cons k t ih =>
    intro a rs vs hk hlen
    cases rs with
    | nil => simp at hlen
    | cons r rs =>
      simp only [List.map_cons, GenC.forM, hF a r rs vs k (hk k (by simp)), Option.bind_some]
      rw [ih _ rs vs (by intro j hj; rw [hg]; exact hk j (by simp [hj])) (by simpa using hlen)]
      simp [decisions]

/-- the loop body of the model `CrossMut.mutFlipBit` -/
def flipStep [PyNot γ] (ind : List γ) (id : Nat × Bool) : List γ :=
  if id.2 then
    match ind[id.1]? with
    | some x => ind.set id.1 (PyNot.pyNot x)
    | none => ind
  else ind

theorem mutFlipBit_eq_foldl [PyNot γ] (ind : List γ) (ds : List Bool) :
    CrossMut.mutFlipBit ind ds = ((List.range ind.length).zip ds).foldl flipStep ind := rfl

theorem flipStep_length [PyNot γ] (a : List γ) (id : Nat × Bool) : (flipStep a id).length = a.length := by
  unfold flipStep; split
  · split <;> simp
  · rfl

/-! #### mutShuffleIndexes -/

theorem foldl_shuffleStep_none (size : Nat) (l : List (Nat × Option Nat)) :
    l.foldl (shuffleStep (α := γ) size) none = none := by
  induction l with
  | nil => rfl
  | cons x t ih => simpa [List.foldl, shuffleStep] using ih

theorem pySwap?_length (l out : List γ) (i j : Nat) (h : pySwap? l i j = some out) : out.length = l.length := by
  unfold pySwap? at h
  split at h
  · cases h; simp
  · cases h

theorem shuffleStep_length (size : Nat) (a out : List γ) (id : Nat × Option Nat)
    (h : shuffleStep size (some a) id = some out) : out.length = a.length := by
  rcases id with ⟨k, _ | s⟩
  · simp only [shuffleStep, Option.some.injEq] at h; rw [← h]
  · simp only [shuffleStep] at h
    split at h
    · exact pySwap?_length _ _ _ _ h
    · cases h

/-- the loop of `mutShuffleIndexes` -/
theorem shuffle_loop (size : Nat) (indpb : ρ)
    (F : List γ × GenC.Tape ρ → Int → Option (List γ × GenC.Tape ρ))
    (hskip : ∀ (a : List γ) (r : ρ) (rs : List ρ) (vs : List Int) (k : Nat), ¬ r < indpb →
      F (a, ⟨r :: rs, vs⟩) (k : Int) = some (a, ⟨rs, vs⟩))
    (hsel : ∀ (a : List γ) (r : ρ) (rs : List ρ) (s : Nat) (vs : List Int) (k : Nat), r < indpb →
      a.length = size → k < size →
      F (a, ⟨r :: rs, (s : Int) :: vs⟩) (k : Int) =
        (shuffleStep size (some a) (k, some s)).map fun out => (out, (⟨rs, vs⟩ : GenC.Tape ρ))) :
    ∀ (is : List Nat) (a : List γ) (rs : List ρ) (vs : List Nat), a.length = size → (∀ k ∈ is, k < size) →
      is.length ≤ (drawOpts indpb rs vs).length →
      (GenC.forM (is.map fun (k : Nat) => (k : Int)) (a, (⟨rs, vs.map fun (s : Nat) => (s : Int)⟩ : GenC.Tape ρ)) F).map Prod.fst =
        (is.zip (drawOpts indpb rs vs)).foldl (shuffleStep size) (some a) := by
  intro is
  induction is with
  | nil => intro a rs vs _ _ _; simp [GenC.forM]
  | cons k t ih =>
    intro a rs vs ha hk hlen
    cases rs with
    | nil => simp [drawOpts] at hlen
    | cons r rs =>
      by_cases hr : r < indpb
      · cases vs with
        | nil => simp [drawOpts, hr] at hlen
        | cons s vs =>
          simp only [drawOpts, if_pos hr, List.length_cons, Nat.add_le_add_iff_right] at hlen
          simp only [List.map_cons, GenC.forM, hsel a r rs s _ k hr ha (hk k (by simp)), drawOpts, if_pos hr,
            List.zip_cons_cons, List.foldl_cons]
          cases hst : shuffleStep size (some a) (k, some s) with
          | none => simp [foldl_shuffleStep_none]
          | some out =>
            simp only [Option.map_some, Option.bind_some]
            exact ih out rs vs ((shuffleStep_length _ _ _ _ hst).trans ha) (fun j hj => hk j (by simp [hj])) hlen
      · simp only [drawOpts, if_neg hr, List.length_cons, Nat.add_le_add_iff_right] at hlen
        simp only [List.map_cons, GenC.forM, hskip a r rs _ k hr, drawOpts, if_neg hr, List.zip_cons_cons,
          List.foldl_cons, Option.bind_some]
        have : shuffleStep size (some a) (k, none) = some a := rfl
        rw [this]
        exact ih a rs vs ha (fun j hj => hk j (by simp [hj])) hlen

theorem bind_some_fst {A B : Type} (X : Option (A × B)) :
    (Option.bind X fun s => some (s.1, s.2)).map Prod.fst = X.map Prod.fst := by cases X <;> rfl

end loops

end GenCL
