/-
C07 — the "archive too large" branch of `selSPEA2` when computed squared distances may have
overflowed to `float("inf")` (`dist0V`, `toRemoveV`, `truncateV`, `selSPEA2V`).

With `inf` among the computed entries a surviving row can tie with a removed (all-`inf`) row, so
`min_pos` may stay at its initial value 0 although position 0 was removed before: `to_remove` may
repeat position 0 — and only position 0, because `min_pos` moves to a row only when that row wins a
strict comparison, which an all-`inf` row never does.  The deletion loop
`for index in reversed(sorted(to_remove)): del chosen_indices[index]` deletes position by position,
so every repeated 0 removes one further element: the result still has exactly `k` elements.
-/
import DeapModel.Lemmas.C07Spea2

set_option linter.unusedSectionVars false
set_option linter.unusedVariables false

namespace C07L
open Spea2

section Ovf
variable {α : Type} [LT α] [DecidableLT α]

/-- the state of the truncation loop without any assumption on the computed entries: `R` = the
positions appended to `to_remove` so far (position 0 possibly several times). -/
structure TInvV (N size : Nat) (dist : Mat (DVal α)) (sorted : Mat Nat) (R : List Nat) : Prop where
  rowInf : ∀ r ∈ R, ∀ x, x < N → look2 dist r x = DVal.inf
  inj : ∀ i, i < N → ∀ p q, p < N → q < N → look2 sorted i p = look2 sorted i q → p = q
  live : ∀ i, i < N → ∀ p, 1 ≤ p → p < size → look2 sorted i p < N
  lt : ∀ r ∈ R, r < N
  nz : (R.filter (fun r => decide (r ≠ 0))).Nodup
  card : R.length + size = N

/-- `min_pos` is a valid position, and a position removed before can only be returned as the
initial value 0 that no row displaced. -/
theorem minPos_V (N size : Nat) (dist : Mat (DVal α)) (sorted : Mat Nat) (R : List Nat)
    (inv : TInvV N size dist sorted R) (hsize : 2 ≤ size) :
    minPos dist sorted N size < N ∧ (minPos dist sorted N size ∈ R → minPos dist sorted N size = 0) := by
  have hN : 1 ≤ N := by have := inv.card; omega
  have h := forRange_inv
    (fun _ (mp : Nat) => mp < N ∧ (mp ∈ R → mp = 0))
    (fun i mp => innerCmp dist sorted i mp 1 (size - 1)) (N - 1) 1 0
    ⟨by omega, fun _ => rfl⟩
    (by
      intro i mp h1 h2 ⟨hmpN, hmp⟩
      have hiN : i < N := by omega
      rcases innerCmp_cases dist sorted i mp (size - 1) 1 with h | ⟨h, j', hj1, hj2, hlt⟩
      · simp only [h]; exact ⟨hmpN, hmp⟩
      · simp only [h]
        refine ⟨hiN, fun hiR => ?_⟩
        have : look2 dist i (look2 sorted i j') = DVal.inf :=
          inv.rowInf i hiR _ (inv.live i hiN j' (by omega) (by omega))
        rw [this, inf_lt] at hlt
        exact absurd hlt Bool.false_ne_true)
  exact h

theorem TInvV_step (N size : Nat) (dist : Mat (DVal α)) (sorted : Mat Nat) (R : List Nat)
    (inv : TInvV N size dist sorted R) (hsize : 2 ≤ size) :
    TInvV N (size - 1) (overwrite dist N (minPos dist sorted N size))
      (shuffleRows sorted N size (minPos dist sorted N size)) (R ++ [minPos dist sorted N size]) := by
  obtain ⟨hmN, hmR⟩ := minPos_V N size dist sorted R inv hsize
  generalize minPos dist sorted N size = mp at hmN hmR
  have hszN : size ≤ N := by have := inv.card; omega
  have hb : ∀ i, i < N → _ := fun i hi =>
    bubble_spec mp size N (sorted.getD i []) (fun v => v < N) hszN
      (fun p q hp hq he => inv.inj i hi p q hp hq he) (fun p h1 h2 => inv.live i hi p h1 h2)
  constructor
  · intro r hr x hx
    have hrN : r < N := by
      rcases List.mem_append.1 hr with h | h
      · exact inv.lt r h
      · simp at h; omega
    rw [look2_overwrite dist N mp r x hrN hx]
    split
    · rfl
    · next hne =>
      rcases List.mem_append.1 hr with h | h
      · exact inv.rowInf r h x hx
      · simp at h; omega
  · intro i hi p q hp hq
    rw [look2_shuffleRows sorted N size mp i p hi, look2_shuffleRows sorted N size mp i q hi]
    exact (hb i hi).1 p q hp hq
  · intro i hi p h1 h2
    rw [look2_shuffleRows sorted N size mp i p hi]
    exact (hb i hi).2.1 p h1 (by omega)
  · intro r hr
    rcases List.mem_append.1 hr with h | h
    · exact inv.lt r h
    · simp at h; omega
  · rw [List.filter_append]
    by_cases h0 : mp = 0
    · subst h0; simpa using inv.nz
    · have hnR : mp ∉ R := fun h => h0 (hmR h)
      have : [mp].filter (fun r => decide (r ≠ 0)) = [mp] := by simp [h0]
      rw [this]
      refine List.nodup_append.2 ⟨inv.nz, by simp, ?_⟩
      intro a ha b hb hab
      simp at hb; subst hb; subst hab
      exact hnR (List.mem_filter.1 ha).1
  · have := inv.card; simp; omega

theorem TInvV_init (D : Nat → Nat → DVal α) (N : Nat) (hN : 1 ≤ N) :
    TInvV N N (dist0V D N) (sorted0 (dist0V D N) N) [] := by
  have hs : ∀ i, i < N → ∀ p, look2 (sorted0 (dist0V D N) N) i p =
      look (sortRow (fun a b => (look2 (dist0V D N) i a).lt (look2 (dist0V D N) i b)) N) p := by
    intro i hi p; unfold sorted0; rw [look2_tab N _ i p hi]
  constructor
  · intro r hr; simp at hr
  · intro i hi p q hp hq
    rw [hs i hi p, hs i hi q]
    exact (sortRow_good _ N hN).2 p q hp hq
  · intro i hi p h1 h2
    rw [hs i hi p]
    exact (sortRow_good _ N hN).1 p h2
  · intro r hr; simp at hr
  · simp
  · simp

theorem truncLoop_specV (N k : Nat) (hk : 1 ≤ k) :
    ∀ (n : Nat) (dist : Mat (DVal α)) (sorted : Mat Nat) (R : List Nat),
      TInvV N (k + n) dist sorted R →
      ((truncLoop N k n dist sorted R).filter (fun r => decide (r ≠ 0))).Nodup ∧
      (∀ r ∈ truncLoop N k n dist sorted R, r < N) ∧
      (truncLoop N k n dist sorted R).length = R.length + n := by
  intro n
  induction n with
  | zero => intro dist sorted R inv; exact ⟨inv.nz, inv.lt, rfl⟩
  | succ n ih =>
    intro dist sorted R inv
    have st := TInvV_step N (k + (n + 1)) dist sorted R inv (by omega)
    have e : k + (n + 1) - 1 = k + n := by omega
    rw [e] at st
    obtain ⟨a, b, c⟩ := ih _ _ _ st
    unfold truncLoop
    refine ⟨a, b, ?_⟩
    rw [c]; simp; omega

/-- `to_remove` for arbitrary computed entries: `N - k` positions `< N`, pairwise distinct except
that position 0 may be repeated. -/
theorem toRemoveV_spec (D : Nat → Nat → DVal α) (N k : Nat) (hk : 1 ≤ k) (hkN : k ≤ N) :
    ((toRemoveV D N k).filter (fun r => decide (r ≠ 0))).Nodup ∧ (∀ r ∈ toRemoveV D N k, r < N) ∧
    (toRemoveV D N k).length = N - k := by
  have inv := TInvV_init D N (by omega)
  have e : N = k + (N - k) := by omega
  have := truncLoop_specV N k hk (N - k) (dist0V D N) (sorted0 (dist0V D N) N) []
    (by rw [← e]; exact inv)
  simpa [toRemoveV] using this

/-- without overflow the `V` model is the original one -/
theorem toRemoveV_fin (D : Nat → Nat → α) (N k : Nat) :
    toRemoveV (fun i j => DVal.fin (D i j)) N k = toRemove D N k := rfl

end Ovf

/-! ### the deletion loop with a repeated position 0 -/

/-- `del l[i]` for a weakly descending list of positions in which only 0 may repeat: every deletion
is in range and removes one element. -/
theorem foldl_eraseIdx_length_dup (desc : List Nat) : ∀ (l : List Nat),
    desc.Pairwise (· ≥ ·) → (∀ i ∈ desc, i < l.length) →
    (desc.filter (fun r => decide (r ≠ 0))).Nodup → desc.length ≤ l.length →
    (desc.foldl (fun l i => l.eraseIdx i) l).length = l.length - desc.length := by
  induction desc with
  | nil => intro l _ _ _ _; simp
  | cons a t ih =>
    intro l hp hlt hnz hlen
    have ha : a < l.length := hlt a (by simp)
    rw [List.pairwise_cons] at hp
    have hl : (l.eraseIdx a).length = l.length - 1 := by rw [List.length_eraseIdx, if_pos ha]
    simp only [List.length_cons] at hlen
    have hnzt : (t.filter (fun r => decide (r ≠ 0))).Nodup := by
      by_cases h0 : a = 0
      · subst h0; simpa using hnz
      · have : (a :: t).filter (fun r => decide (r ≠ 0)) = a :: t.filter (fun r => decide (r ≠ 0)) := by
          simp [h0]
        rw [this] at hnz
        exact (List.nodup_cons.1 hnz).2
    rw [List.foldl_cons, ih (l.eraseIdx a) hp.2 (by
      intro i hi
      have hia := hp.1 i hi
      rw [hl]
      by_cases h0 : a = 0
      · subst h0
        have : i = 0 := by omega
        subst this
        have : 1 ≤ t.length := List.length_pos_of_mem hi
        omega
      · have : (a :: t).filter (fun r => decide (r ≠ 0)) = a :: t.filter (fun r => decide (r ≠ 0)) := by
          simp [h0]
        rw [this] at hnz
        have hne : i ≠ a := by
          intro h; subst h
          exact (List.nodup_cons.1 hnz).1 (List.mem_filter.2 ⟨hi, by simp [h0]⟩)
        omega) hnzt (by rw [hl]; omega), hl]
    simp; omega

theorem delDesc_spec_dup (chosen rem : List Nat)
    (hnz : (rem.filter (fun r => decide (r ≠ 0))).Nodup) (hlt : ∀ r ∈ rem, r < chosen.length)
    (hlen : rem.length ≤ chosen.length) :
    (delDesc chosen rem).length = chosen.length - rem.length ∧ (delDesc chosen rem).Sublist chosen := by
  unfold delDesc
  set srt := rem.mergeSort (fun a b => decide (a ≤ b)) with hsrt
  have hperm : srt.Perm rem := List.mergeSort_perm _ _
  have hpw : srt.Pairwise (fun a b => a ≤ b) := by
    have := List.pairwise_mergeSort (le := fun a b : Nat => decide (a ≤ b))
      (by intro a b c; simp; omega) (by intro a b; simp; omega) rem
    simpa using this
  have hrev : srt.reverse.Pairwise (· ≥ ·) := by
    rw [List.pairwise_reverse]; exact hpw
  have hnz' : (srt.reverse.filter (fun r => decide (r ≠ 0))).Nodup := by
    have hp : (srt.reverse.filter (fun r => decide (r ≠ 0))).Perm (rem.filter (fun r => decide (r ≠ 0))) :=
      ((List.reverse_perm srt).trans hperm).filter _
    exact hp.nodup_iff.2 hnz
  refine ⟨?_, foldl_eraseIdx_sublist _ _⟩
  rw [foldl_eraseIdx_length_dup srt.reverse chosen hrev (by
    intro i hi; exact hlt i (hperm.subset (List.mem_reverse.1 hi))) hnz' (by
    rw [List.length_reverse, hperm.length_eq]; exact hlen)]
  rw [List.length_reverse, hperm.length_eq]

/-! ### the whole function with possibly overflowed distances -/

section SelV
variable {α : Type} [DecidableEq α] [LT α] [DecidableLT α]

theorem truncateV_spec (D : Nat → Nat → DVal α) (k : Nat) (chosen : List Nat) (hk : 1 ≤ k)
    (hkc : k ≤ chosen.length) :
    (truncateV D k chosen).length = k ∧ (truncateV D k chosen).Sublist chosen := by
  unfold truncateV
  obtain ⟨h1, h2, h3⟩ :=
    toRemoveV_spec (fun a b => D (chosen.getD a 0) (chosen.getD b 0)) chosen.length k hk hkc
  obtain ⟨a, b⟩ := delDesc_spec_dup chosen _ h1 h2 (by rw [h3]; omega)
  refine ⟨?_, b⟩
  rw [a, h3]; omega

variable (dom : Nat → Nat → Bool) (N k : Nat) (fits : Nat → α) (D : Nat → Nat → DVal α)

theorem selSPEA2V_fin (D : Nat → Nat → α) :
    selSPEA2V dom N k fits (fun i j => DVal.fin (D i j)) = selSPEA2 dom N k fits D := rfl

theorem selSPEA2V_length (hk : 1 ≤ k) (hkN : k ≤ N) : (selSPEA2V dom N k fits D).length = k := by
  unfold selSPEA2V
  simp only []
  split
  · next h =>
    exact (fill_spec N fits k _ (chosen0_nodup dom N) (chosen0_lt dom N) hkN (by omega)).1
  · split
    · next h => exact (truncateV_spec D k _ hk (by omega)).1
    · omega

theorem selSPEA2V_nodup (hk : 1 ≤ k) (hkN : k ≤ N) :
    (selSPEA2V dom N k fits D).Nodup ∧ ∀ i ∈ selSPEA2V dom N k fits D, i < N := by
  unfold selSPEA2V
  simp only []
  split
  · next h =>
    have := fill_spec N fits k _ (chosen0_nodup dom N) (chosen0_lt dom N) hkN (by omega)
    exact ⟨this.2.1, this.2.2.1⟩
  · split
    · next h =>
      have := (truncateV_spec D k (chosen0 dom N) hk (by omega)).2
      exact ⟨this.nodup (chosen0_nodup dom N), fun i hi => chosen0_lt dom N i (this.subset hi)⟩
    · exact ⟨chosen0_nodup dom N, chosen0_lt dom N⟩

theorem selSPEA2V_all_nd (hasym : ∀ i j, dom i j = true → dom j i = false)
    (hk : 1 ≤ k) (hkN : k ≤ N) (hfew : (chosen0 dom N).length ≤ k) :
    ∀ i, i < N → NonDom dom N i → i ∈ selSPEA2V dom N k fits D := by
  intro i hi hnd
  have hc : i ∈ chosen0 dom N := (mem_chosen0 dom N hasym i).2 ⟨hi, hnd⟩
  unfold selSPEA2V
  simp only []
  split
  · next h =>
    exact (fill_spec N fits k _ (chosen0_nodup dom N) (chosen0_lt dom N) hkN (by omega)).2.2.2 i hc
  · split
    · omega
    · exact hc

theorem selSPEA2V_only_nd (hasym : ∀ i j, dom i j = true → dom j i = false)
    (hk : 1 ≤ k) (hmany : k ≤ (chosen0 dom N).length) :
    ∀ i ∈ selSPEA2V dom N k fits D, NonDom dom N i := by
  intro i hi
  unfold selSPEA2V at hi
  simp only [] at hi
  split at hi
  · omega
  · split at hi
    · next h =>
      have := (truncateV_spec D k (chosen0 dom N) hk (by omega)).2
      exact ((mem_chosen0 dom N hasym i).1 (this.subset hi)).2
    · exact ((mem_chosen0 dom N hasym i).1 hi).2

end SelV

end C07L
