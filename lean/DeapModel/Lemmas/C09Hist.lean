/-
Helper lemmas for C09, histories: on the machine `OpHistory` (`Core/CrossMutBuf.lean`), whose state is
nothing but the heaps of sequence objects, a call whose arguments meet the hypotheses of the statement NOW
completes and leaves in its arguments what the list model `Core/CrossMut.lean` computes from their CURRENT
contents — in whatever state the machine is.
-/
import DeapModel.Lemmas.C09BufferOps

set_option linter.unusedSectionVars false
set_option linter.unusedSimpArgs false
set_option linter.unusedVariables false
set_option linter.unnecessarySeqFocus false

namespace C09H
open Buffer OpHistory C09B
open CrossMut hiding Heap

variable {α : Type}

/-- the caller's other objects (those that existed before the call) keep their contents -/
def Kept2 (i1 i2 : Nat) (h h' : Heap α) : Prop := ∀ o, o < h.next → o ≠ i1 → o ≠ i2 → h'.cell o = h.cell o

def Kept1 (i : Nat) (h h' : Heap α) : Prop := ∀ o, o < h.next → o ≠ i → h'.cell o = h.cell o

theorem Frame2.kept {i1 i2 : Nat} {h h' : Heap α} (f : Frame2 i1 i2 h h') : Kept2 i1 i2 h h' := fun o _ a b => f.1 o a b
theorem Frame2A.kept {i1 i2 : Nat} {h h' : Heap α} (f : Frame2A i1 i2 h h') : Kept2 i1 i2 h h' := f.1
theorem Frame1.kept {i : Nat} {h h' : Heap α} (f : Frame1 i h h') : Kept1 i h h' := fun o _ a => f.1 o a

/-- the hypotheses of the statement for a generic operator, read on the contents the objects have NOW
(the slice-swapping crossovers: list / array.array individuals, i.e. discipline `copy`) -/
def GenValid (d : Disc) (h : Heap α) : Gen → Prop
  | .onepoint i1 i2 _ => d = .copy ∧ i1 ≠ i2 ∧ i1 < h.next ∧ i2 < h.next
  | .twopoint i1 i2 _ _ => d = .copy ∧ i1 ≠ i2 ∧ i1 < h.next ∧ i2 < h.next
  | .twopoints i1 i2 _ _ => d = .copy ∧ i1 ≠ i2 ∧ i1 < h.next ∧ i2 < h.next
  | .messy i1 i2 _ _ => d = .copy ∧ i1 ≠ i2 ∧ i1 < h.next ∧ i2 < h.next
  | .uniform i1 i2 _ => i1 ≠ i2
  | .shuffle i ds => mutShuffleIndexesOk (h.cell i) ds
  | .flip _ _ => True
  | .inversion i i1 i2 => i < h.next ∧ mutInversionOk (h.cell i) i1 i2

/-- the list model applied to the contents the arguments had when the call was made -/
def GenPost [PyNot α] (h h' : Heap α) (ret : List Nat) : Gen → Prop
  | .onepoint i1 i2 cx => ret = [i1, i2] ∧ (h'.cell i1, h'.cell i2) = cxOnePoint (h.cell i1) (h.cell i2) cx ∧ Kept2 i1 i2 h h'
  | .twopoint i1 i2 c1 c2 =>
    ret = [i1, i2] ∧ (h'.cell i1, h'.cell i2) = cxTwoPoint (h.cell i1) (h.cell i2) c1 c2 ∧ Kept2 i1 i2 h h'
  | .twopoints i1 i2 c1 c2 =>
    ret = [i1, i2] ∧ (h'.cell i1, h'.cell i2) = cxTwoPoints (h.cell i1) (h.cell i2) c1 c2 ∧ Kept2 i1 i2 h h'
  | .messy i1 i2 c1 c2 =>
    ret = [i1, i2] ∧ (h'.cell i1, h'.cell i2) = cxMessyOnePoint (h.cell i1) (h.cell i2) c1 c2 ∧ Kept2 i1 i2 h h'
  | .uniform i1 i2 ds => ret = [i1, i2] ∧ (h'.cell i1, h'.cell i2) = cxUniform (h.cell i1) (h.cell i2) ds ∧ Kept2 i1 i2 h h'
  | .shuffle i ds => ret = [i] ∧ mutShuffleIndexes (h.cell i) ds = some (h'.cell i) ∧ Kept1 i h h'
  | .flip i ds => ret = [i] ∧ h'.cell i = mutFlipBit (h.cell i) ds ∧ Kept1 i h h'
  | .inversion i i1 i2 => ret = [i] ∧ h'.cell i = mutInversion (h.cell i) i1 i2 ∧ Kept1 i h h'

theorem pair_ok {m : M α (Nat × Nat)} {h h' : Heap α} {r : Nat × Nat} (e : m h = .ok r h') :
    pair m h = .ok [r.1, r.2] h' := by
  unfold pair; rw [e]

theorem single_ok {m : M α Nat} {h h' : Heap α} {r : Nat} (e : m h = .ok r h') : single m h = .ok [r] h' := by
  unfold single; rw [e]

theorem gen_determined [PyNot α] (d : Disc) (h : Heap α) (g : Gen) (hv : GenValid d h g) :
    ∃ ret h', g.run d h = .ok ret h' ∧ GenPost h h' ret g := by
  cases g with
  | onepoint i1 i2 cx =>
    obtain ⟨hd, hne, h1, h2⟩ := hv; subst hd
    obtain ⟨h', e, c, fr⟩ := onepoint_copy_sim i1 i2 hne h h1 h2 cx
    exact ⟨_, h', pair_ok e, rfl, c, Frame2A.kept fr⟩
  | twopoint i1 i2 c1 c2 =>
    obtain ⟨hd, hne, h1, h2⟩ := hv; subst hd
    obtain ⟨h', e, c, fr⟩ := twopoint_copy_sim i1 i2 hne h h1 h2 c1 c2
    exact ⟨_, h', pair_ok e, rfl, c, Frame2A.kept fr⟩
  | twopoints i1 i2 c1 c2 =>
    obtain ⟨hd, hne, h1, h2⟩ := hv; subst hd
    obtain ⟨h', e, c, fr⟩ := twopoint_copy_sim i1 i2 hne h h1 h2 c1 c2
    exact ⟨_, h', pair_ok (m := CrossMutBuf.cxTwoPoints .copy i1 i2 c1 c2) e, rfl, c, Frame2A.kept fr⟩
  | messy i1 i2 c1 c2 =>
    obtain ⟨hd, hne, h1, h2⟩ := hv; subst hd
    obtain ⟨h', e, c, fr⟩ := messy_copy_sim i1 i2 hne h h1 h2 c1 c2
    exact ⟨_, h', pair_ok e, rfl, c, Frame2A.kept fr⟩
  | uniform i1 i2 ds =>
    obtain ⟨h', e, c, fr⟩ := uniform_sim d i1 i2 hv ds h
    exact ⟨_, h', pair_ok e, rfl, c, Frame2.kept fr⟩
  | shuffle i ds =>
    obtain ⟨h', e, c, fr⟩ := shuffle_sim d i ds h hv
    exact ⟨_, h', single_ok e, rfl, c, Frame1.kept fr⟩
  | flip i ds =>
    obtain ⟨h', e, c, fr⟩ := flip_sim d i ds h
    exact ⟨_, h', single_ok e, rfl, c, Frame1.kept fr⟩
  | inversion i i1 i2 =>
    obtain ⟨hlt, hok⟩ := hv
    cases d with
    | copy =>
      obtain ⟨h', e, c, fr, _⟩ := inversion_copy_sim i h hlt i1 i2
      exact ⟨_, h', single_ok e, rfl, c, fr⟩
    | view =>
      obtain ⟨h', e, c, fr, _⟩ := inversion_view_sim i h i1 i2 hok
      exact ⟨_, h', single_ok e, rfl, c, fun o _ a => fr o a⟩

/-- the hypotheses of the statement for a call, read on the contents the objects have NOW (`False` for the
events that are not calls of an operator) -/
def Valid (st : State) : Event → Prop
  | .permOp d g => GenValid d st.perm g
  | .geneOp d g => GenValid d st.gene g
  | .pmx _ i1 i2 c1 c2 => i1 ≠ i2 ∧ cxPartialyMatchedOk (st.perm.cell i1) (st.perm.cell i2) c1 c2
  | .upmx _ i1 i2 _ => i1 ≠ i2 ∧ pmGenesOk (st.perm.cell i1) (st.perm.cell i2)
  | .ox _ i1 i2 a b => i1 ≠ i2 ∧ cxOrderedOk (st.perm.cell i1) (st.perm.cell i2) a b
  | .uniformint _ i low up ds => ∃ out, mutUniformInt (st.gene.cell i) (low.now st) (up.now st) ds = some out
  | .es dg ds i1 i2 s1 s2 _ _ =>
    dg = .copy ∧ ds = .copy ∧ i1 ≠ i2 ∧ s1 ≠ s2 ∧ i1 < st.gene.next ∧ i2 < st.gene.next ∧ s1 < st.strat.next ∧ s2 < st.strat.next
  | .ess dg ds i1 i2 s1 s2 _ _ =>
    dg = .copy ∧ ds = .copy ∧ i1 ≠ i2 ∧ s1 ≠ s2 ∧ i1 < st.gene.next ∧ i2 < st.gene.next ∧ s1 < st.strat.next ∧ s2 < st.strat.next
  | _ => False

/-- what the call leaves: the list model applied to the contents the arguments (and the bound objects) had
when the call was made; every other object of the caller as it was -/
def Post (st : State) (ret : List Nat) (st' : State) : Event → Prop
  | .permOp _ g => GenPost st.perm st'.perm ret g ∧ st'.gene = st.gene ∧ st'.strat = st.strat
  | .geneOp _ g => GenPost st.gene st'.gene ret g ∧ st'.perm = st.perm ∧ st'.strat = st.strat
  | .pmx _ i1 i2 c1 c2 =>
    ret = [i1, i2] ∧ (st'.perm.cell i1, st'.perm.cell i2) = cxPartialyMatched (st.perm.cell i1) (st.perm.cell i2) c1 c2 ∧
      Kept2 i1 i2 st.perm st'.perm ∧ st'.gene = st.gene ∧ st'.strat = st.strat
  | .upmx _ i1 i2 ds =>
    ret = [i1, i2] ∧ (st'.perm.cell i1, st'.perm.cell i2) = cxUniformPartialyMatched (st.perm.cell i1) (st.perm.cell i2) ds ∧
      Kept2 i1 i2 st.perm st'.perm ∧ st'.gene = st.gene ∧ st'.strat = st.strat
  | .ox _ i1 i2 a b =>
    ret = [i1, i2] ∧ (st'.perm.cell i1, st'.perm.cell i2) = cxOrdered (st.perm.cell i1) (st.perm.cell i2) a b ∧
      Kept2 i1 i2 st.perm st'.perm ∧ st'.gene = st.gene ∧ st'.strat = st.strat
  | .uniformint _ i low up ds =>
    ret = [i] ∧ mutUniformInt (st.gene.cell i) (low.now st) (up.now st) ds = some (st'.gene.cell i) ∧
      Kept1 i st.gene st'.gene ∧ st'.perm = st.perm ∧ st'.strat = st.strat
  | .es _ _ i1 i2 s1 s2 p1 p2 =>
    ret = [i1, i2] ∧
      ((⟨st'.gene.cell i1, st'.strat.cell s1⟩ : ESInd Int Int), (⟨st'.gene.cell i2, st'.strat.cell s2⟩ : ESInd Int Int))
        = cxESTwoPoint ⟨st.gene.cell i1, st.strat.cell s1⟩ ⟨st.gene.cell i2, st.strat.cell s2⟩ p1 p2 ∧
      Kept2 i1 i2 st.gene st'.gene ∧ Kept2 s1 s2 st.strat st'.strat ∧ st'.perm = st.perm
  | .ess _ _ i1 i2 s1 s2 p1 p2 =>
    ret = [i1, i2] ∧
      ((⟨st'.gene.cell i1, st'.strat.cell s1⟩ : ESInd Int Int), (⟨st'.gene.cell i2, st'.strat.cell s2⟩ : ESInd Int Int))
        = cxESTwoPoints ⟨st.gene.cell i1, st.strat.cell s1⟩ ⟨st.gene.cell i2, st.strat.cell s2⟩ p1 p2 ∧
      Kept2 i1 i2 st.gene st'.gene ∧ Kept2 s1 s2 st.strat st'.strat ∧ st'.perm = st.perm
  | _ => False

theorem onPerm_ok {m : M Nat (List Nat)} {st : State} {v : List Nat} {h : Heap Nat} (e : m st.perm = .ok v h) :
    onPerm m st = (.ok v, { st with perm := h }) := by
  unfold onPerm; rw [e]

theorem onGene_ok {m : M Int (List Nat)} {st : State} {v : List Nat} {h : Heap Int} (e : m st.gene = .ok v h) :
    onGene m st = (.ok v, { st with gene := h }) := by
  unfold onGene; rw [e]

theorem call_determined (st : State) (e : Event) (hv : Valid st e) :
    ∃ ret st', step st e = (.ok ret, st') ∧ Post st ret st' e := by
  cases e with
  | permOp d g =>
    obtain ⟨ret, h', e, p⟩ := gen_determined d st.perm g hv
    exact ⟨ret, _, onPerm_ok e, p, rfl, rfl⟩
  | geneOp d g =>
    obtain ⟨ret, h', e, p⟩ := gen_determined d st.gene g hv
    exact ⟨ret, _, onGene_ok e, p, rfl, rfl⟩
  | pmx d i1 i2 c1 c2 =>
    obtain ⟨h', e, c, fr⟩ := pmx_sim d i1 i2 hv.1 st.perm c1 c2 hv.2
    exact ⟨_, _, onPerm_ok (pair_ok e), rfl, c, Frame2.kept fr, rfl, rfl⟩
  | upmx d i1 i2 ds =>
    obtain ⟨h', e, c, fr⟩ := upmx_sim d i1 i2 hv.1 st.perm ds hv.2
    exact ⟨_, _, onPerm_ok (pair_ok e), rfl, c, Frame2.kept fr, rfl, rfl⟩
  | ox d i1 i2 a b =>
    obtain ⟨h', e, c, fr⟩ := ox_sim d i1 i2 hv.1 st.perm a b hv.2
    exact ⟨_, _, onPerm_ok (pair_ok e), rfl, c, Frame2.kept fr, rfl, rfl⟩
  | uniformint d i low up ds =>
    obtain ⟨out, hm⟩ := hv
    obtain ⟨h', e, c, fr⟩ := uniformInt_sim d i (low.now st) (up.now st) ds st.gene out hm
    refine ⟨_, _, onGene_ok (single_ok e), rfl, ?_, Frame1.kept fr, rfl, rfl⟩
    show mutUniformInt (st.gene.cell i) (low.now st) (up.now st) ds = some (h'.cell i)
    rw [c]; exact hm
  | es dg ds i1 i2 s1 s2 p1 p2 =>
    obtain ⟨hg, hs, hne, hns, a1, a2, a3, a4⟩ := hv; subst hg; subst hs
    obtain ⟨h', e, c, f1, f2⟩ := es_copy_sim i1 i2 s1 s2 hne hns (st.gene, st.strat) a1 a2 a3 a4 p1 p2
    refine ⟨[i1, i2], { st with gene := h'.1, strat := h'.2 }, ?_, rfl, c, Frame2A.kept f1, Frame2A.kept f2, rfl⟩
    have hs : step st (.es .copy .copy i1 i2 s1 s2 p1 p2) = onES (CrossMutBuf.cxESTwoPoint .copy .copy i1 i2 s1 s2 p1 p2) st := rfl
    rw [hs]; unfold onES; rw [e]
  | ess dg ds i1 i2 s1 s2 p1 p2 =>
    obtain ⟨hg, hs, hne, hns, a1, a2, a3, a4⟩ := hv; subst hg; subst hs
    obtain ⟨h', e, c, f1, f2⟩ := es_copy_sim i1 i2 s1 s2 hne hns (st.gene, st.strat) a1 a2 a3 a4 p1 p2
    refine ⟨[i1, i2], { st with gene := h'.1, strat := h'.2 }, ?_, rfl, c, Frame2A.kept f1, Frame2A.kept f2, rfl⟩
    have hs : step st (.ess .copy .copy i1 i2 s1 s2 p1 p2) = onES (CrossMutBuf.cxESTwoPoint .copy .copy i1 i2 s1 s2 p1 p2) st := rfl
    rw [hs]; unfold onES; rw [e]
  | refused _ => exact hv.elim
  | storeP _ _ => exact hv.elim
  | storeG _ _ => exact hv.elim
  | storeS _ _ => exact hv.elim
  | newP _ => exact hv.elim
  | newG _ => exact hv.elim
  | newS _ => exact hv.elim

theorem run_append (h1 h2 : List Event) (st : State) : run (h1 ++ h2) st = run h2 (run h1 st) := by
  unfold run; rw [List.foldl_append]

end C09H
