/-
C03 — translator tie, helper lemmas (built by lake because Props/C03.lean imports this file).

The translator `harness/py2lean_c03.py` renders `deap/algorithms.py` `eaSimple` / `eaMuPlusLambda` / `eaMuCommaLambda` as
state-passing actions over the prelude `Core/GenPreludeC03.lean`.  Here: the CANONICAL renderings (`eaSimpleCanon`, … : what the
translator produces from the source as it is, with the loop bodies named) and the proofs that they are the hand-written model of
`Core/Loops.lean` (`Loops.eaSimple` … = `gen0` + `runGens` over `generation` with the loop's `Step`) on the decision records the
model's own decoders (`decodeAnd` / `decodeOr`) read off the recorded draws.  The committed theorems of `GenEq/C03.lean.tmpl` show
`Gen.<f> = <f>Canon` for the regenerated text and transfer.
-/
import DeapModel.Lemmas.C02Gen
import DeapModel.Core.GenPreludeC03

set_option linter.unusedSimpArgs false

namespace GenLL
open Variation Loops GenL

variable {σ β γ : Type}

@[simp] theorem bind_apply (m : M σ β) (k : β → M σ γ) (g : LSt σ) :
    GenL.bind m k g = match m g with | none => none | some (x, g1) => k x g1 := rfl
@[simp] theorem pure_apply (x : β) (g : LSt σ) : (GenL.pure x : M σ β) g = some (x, g) := rfl

/-- the model's view of a state of the rendering: `pop` = the content of the caller's list -/
def toLS (x : LSt σ) (pop : List Nat) : LState := ⟨x.st, pop, x.log, x.shown, x.shownObj, x.evals⟩

/-- what the model sees of a finished run: operators' state and `LState` -/
def proj (r : List Nat × LSt σ) : σ × LState := (r.2.tape, toLS r.2 r.1)

def ofLS (t : σ) (s : LState) (g : Nat) (cur : GRec) (recs : List GRec) : LSt σ :=
  ⟨t, s.st, s.log, s.shown, s.shownObj, s.evals, g, cur, recs⟩

theorem zipAssign_map (ev : List Int → List Int) : ∀ (l : List Nat) (h h0 : Heap),
    (∀ o, (h o).genome = (h0 o).genome) →
    zipAssign h l (l.map fun o => ev (h0 o).genome) = assignFits ev h l
  | [], _, _, _ => rfl
  | o :: os, h, h0, hg => by
    simp only [List.map_cons, zipAssign, assignFits, ← hg o]
    apply zipAssign_map ev os
    intro p
    simp only [Heap.set]
    split
    · rename_i hp; subst hp; exact hg p
    · exact hg p

/-- the evaluation block of the four loops (`invalid_ind = […]`, `toolbox.map(toolbox.evaluate, …)`, the `zip` loop,
`halloffame.update`) is the model's `evalPhase` -/
def afterEval (ev : List Int → List Int) (x : LSt σ) (l : List Nat) : LSt σ :=
  let e := evalPhase ev false x.gen (toLS x []) l
  { x with st := e.1.st, shown := e.1.shown, shownObj := e.1.shownObj, evals := e.1.evals }

theorem evalBlock_apply (ev : List Int → List Int) (l : List Nat) (k : List Nat → M σ β) (x : LSt σ) :
    (GenL.bind (GenL.invalid l) fun inv =>
     GenL.bind (GenL.mapEvaluate ev inv) fun fs =>
     GenL.bind (GenL.assignZip inv fs) fun _ =>
     GenL.bind (GenL.when true (GenL.bind (GenL.hofUpdate l) fun _ => GenL.pure ())) fun _ => k inv) x
      = k (invalidOf x.st.heap l) (afterEval ev x l) := by
  simp only [bind_apply, GenL.invalid, GenL.mapEvaluate, GenL.assignZip, GenL.when, GenL.hofUpdate, if_true,
    zipAssign_map ev _ x.st.heap x.st.heap (fun _ => rfl)]
  rfl

theorem pickAll_length (l : List Nat) : ∀ (pos r : List Nat), pickAll l pos = some r → r.length = pos.length
  | [], r, h => by simp [pickAll] at h; subst h; rfl
  | i :: is, r, h => by
    simp only [pickAll] at h
    split at h
    · rename_i x xs _ hxs; simp at h; subst h; simp [pickAll_length l is xs hxs]
    · simp at h

/-! ### eaSimple -/

/-- canonical body of eaSimple's generational loop (algorithms.py 163-185); yields the new content of `population` -/
def simpleBody (ops : Ops σ) (ev : List Int → List Int) (cxpb mutpb : Float) (hof : Bool) (gen : Nat)
    (population : List Nat) : M σ (List Nat) :=
  GenL.bind (GenL.select population population.length) fun offspring =>
  GenL.bind (GenL.callV (GenVL.varAndCanon ops offspring cxpb mutpb)) fun offspring =>
  GenL.bind (GenL.invalid offspring) fun invalid_ind =>
  GenL.bind (GenL.mapEvaluate ev invalid_ind) fun fitnesses =>
  GenL.bind (GenL.assignZip invalid_ind fitnesses) fun _ =>
  GenL.bind (GenL.when hof (GenL.bind (GenL.hofUpdate offspring) fun _ => GenL.pure ())) fun _ =>
  let population := offspring
  GenL.bind (GenL.record gen invalid_ind.length) fun _ =>
  GenL.pure population

/-- the canonical rendering of `eaSimple` -/
def eaSimpleCanon (population : List Nat) (ops : Ops σ) (ev : List Int → List Int) (cxpb mutpb : Float) (ngen : Nat)
    (hof : Bool) : M σ (List Nat) :=
  GenL.bind (GenL.invalid population) fun invalid_ind =>
  GenL.bind (GenL.mapEvaluate ev invalid_ind) fun fitnesses =>
  GenL.bind (GenL.assignZip invalid_ind fitnesses) fun _ =>
  GenL.bind (GenL.when hof (GenL.bind (GenL.hofUpdate population) fun _ => GenL.pure ())) fun _ =>
  GenL.bind (GenL.record 0 invalid_ind.length) fun _ =>
  GenL.bind (GenL.forGens (simpleBody ops ev cxpb mutpb hof) 1 ngen population) fun population =>
  GenL.pure population

/-- one generation's record on the tape: the selected positions, the `random()` results `varAnd` consumes -/
def recS (d : List Nat × List Float) : GRec := ⟨[d.1], [d.2.map Draw.rnd], [], []⟩

/-- … and the model's decision record for it (`decodeAnd` spelled out) -/
def decS (cxpb mutpb : Float) (d : List Nat × List Float) : SimpleDec :=
  ⟨d.1, (d.2.take (d.1.length / 2)).map (fun r => decide (r < cxpb)),
        (d.2.drop (d.1.length / 2)).map (fun r => decide (r < mutpb))⟩

theorem runExact_varAndCanon (ops : Ops σ) (population : List Nat) (cxpb mutpb : Float) (t : σ) (s : St)
    (fl : List Float) (h : fl.length = population.length / 2 + population.length) :
    GenV.runExact (GenVL.varAndCanon ops population cxpb mutpb) t s (fl.map Draw.rnd) =
      (Variation.varAnd ops t s population ((fl.take (population.length / 2)).map (fun r => decide (r < cxpb)))
        ((fl.drop (population.length / 2)).map (fun r => decide (r < mutpb)))).map GenVL.resExact := by
  have := GenVL.varAndCanon_eq_model ops population cxpb mutpb t s fl [] h
  rw [List.append_nil] at this
  simp only [GenV.runExact, this, decodeAnd, h, if_true, Option.bind_some]
  cases Variation.varAnd ops t s population _ _ <;> rfl

theorem simpleGen_apply (ops : Ops σ) (ev : List Int → List Int) (cxpb mutpb : Float) (g : Nat) (pop : List Nat)
    (d : List Nat × List Float) (hd : d.2.length = d.1.length / 2 + d.1.length) (rs : List GRec)
    (K : List Nat → M σ β) (x : LSt σ) (hx : x.recs = recS d :: rs) :
    (GenL.bind (GenL.nextRec g) fun _ => GenL.bind (simpleBody ops ev cxpb mutpb true g pop) fun p =>
      GenL.bind GenL.endRec fun _ => K p) x
      = match generation ev (simpleStep ops (decS cxpb mutpb d)) g x.tape (toLS x pop) with
        | none => none
        | some r => K r.2.pop (ofLS r.1 r.2 g ⟨[], [], [], []⟩ rs) := by
  simp only [bind_apply, GenL.nextRec, hx, simpleBody, GenL.select, recS, generation, simpleStep, decS, toLS]
  by_cases hl : d.1.length = pop.length
  · simp only [hl, if_true]
    cases hp : pickAll pop d.1 with
    | none => rfl
    | some chosen =>
      have hc : d.2.length = chosen.length / 2 + chosen.length := by
        rw [pickAll_length pop d.1 chosen hp]; exact hd
      have hlen : chosen.length = pop.length := by rw [pickAll_length pop d.1 chosen hp]; exact hl
      simp only [GenL.callV, runExact_varAndCanon ops chosen cxpb mutpb _ _ d.2 hc, hlen]
      cases hv : Variation.varAnd ops x.tape x.st chosen
          ((d.2.take (pop.length / 2)).map fun r => decide (r < cxpb))
          ((d.2.drop (pop.length / 2)).map fun r => decide (r < mutpb)) with
      | none => rfl
      | some r =>
        simp only [Option.map_some, GenVL.resExact]
        simp only [GenL.invalid, GenL.mapEvaluate, GenL.assignZip, GenL.when, GenL.hofUpdate, if_true, GenL.record,
          bind_apply, GenL.pure, GenL.endRec, zipAssign_map ev _ r.st.heap r.st.heap (fun _ => rfl), List.isEmpty_nil, Bool.and_self,
          evalPhase, ofLS, Bool.false_eq_true, if_false]
  · simp only [hl, if_false]

theorem forGens_simple (ops : Ops σ) (ev : List Int → List Int) (cxpb mutpb : Float) :
    ∀ (ds : List (List Nat × List Float)), (∀ d ∈ ds, d.2.length = d.1.length / 2 + d.1.length) →
    ∀ (g : Nat) (pop : List Nat) (x : LSt σ), x.recs = ds.map recS →
    (GenL.forGens (simpleBody ops ev cxpb mutpb true) g ds.length pop x).map proj =
      runGens ev (ds.map fun d => simpleStep ops (decS cxpb mutpb d)) g x.tape (toLS x pop)
  | [], _, _, _, _, _ => rfl
  | d :: ds, hds, g, pop, x, hx => by
    simp only [List.length_cons, GenL.forGens, List.map_cons, runGens]
    rw [simpleGen_apply ops ev cxpb mutpb g pop d (hds d (List.mem_cons_self ..)) (ds.map recS) _ x hx]
    cases generation ev (simpleStep ops (decS cxpb mutpb d)) g x.tape (toLS x pop) with
    | none => rfl
    | some r =>
      simp only []
      exact forGens_simple ops ev cxpb mutpb ds (fun d' h' => hds d' (List.mem_cons_of_mem _ h')) (g + 1) r.2.pop _ rfl

/-- The canonical rendering of `eaSimple`, run with a hall of fame on a tape of per-generation records (selected positions, the
`random()` results `varAnd` consumes), is the model's `eaSimple` on the decision records `decodeAnd` reads off them. -/
theorem eaSimpleCanon_eq_model (ops : Ops σ) (ev : List Int → List Int) (cxpb mutpb : Float) (pop : List Nat)
    (ds : List (List Nat × List Float)) (hds : ∀ d ∈ ds, d.2.length = d.1.length / 2 + d.1.length)
    (x : LSt σ) (hg : x.gen = 0) (hx : x.recs = ds.map recS) :
    (eaSimpleCanon pop ops ev cxpb mutpb ds.length true x).map proj =
      Loops.eaSimple ops ev (ds.map (decS cxpb mutpb)) x.tape (toLS x pop) := by
  unfold eaSimpleCanon
  rw [evalBlock_apply]
  obtain ⟨y, hy⟩ : ∃ y : LSt σ, y = { afterEval ev x pop with
      log := (afterEval ev x pop).log ++ [(0, (invalidOf x.st.heap pop).length)] } := ⟨_, rfl⟩
  have e1 : GenL.record 0 (invalidOf x.st.heap pop).length (afterEval ev x pop) = some ((), y) := by rw [hy]; rfl
  have e2 : gen0 ev (toLS x pop) = toLS y pop := by
    rw [hy]; simp only [gen0, toLS, afterEval, evalPhase, hg]; rfl
  have e3 : y.tape = x.tape := by rw [hy]; rfl
  have e4 : y.recs = ds.map recS := by rw [hy]; exact hx
  have key := forGens_simple ops ev cxpb mutpb ds hds 1 pop y e4
  simp only [bind_apply, e1, Loops.eaSimple, runPop, List.map_map, e2, ← e3]
  rw [show (ds.map ((simpleStep ops) ∘ (decS cxpb mutpb))) = ds.map (fun d => simpleStep ops (decS cxpb mutpb d)) from rfl,
    ← key]
  cases GenL.forGens (simpleBody ops ev cxpb mutpb true) 1 ds.length pop y with
  | none => rfl
  | some r => rfl

/-! ### eaMuPlusLambda / eaMuCommaLambda -/

/-- the two (μ, λ) steps of the model differ in the candidate list the environmental selection is given -/
def mlStep (ops : Ops σ) (mu lam : Nat) (cand : List Nat → List Nat → List Nat) (d : MuLamDec) : Step σ where
  produce := fun t st pop => Variation.varOr ops t st pop lam d.choices
  replace := fun _ pop off => if d.envSel.length = mu then pickAll (cand pop off) d.envSel else none

theorem plusStep_eq (ops : Ops σ) (mu lam : Nat) (d : MuLamDec) :
    plusStep ops mu lam d = mlStep ops mu lam (fun p o => p ++ o) d := rfl
theorem commaStep_eq (ops : Ops σ) (mu lam : Nat) (d : MuLamDec) :
    commaStep ops mu lam d = mlStep ops mu lam (fun _ o => o) d := rfl

/-- canonical body of the generational loop of eaMuPlusLambda (algorithms.py 314-335) / eaMuCommaLambda (415-436) -/
def muLamBody (cand : List Nat → List Nat → List Nat) (ops : Ops σ) (ev : List Int → List Int) (mu lam : Nat)
    (cxpb mutpb : Float) (hof : Bool) (gen : Nat) (population : List Nat) : M σ (List Nat) :=
  GenL.bind (GenL.callV (GenVL.varOrCanon ops population lam cxpb mutpb)) fun offspring =>
  GenL.bind (GenL.invalid offspring) fun invalid_ind =>
  GenL.bind (GenL.mapEvaluate ev invalid_ind) fun fitnesses =>
  GenL.bind (GenL.assignZip invalid_ind fitnesses) fun _ =>
  GenL.bind (GenL.when hof (GenL.bind (GenL.hofUpdate offspring) fun _ => GenL.pure ())) fun _ =>
  GenL.bind (GenL.select (cand population offspring) mu) fun population =>
  GenL.bind (GenL.record gen invalid_ind.length) fun _ =>
  GenL.pure population

def muLamCanon (cand : List Nat → List Nat → List Nat) (population : List Nat) (ops : Ops σ) (ev : List Int → List Int)
    (mu lam : Nat) (cxpb mutpb : Float) (ngen : Nat) (hof : Bool) : M σ (List Nat) :=
  GenL.bind (GenL.invalid population) fun invalid_ind =>
  GenL.bind (GenL.mapEvaluate ev invalid_ind) fun fitnesses =>
  GenL.bind (GenL.assignZip invalid_ind fitnesses) fun _ =>
  GenL.bind (GenL.when hof (GenL.bind (GenL.hofUpdate population) fun _ => GenL.pure ())) fun _ =>
  GenL.bind (GenL.record 0 invalid_ind.length) fun _ =>
  GenL.bind (GenL.forGens (muLamBody cand ops ev mu lam cxpb mutpb hof) 1 ngen population) fun population =>
  GenL.pure population

/-- the canonical rendering of `eaMuPlusLambda` -/
def eaMuPlusLambdaCanon (population : List Nat) (ops : Ops σ) (ev : List Int → List Int) (mu lam : Nat)
    (cxpb mutpb : Float) (ngen : Nat) (hof : Bool) : M σ (List Nat) :=
  muLamCanon (fun p o => p ++ o) population ops ev mu lam cxpb mutpb ngen hof

/-- the canonical rendering of `eaMuCommaLambda` (line 395: `assert lambda_ >= mu`) -/
def eaMuCommaLambdaCanon (population : List Nat) (ops : Ops σ) (ev : List Int → List Int) (mu lam : Nat)
    (cxpb mutpb : Float) (ngen : Nat) (hof : Bool) : M σ (List Nat) :=
  if mu ≤ lam then muLamCanon (fun _ o => o) population ops ev mu lam cxpb mutpb ngen hof else GenL.fail

/-- one generation's record: (positions of the environmental selection, the draws `varOr` consumes, the choices `decodeOr`
reads off those draws) ↦ the tape record / the model's decision record -/
def recM (d : List Nat × List Draw × List Choice) : GRec := ⟨[d.1], [d.2.1], [], []⟩
def decM (d : List Nat × List Draw × List Choice) : MuLamDec := ⟨d.2.2, d.1⟩

theorem muLamGen_apply (cand : List Nat → List Nat → List Nat) (ops : Ops σ) (ev : List Int → List Int) (mu lam : Nat)
    (cxpb mutpb : Float) (g : Nat) (pop : List Nat)
    (d : List Nat × List Draw × List Choice) (hd : decodeOr cxpb mutpb lam d.2.1 = some d.2.2) (rs : List GRec)
    (K : List Nat → M σ β) (x : LSt σ) (hx : x.recs = recM d :: rs) :
    (GenL.bind (GenL.nextRec g) fun _ => GenL.bind (muLamBody cand ops ev mu lam cxpb mutpb true g pop) fun p =>
      GenL.bind GenL.endRec fun _ => K p) x
      = if orAssert cxpb mutpb then
          match generation ev (mlStep ops mu lam cand (decM d)) g x.tape (toLS x pop) with
          | none => none
          | some r => K r.2.pop (ofLS r.1 r.2 g ⟨[], [], [], []⟩ rs)
        else none := by
  simp only [bind_apply, GenL.nextRec, hx, muLamBody, recM, GenL.callV, GenVL.varOrCanon_eq_model, generation, mlStep, decM,
    toLS, hd, Option.bind_some]
  by_cases ha : orAssert cxpb mutpb = true
  · simp only [ha, if_true]
    cases hv : Variation.varOr ops x.tape x.st pop lam d.2.2 with
    | none => rfl
    | some r =>
      simp only [Option.map_some, GenVL.resExact, GenL.invalid, GenL.mapEvaluate, GenL.assignZip, GenL.when,
        GenL.hofUpdate, if_true, bind_apply, GenL.pure, GenL.select,
        zipAssign_map ev _ r.st.heap r.st.heap (fun _ => rfl), evalPhase, Bool.false_eq_true, if_false]
      by_cases hl : d.1.length = mu
      · simp only [hl, if_true]
        cases pickAll (cand pop r.off) d.1 with
        | none => rfl
        | some np =>
          simp only [GenL.record, GenL.endRec, List.isEmpty_nil, Bool.and_self, if_true, ofLS]
      · simp only [hl, if_false]
  · simp only [ha, if_false]
    rfl

theorem forGens_muLam (cand : List Nat → List Nat → List Nat) (ops : Ops σ) (ev : List Int → List Int) (mu lam : Nat)
    (cxpb mutpb : Float) :
    ∀ (ds : List (List Nat × List Draw × List Choice)), (∀ d ∈ ds, decodeOr cxpb mutpb lam d.2.1 = some d.2.2) →
    ∀ (g : Nat) (pop : List Nat) (x : LSt σ), x.recs = ds.map recM →
    (GenL.forGens (muLamBody cand ops ev mu lam cxpb mutpb true) g ds.length pop x).map proj =
      if orAssert cxpb mutpb = true ∨ ds = [] then
        runGens ev (ds.map fun d => mlStep ops mu lam cand (decM d)) g x.tape (toLS x pop)
      else none
  | [], _, _, _, _, _ => by simp only [or_true, if_true]; rfl
  | d :: ds, hds, g, pop, x, hx => by
    simp only [List.length_cons, GenL.forGens, List.map_cons, runGens, reduceCtorEq, or_false]
    rw [muLamGen_apply cand ops ev mu lam cxpb mutpb g pop d (hds d (List.mem_cons_self ..)) (ds.map recM) _ x hx]
    by_cases ha : orAssert cxpb mutpb = true
    · simp only [ha, if_true]
      cases generation ev (mlStep ops mu lam cand (decM d)) g x.tape (toLS x pop) with
      | none => rfl
      | some r =>
        have ih := forGens_muLam cand ops ev mu lam cxpb mutpb ds (fun d' h' => hds d' (List.mem_cons_of_mem _ h')) (g + 1)
          r.2.pop (ofLS r.1 r.2 g ⟨[], [], [], []⟩ (ds.map recM)) rfl
        simp only [ha, true_or, if_true] at ih
        exact ih
    · simp only [ha, if_false]
      rfl

theorem muLamCanon_eq_model (cand : List Nat → List Nat → List Nat) (ops : Ops σ) (ev : List Int → List Int) (mu lam : Nat)
    (cxpb mutpb : Float) (pop : List Nat)
    (ds : List (List Nat × List Draw × List Choice)) (hds : ∀ d ∈ ds, decodeOr cxpb mutpb lam d.2.1 = some d.2.2)
    (x : LSt σ) (hg : x.gen = 0) (hx : x.recs = ds.map recM) :
    (muLamCanon cand pop ops ev mu lam cxpb mutpb ds.length true x).map proj =
      if orAssert cxpb mutpb = true ∨ ds = [] then
        runPop ev (ds.map fun d => mlStep ops mu lam cand (decM d)) x.tape (toLS x pop)
      else none := by
  unfold muLamCanon
  rw [evalBlock_apply]
  obtain ⟨y, hy⟩ : ∃ y : LSt σ, y = { afterEval ev x pop with
      log := (afterEval ev x pop).log ++ [(0, (invalidOf x.st.heap pop).length)] } := ⟨_, rfl⟩
  have e1 : GenL.record 0 (invalidOf x.st.heap pop).length (afterEval ev x pop) = some ((), y) := by rw [hy]; rfl
  have e2 : gen0 ev (toLS x pop) = toLS y pop := by
    rw [hy]; simp only [gen0, toLS, afterEval, evalPhase, hg]; rfl
  have e3 : y.tape = x.tape := by rw [hy]; rfl
  have e4 : y.recs = ds.map recM := by rw [hy]; exact hx
  have key := forGens_muLam cand ops ev mu lam cxpb mutpb ds hds 1 pop y e4
  simp only [bind_apply, e1, runPop, e2, ← e3]
  rw [← key]
  cases GenL.forGens (muLamBody cand ops ev mu lam cxpb mutpb true) 1 ds.length pop y with
  | none => rfl
  | some r => rfl

/-- The canonical rendering of `eaMuPlusLambda`, run with a hall of fame on a tape of per-generation records (the draws `varOr`
consumes, the positions of the environmental selection), is the model's `eaMuPlusLambda` on the decision records `decodeOr` reads
off them; `none` when `assert cxpb + mutpb <= 1.0` fails in the first generation. -/
theorem eaMuPlusLambdaCanon_eq_model (ops : Ops σ) (ev : List Int → List Int) (mu lam : Nat) (cxpb mutpb : Float)
    (pop : List Nat) (ds : List (List Nat × List Draw × List Choice))
    (hds : ∀ d ∈ ds, decodeOr cxpb mutpb lam d.2.1 = some d.2.2) (x : LSt σ) (hg : x.gen = 0) (hx : x.recs = ds.map recM) :
    (eaMuPlusLambdaCanon pop ops ev mu lam cxpb mutpb ds.length true x).map proj =
      if orAssert cxpb mutpb = true ∨ ds = [] then
        Loops.eaMuPlusLambda ops ev mu lam (ds.map decM) x.tape (toLS x pop)
      else none := by
  unfold eaMuPlusLambdaCanon
  rw [muLamCanon_eq_model _ ops ev mu lam cxpb mutpb pop ds hds x hg hx]
  simp only [Loops.eaMuPlusLambda, List.map_map]
  rfl

theorem eaMuCommaLambdaCanon_eq_model (ops : Ops σ) (ev : List Int → List Int) (mu lam : Nat) (cxpb mutpb : Float)
    (pop : List Nat) (ds : List (List Nat × List Draw × List Choice))
    (hds : ∀ d ∈ ds, decodeOr cxpb mutpb lam d.2.1 = some d.2.2) (x : LSt σ) (hg : x.gen = 0) (hx : x.recs = ds.map recM) :
    (eaMuCommaLambdaCanon pop ops ev mu lam cxpb mutpb ds.length true x).map proj =
      if orAssert cxpb mutpb = true ∨ ds = [] ∨ ¬ mu ≤ lam then
        Loops.eaMuCommaLambda ops ev mu lam (ds.map decM) x.tape (toLS x pop)
      else none := by
  unfold eaMuCommaLambdaCanon
  by_cases hm : mu ≤ lam
  · simp only [hm, if_true, not_true_eq_false, or_false]
    rw [muLamCanon_eq_model _ ops ev mu lam cxpb mutpb pop ds hds x hg hx]
    simp only [Loops.eaMuCommaLambda, commaAssert, hm, decide_true, if_true, List.map_map]
    rfl
  · simp only [hm, if_false, not_false_eq_true, or_true, if_true, Loops.eaMuCommaLambda, commaAssert, decide_false,
      Bool.false_eq_true]
    rfl

/-! ### eaGenerateUpdate -/

/-- canonical body of eaGenerateUpdate's loop (algorithms.py 483-503); `_population` = the list of the previous generation -/
def guBody (ev : List Int → List Int) (hof : Bool) (gen : Nat) (_population : List Nat) : M σ (List Nat) :=
  GenL.bind GenL.generate fun population =>
  GenL.bind (GenL.mapEvaluate ev population) fun fitnesses =>
  GenL.bind (GenL.assignZip population fitnesses) fun _ =>
  GenL.bind (GenL.when hof (GenL.bind (GenL.hofUpdate population) fun _ => GenL.pure ())) fun _ =>
  GenL.bind (GenL.update population) fun population =>
  GenL.bind (GenL.record gen population.length) fun _ =>
  GenL.pure population

/-- the canonical rendering of `eaGenerateUpdate` -/
def eaGenerateUpdateCanon (_ops : Ops σ) (ev : List Int → List Int) (ngen : Nat) (hof : Bool) : M σ (List Nat) :=
  let population : List Nat := []
  GenL.bind (GenL.forGens (guBody ev hof) 0 ngen population) fun population =>
  GenL.pure population

def recG (d : List (Nat × Obj) × List Nat) : GRec := ⟨[], [], [d.1], [d.2]⟩

theorem isPerm_length (order : List Nat) (n : Nat) (h : isPerm order n = true) : order.length = n := by
  simp only [isPerm, Bool.and_eq_true, beq_iff_eq] at h; exact h.1

theorem guGen_apply (ev : List Int → List Int) (g : Nat) (pop : List Nat) (d : List (Nat × Obj) × List Nat)
    (rs : List GRec) (K : List Nat → M σ β) (x : LSt σ) (hx : x.recs = recG d :: rs) :
    (GenL.bind (GenL.nextRec g) fun _ => GenL.bind (guBody ev true g pop) fun p =>
      GenL.bind GenL.endRec fun _ => K p) x
      = match generation ev (guStep (σ := σ) d.1 d.2) g x.tape (toLS x pop) with
        | none => none
        | some r => K r.2.pop (ofLS r.1 r.2 g ⟨[], [], [], []⟩ rs) := by
  simp only [bind_apply, GenL.nextRec, hx, guBody, recG, GenL.generate, generation, guStep, toLS]
  by_cases hn : (d.1.map (·.1)).Nodup
  · simp only [hn, decide_true, if_true, GenL.mapEvaluate, GenL.assignZip, GenL.when, GenL.hofUpdate, bind_apply, GenL.pure,
      GenL.update, zipAssign_map ev _ (writeAll x.st d.1).heap (writeAll x.st d.1).heap (fun _ => rfl), evalPhase]
    by_cases hp : isPerm d.2 (d.1.map (·.1)).length = true
    · simp only [hp, if_true]
      cases hq : pickAll (d.1.map (·.1)) d.2 with
      | none => rfl
      | some np =>
        have hl : np.length = (d.1.map (·.1)).length := by
          rw [pickAll_length _ _ _ hq]; exact isPerm_length _ _ hp
        simp only [GenL.record, GenL.endRec, List.isEmpty_nil, Bool.and_self, if_true, ofLS, hl]
    · simp only [hp, if_false, Bool.false_eq_true]
  · simp only [hn, decide_false, if_false, Bool.false_eq_true]

theorem forGens_gu (ev : List Int → List Int) :
    ∀ (ds : List (List (Nat × Obj) × List Nat)) (g : Nat) (pop : List Nat) (x : LSt σ), x.recs = ds.map recG →
    (GenL.forGens (guBody ev true) g ds.length pop x).map proj =
      runGens ev (ds.map fun d => guStep (σ := σ) d.1 d.2) g x.tape (toLS x pop)
  | [], _, _, _, _ => rfl
  | d :: ds, g, pop, x, hx => by
    simp only [List.length_cons, GenL.forGens, List.map_cons, runGens]
    rw [guGen_apply ev g pop d (ds.map recG) _ x hx]
    cases generation ev (guStep (σ := σ) d.1 d.2) g x.tape (toLS x pop) with
    | none => rfl
    | some r =>
      simp only []
      exact forGens_gu ev ds (g + 1) r.2.pop _ rfl

/-- a run that starts with empty ghost records (the model's `eaGenerateUpdate` starts there) -/
def initG (t : σ) (st : St) (recs : List GRec) : LSt σ := ⟨t, st, [], [], [], [], 0, ⟨[], [], [], []⟩, recs⟩

/-- The canonical rendering of `eaGenerateUpdate`, run with a hall of fame on a tape of per-generation records (what
`toolbox.generate()` hands back, the order `toolbox.update` leaves the list in), is the model's `eaGenerateUpdate`. -/
theorem eaGenerateUpdateCanon_eq_model (ops : Ops σ) (ev : List Int → List Int) (gens : List (List (Nat × Obj) × List Nat))
    (t : σ) (st : St) :
    (eaGenerateUpdateCanon ops ev gens.length true (initG t st (gens.map recG))).map proj =
      Loops.eaGenerateUpdate ev gens t st := by
  have key := forGens_gu ev gens 0 [] (initG t st (gens.map recG)) rfl
  simp only [eaGenerateUpdateCanon, bind_apply, Loops.eaGenerateUpdate, runGU]
  rw [show (runGens ev (gens.map fun g => guStep (σ := σ) g.1 g.2) 0 t { st := st, pop := [] }) =
    runGens ev (gens.map fun d => guStep (σ := σ) d.1 d.2) 0 (initG t st (gens.map recG)).tape
      (toLS (initG t st (gens.map recG)) []) from rfl, ← key]
  cases GenL.forGens (guBody ev true) 0 gens.length [] (initG t st (gens.map recG)) with
  | none => rfl
  | some r => rfl

end GenLL
