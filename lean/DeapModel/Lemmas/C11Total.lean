/-
Helper lemmas for C11: totality of the generators (termination, no IndexError, tape-length bound).
-/
import DeapModel.Lemmas.C11Ops

namespace GpTree

/-- number of nodes of the full `A`-ary tree of height `k`: `1 + A + … + A^k` -/
def nodes (A : Nat) : Nat → Nat
  | 0 => 1
  | k + 1 => 1 + A * nodes A k

theorem nodes_pos (A k : Nat) : 1 ≤ nodes A k := by cases k <;> simp [nodes]

theorem nodes_mono (A : Nat) {j k : Nat} (h : j ≤ k) : nodes A j ≤ nodes A k := by
  induction k generalizing j with
  | zero => have : j = 0 := by omega
            subst this; exact Nat.le_refl _
  | succ k ih =>
    cases j with
    | zero => simp [nodes]
    | succ j =>
      simp only [nodes]
      have := ih (j := j) (by omega)
      have := Nat.mul_le_mul_left A this
      omega

/-- an upper bound on the number of nodes still to be generated from a stack of `(depth, type)` -/
def cost (A h : Nat) : List (Nat × Nat) → Nat
  | [] => 0
  | e :: st => nodes A (h - e.1) + cost A h st

theorem cost_append (A h : Nat) (a b : List (Nat × Nat)) : cost A h (a ++ b) = cost A h a + cost A h b := by
  induction a with
  | nil => simp [cost]
  | cons e a ih => simp [cost, ih]; omega

theorem cost_map (A h d : Nat) (args : List Nat) :
    cost A h (args.map (fun a => (d, a))) = args.length * nodes A (h - d) := by
  induction args with
  | nil => simp [cost]
  | cons a as ih => simp [cost, ih, Nat.succ_mul]; omega

/-- The primitive-set hypothesis of the statement's reading (DESIGN §6) for the set `Rq` of types
that can be requested: each has a terminal and a primitive, the arguments of its primitives can be
requested again, and `A` bounds the arities. -/
structure PsetFull (ps : Pset) (Rq : Nat → Prop) (A : Nat) : Prop where
  terms_ne : ∀ τ, Rq τ → ps.terms τ ≠ []
  prims_ne : ∀ τ, Rq τ → ps.prims τ ≠ []
  closed : ∀ τ, Rq τ → ∀ p ∈ ps.prims τ, p.args.length ≤ A ∧ ∀ a ∈ p.args, Rq a

theorem condition_ok {mode : GenMode} {ps : Pset} {mn h d : Nat} {tp tp1 : Tape} {c : Bool}
    (hc : condition mode ps mn h d tp = .ok (c, tp1)) :
    tp1.length ≤ tp.length ∧ tp.length ≤ tp1.length + 1 ∧ (c = false → d ≠ h) := by
  unfold condition at hc
  cases mode with
  | full =>
    simp at hc; obtain ⟨rfl, rfl⟩ := hc
    exact ⟨Nat.le_refl _, by omega, by intro h'; simpa using h'⟩
  | grow =>
    simp only at hc
    split at hc
    · simp at hc; obtain ⟨rfl, rfl⟩ := hc; exact ⟨Nat.le_refl _, by omega, by simp⟩
    · rename_i hne
      split at hc
      · split at hc
        · simp at hc
        · rename_i x tp' hr
          simp at hc; obtain ⟨_, rfl⟩ := hc
          have := popRnd_ok hr
          exact ⟨by omega, by omega, fun _ => by simpa using hne⟩
      · simp at hc; obtain ⟨rfl, rfl⟩ := hc; exact ⟨Nat.le_refl _, by omega, fun _ => by simpa using hne⟩

theorem condition_err {mode : GenMode} {ps : Pset} {mn h d : Nat} {tp : Tape} {e : Fault}
    (hc : condition mode ps mn h d tp = .error e) : TapeFault tp e := by
  unfold condition at hc
  cases mode with
  | full => simp at hc
  | grow =>
    simp only at hc
    split at hc
    · simp at hc
    · split at hc
      · split at hc
        · rename_i e' hr; simp at hc; subst hc; exact popRnd_err hr
        · simp at hc
      · simp at hc

/-- Totality of the `generate` loop: with enough fuel (always the case in `generate`) and a stack of
requestable types at depths ≤ h, the loop returns, or the tape is ill-typed, or the tape is
shorter than three draws per node still to be generated.  It never raises and never runs out of fuel. -/
theorem genLoop_benign {ps : Pset} {Rq : Nat → Prop} {A : Nat} (full : PsetFull ps Rq A)
    (mode : GenMode) (mn h : Nat) :
    ∀ (fuel : Nat) (st : List (Nat × Nat)) (tp : Tape), tp.length < fuel →
      (∀ e ∈ st, e.1 ≤ h ∧ Rq e.2) → Benign (3 * cost A h st) tp (genLoop mode ps mn h fuel st tp)
  | 0, _, tp, hlt, _ => by omega
  | fuel + 1, [], tp, _, _ => by simp [genLoop, Benign]
  | fuel + 1, (d, τ) :: st, tp, hlt, hst => by
    obtain ⟨hd, hτ⟩ := hst (d, τ) (by simp)
    have hst' : ∀ e ∈ st, e.1 ≤ h ∧ Rq e.2 := fun e he => hst e (by simp [he])
    have hn := nodes_pos A (h - d)
    have hcost : cost A h ((d, τ) :: st) = nodes A (h - d) + cost A h st := rfl
    simp only [genLoop]
    cases hc : condition mode ps mn h d tp with
    | error e =>
      exact (condition_err hc).benign (by rw [hcost]; omega)
    | ok v =>
      obtain ⟨c, tp1⟩ := v
      obtain ⟨hl1, hl1', hcf⟩ := condition_ok hc
      cases c with
      | true =>
        simp only
        cases hch : popChoice (ps.terms τ) tp1 with
        | error e =>
          exact (popChoice_err (full.terms_ne τ hτ) hch).benign_after (k := 1) (by omega) (by rw [hcost]; omega)
        | ok v =>
          obtain ⟨term, tp2⟩ := v
          have hl2 := (popChoice_ok hch).2
          simp only
          cases hin : instantiate term tp2 with
          | error e =>
            exact (instantiate_err hin).benign_after (k := 2) (by omega) (by rw [hcost]; omega)
          | ok v =>
            obtain ⟨term', tp3⟩ := v
            obtain ⟨_, hl3, hl3'⟩ := instantiate_ok hin
            simp only
            have ih := genLoop_benign full mode mn h fuel st tp3 (by omega) hst'
            cases hrec : genLoop mode ps mn h fuel st tp3 with
            | error e =>
              rw [hrec] at ih
              simp only
              cases e <;> simp [Benign] at ih ⊢ <;> omega
            | ok v => obtain ⟨rest, tp4⟩ := v; simp [Benign]
      | false =>
        simp only
        have hdh : d < h := by have := hcf rfl; omega
        cases hch : popChoice (ps.prims τ) tp1 with
        | error e =>
          exact (popChoice_err (full.prims_ne τ hτ) hch).benign_after (k := 1) (by omega) (by rw [hcost]; omega)
        | ok v =>
          obtain ⟨prim, tp2⟩ := v
          obtain ⟨hmem, hl2⟩ := popChoice_ok hch
          obtain ⟨hA, hargs⟩ := full.closed τ hτ prim hmem
          simp only
          have hstk : ∀ e ∈ prim.args.map (fun a => (d + 1, a)) ++ st, e.1 ≤ h ∧ Rq e.2 := by
            intro e he
            rcases List.mem_append.1 he with he | he
            · obtain ⟨a, ha, rfl⟩ := List.mem_map.1 he
              exact ⟨by simp; omega, hargs a ha⟩
            · exact hst' e he
          have ih := genLoop_benign full mode mn h fuel _ tp2 (by omega) hstk
          have hc2 : cost A h (prim.args.map (fun a => (d + 1, a)) ++ st) + 1 ≤ cost A h ((d, τ) :: st) := by
            rw [cost_append, cost_map, hcost]
            have e : h - d = (h - (d + 1)) + 1 := by omega
            rw [e]; simp only [nodes]
            have := Nat.mul_le_mul_right (nodes A (h - (d + 1))) hA
            omega
          cases hrec : genLoop mode ps mn h fuel (prim.args.map (fun a => (d + 1, a)) ++ st) tp2 with
          | error e =>
            rw [hrec] at ih
            simp only
            cases e <;> simp [Benign] at ih ⊢ <;> omega
          | ok v => obtain ⟨rest, tp4⟩ := v; simp [Benign]

end GpTree
