import Driver.Main
