import DeapModel.Core.Py
import DeapModel.Core.Scalar
import DeapModel.Core.Fitness
import DeapModel.RealInst
import DeapModel.Props.C01
