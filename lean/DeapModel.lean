import DeapModel.Core.Py
import DeapModel.Core.Fitness
