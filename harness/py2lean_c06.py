"""py2lean_c06 — translator from the imperative Python sub-language of deap/tools/selection.py (and emo.selTournamentDCD)
to Lean 4 definitions over the tape monad of lean/DeapModel/Core/GenPreludeC06.lean.

Used by the C06 check as the TRANSLATOR TIE: the selection operators are re-read from $DEAP_REPO's current source on
every run, rendered as `Gen.<f>` and the committed theorems `Gen.<f> … = Selection.<f> …`
(lean/DeapModel/GenEq/C06.lean.tmpl) are re-checked by the Lean kernel.  Re-uses `Module`, `Refuse`, `Env`, `Val`,
`Macro`, `Scope` of harness/py2lean.py (unchanged); the expression / statement rendering is its own, because the value
domain (positions of a population, exact rationals, a tape) and the statement language (loops with state, break,
while) differ from the functional benchmark sub-language of C20.

THIS DOCSTRING IS THE TRANSLATOR'S TRUSTED BASE (with Core/GenPreludeC06.lean and the "tape access / attribute access /
Python built-ins" sections of Core/Selection.lean).  Everything that is not listed is REFUSED, never guessed.

RENDERING OF INDIVIDUALS (the rule the whole tie rests on)
  An individual is rendered as its POSITION (a `Nat`) in the population the operator was handed; the per-position data
  the code reads is the extra first argument `pop : Selection.Pop` of every generated definition, and the weights of the
  (single) fitness class are the argument `w : List Rat`.  The parameter `individuals` is the list of positions
  (`List Nat`; the theorems instantiate it with `List.range pop.length`).  Attribute access on an individual is the
  lookup of that position's data:
    getattr(ind, fit_attr)  /  ind.fitness (only in a function WITHOUT a `fit_attr` parameter)   -> "the fitness of position ind"
    <fitness>.values        -> `GenS.valuesAt w pop ind` (= map(truediv, wvalues, weights), base.py)      <fitness>.values[c] -> `…[c]?` (IndexError = none)
    <fitness>.wvalues       -> `Selection.wvAt pop ind`          <fitness>.weights -> `w`
    <fitness>.crowding_dist -> `Selection.cdAt pop ind`          len(ind) -> `Selection.sizeAt pop ind`
    f1 < f2 / f1 > f2 (fitnesses) -> `Selection.fitLt / fitGt pop` (C01's order)      f1.dominates(f2) -> `Selection.fitDom pop`
    sorted(xs, key=attrgetter(fit_attr)[, reverse=True]) -> `Selection.sortedAsc / sortedDesc (Selection.fitLt pop) xs`
                            (`key=v` after `v = attrgetter(fit_attr)` is the same; such a v has no other use)
                            (the stable sort on the fitness order of C01; `reverse=True` keeps ties in input order)
    max(xs, key=attrgetter(fit_attr))                    -> `Selection.pyMax (Selection.fitGt pop) xs` (first maximum; ValueError on [] = none)
  `fit_attr` itself is not a Lean argument: `pop` holds the data of the attribute it names.  `attrgetter("…")` /
  `getattr(ind, "…")` with anything but the parameter `fit_attr`, and `ind.fitness` in a function that has that parameter,
  are REFUSED (they read another attribute than the one the operator is told to use).
Value types      individual -> Nat (position)      int (k, tournsize, counters, indices: natural numbers, an ASSUMPTION of the
                 signature table: k >= 0) -> Nat      float -> Rat (the exact regime of the C06 model)      list / tuple / generator / range -> List
                 condition -> decidable Prop.       Every generated definition has type `GenS.M R` = Tape -> Option (R × Tape):
                 a raised exception (IndexError, ValueError of max([]) / `raise` / a failed `assert`) -> `none`.
Randomness       a call reads the next recorded draw from the TAPE exactly as Core/Selection.lean does:
                 random.random() -> `Selection.popRandom`; random.choice(seq) -> `GenS.choice seq` (`popChoice len`, then `seq[i]`);
                 random.uniform(a, b) -> `GenS.uniform a b` = a + (b-a)*random(); random.shuffle(x) (statement) -> x := `GenS.shuffle x`
                 (`popShuffle len`: new[j] = old[perm[j]]); random.sample(x, len(x)) with the SAME variable x -> `GenS.sampleAll x`
                 (`popSample`); any other use of `random` is refused.  Calls are sequenced with `GenS.bind` in Python's
                 evaluation order (left to right, arguments before the call), so the order of draws is the source's.
Expressions      int literal n >= 0; float literal (source text read as an exact decimal, checked to round to the parsed
                 constant, rendered as the reduced fraction); names; + * (Nat or Rat after coercion of the int side), - (Rat only),
                 / (true division over Rat; float ZeroDivisionError / overflow / rounding are NOT rendered), % by a positive literal;
                 list + list; one comparison or a chain a <= b <= c of < > <= >= == != on numbers; and / or / not of conditions
                 that need no evaluation; `a if c else b` (a branch that draws or raises stays inside its branch;
                 `max if c else min` -> `GenS.maxQ / minQ`, applied to one sequence of floats);
                 x[i] (i : Nat) -> `x[i]?` (IndexError = none); x[:k] -> take, x[k:] -> drop;
                 len, float(int), abs(float), sum(floats) -> `Selection.pySum` (left to right from 0), max / min of a sequence of floats
                 (ValueError on empty = none), list(x), range(n), range(a, b), range(a, b, literal step > 0);
                 `[e for v in seq]`, `[e for v in seq if c]`, the same as generator arguments (evaluated eagerly, left to right):
                 `List.map` / `List.filter` when e / c are pure, else `GenS.mapM` / `GenS.filterM`;
                 a call of a nested `def` or of a function of the same module (positional or keyword arguments): INLINED as a
                 sub-computation (arguments evaluated first, parameters `let`-bound; a free variable of the callee must denote
                 the same binding at the call as at the definition, else refused); recursion refused.
Statements       docstring; `v = e`; `a, b = e1, e2`; `v += e` / `*=` (and `-=` on floats); `x.append(e)`; `x.pop(0)` as a statement;
                 `return e`; `raise …` -> none; `assert c[, msg]` -> `if c then … else none`;
                 `if / elif / else` (the rest of the block is duplicated into both branches);
                 `for v in seq:` -> `GenS.forLoop` over the tuple of the variables that exist before the loop and are re-assigned in
                 its body (the STATE; in-place list mutation `append` / `pop` / `shuffle` of a local list counts as re-assignment —
                 local lists are never aliased in the sub-language because `v = w` of two list VARIABLES that are both mutated later is refused);
                 `break` -> (true, state), end of body / `continue` -> (false, state).  A variable first assigned inside a body is
                 local to one iteration: reading it before it is assigned in the iteration, or after the loop, is refused; so is any
                 use of the loop variable after the loop, and a loop variable that re-uses the name of a live variable;
                 `while c:` (c pure) -> `GenS.whileLoop` with an iteration bound derived from one of two recognised variants —
                   (a) `len(X) > 0` is a conjunct of c and the body contains, at its top level and unconditionally, exactly one
                       `X.pop(0)` and no other assignment to X and no `continue`: bound `len(X)`;
                   (b) the body contains at its top level exactly one `i += <positive literal>` of a Nat counter i (not assigned
                       otherwise) followed, unconditionally, by a subscript `S[i]` of a list S the body does not assign, and no
                       `continue`: bound `len(S) + 1` (the subscript raises IndexError before the bound is used up);
                   with such a variant the bound is never reached by a loop that is still running; any other `while` is refused.
                 `return` inside a loop body is refused.
In-place mutation of ARGUMENTS: none of the translated functions mutates an argument, and the rendering refuses it
                 (append / pop / shuffle / item assignment on a parameter); numpy arrays and views are outside the rendering.
REFUSED, e.g.    try, with, classes, decorators, global/nonlocal, lambda, *args/**kwargs, functools.partial and every other
                 higher-order use of a function, numpy (np.median), strings other than the docstring, `is`, `in`, negative
                 literals, slices with a step, subtraction of naturals, item / slice assignment, any call not listed.
"""
import ast
import decimal
from fractions import Fraction

from py2lean import Refuse, Env, Val, Macro, Scope, LEAKED, Module  # noqa: F401  (re-exported)

IND = ("IND",)
NAT = ("N",)
Q = ("Q",)
B = ("B",)
FIT = ("FIT",)
VALUES = ("VALUES",)
ATTR = ("ATTR",)
FUN = ("FUN",)
ANY = ("ANY",)
BOOLP = ("BOOLP",)
KEY = ("KEY",)


def L(t):
    return ("L", t)


def same(a, b):
    if a == ANY or b == ANY:
        return True
    if a[0] == "L" and b[0] == "L":
        return same(a[1], b[1])
    return a == b


def lean_type(t):
    if t in (IND, NAT):
        return "Nat"
    if t == Q:
        return "Rat"
    if t == BOOLP:
        return "Bool"
    if t == ANY:
        return "_"
    if t[0] == "L":
        s = lean_type(t[1])
        return "List %s" % (s if " " not in s else "(%s)" % s)
    raise Refuse("no Lean type for %r" % (t,))


class TypeChange(Exception):
    def __init__(self, name, ty=None):
        self.name, self.ty = name, ty


class LoopCtx:
    def __init__(self, state):
        self.state = state          # [(python name, type)]


def state_tuple(terms):
    if not terms:
        return "()"
    if len(terms) == 1:
        return terms[0]
    return "(%s, %s)" % (terms[0], state_tuple(terms[1:]))


def state_type(tys):
    if not tys:
        return "Unit"
    if len(tys) == 1:
        return lean_type(tys[0])
    a = lean_type(tys[0])
    return "%s × %s" % (a if " " not in a else "(%s)" % a, state_type(tys[1:]))


def state_proj(base, k, n):
    if n == 1:
        return base
    return base + ".2" * k + (".1" if k < n - 1 else "")


class SelTranslator:
    def __init__(self, module, fn, sig):
        self.m, self.fn, self.sig = module, fn, sig
        self.counter = 0
        self.inline_stack = []
        self.ret_ty = None
        self.has_attr_param = any(sig.get(a.arg) == ATTR for a in fn.args.args)
        self.params = set()

    def fresh(self, base="x"):
        self.counter += 1
        return "%s%d" % (base, self.counter)

    @staticmethod
    def lname(py):
        return "v_" + py

    # -- literals / coercions ---------------------------------------------------------------
    def float_literal(self, node):
        text = ast.get_source_segment(self.m.src, node)
        if text is None:
            raise Refuse("float literal without source text")
        text = text.strip().replace("_", "")
        try:
            d = decimal.Decimal(text)
        except decimal.InvalidOperation:
            raise Refuse("float literal %r is not a decimal" % text)
        if not d.is_finite() or d.is_signed():
            raise Refuse("literal %r" % text)
        fr = Fraction(d)
        if float(fr) != node.value:
            raise Refuse("literal %r does not round to the parsed constant %r" % (text, node.value))
        if fr.denominator == 1:
            return Val("(%d : Rat)" % fr.numerator, Q)
        return Val("(%d / %d : Rat)" % (fr.numerator, fr.denominator), Q)

    def toQ(self, v):
        if v.ty == Q:
            return v
        if v.ty == NAT:
            if v.lit is not None:
                return Val("(%d : Rat)" % v.lit, Q)
            return Val("((%s : Nat) : Rat)" % v.term, Q)
        raise Refuse("a %r where a number is needed" % (v.ty,))

    def unify(self, a, b):
        if a.ty == b.ty and a.ty in (Q, NAT):
            return a, b
        if {a.ty, b.ty} == {Q, NAT}:
            return self.toQ(a), self.toQ(b)
        raise Refuse("operands of types %r and %r" % (a.ty, b.ty))

    # -- scopes -----------------------------------------------------------------------------
    def wrap(self, sc, final):
        out = final
        for kind, n, t in reversed(sc.entries):
            if kind == "let":
                out = "(let %s := %s; %s)" % (n, t, out)
            else:
                out = "(GenS.bind %s fun %s => %s)" % (t, n, out)
        return out

    def bindm(self, sc, mterm, ty, base="x"):
        n = self.fresh(base)
        sc.entries.append(("bind", n, mterm))
        return Val(n, ty)

    # -- expressions ------------------------------------------------------------------------
    def expr(self, e, env, sc):
        meth = getattr(self, "e_" + type(e).__name__, None)
        if meth is None:
            raise Refuse("expression %s (line %d)" % (type(e).__name__, getattr(e, "lineno", 0)))
        return meth(e, env, sc)

    def cond(self, e, env, sc):
        v = self.expr(e, env, sc)
        if v.ty != B:
            raise Refuse("condition is not a comparison (line %d)" % e.lineno)
        return v

    def e_Constant(self, e, env, sc):
        v = e.value
        if isinstance(v, bool) or v is None or isinstance(v, (str, bytes, complex)):
            raise Refuse("constant %r" % (v,))
        if isinstance(v, int):
            if v < 0:
                raise Refuse("negative literal")
            return Val("(%d : Nat)" % v, NAT, lit=v)
        if isinstance(v, float):
            return self.float_literal(e)
        raise Refuse("constant %r" % (v,))

    def e_Name(self, e, env, sc):
        b = env.get(e.id)
        if b is LEAKED:
            raise Refuse("use of the loop-local variable %s outside its iteration" % e.id)
        if b is None:
            raise Refuse("name %s (line %d)" % (e.id, e.lineno))
        if isinstance(b, Val) and b.ty == BOOLP:
            return Val("(%s = true)" % b.term, B)
        if isinstance(b, Macro):
            raise Refuse("function %s used as a value" % e.id)
        return b

    def is_attr_param(self, node, env):
        return isinstance(node, ast.Name) and isinstance(env.get(node.id), Val) and env.get(node.id).ty == ATTR

    def fit_of(self, ind):
        v = Val("<fitness of %s>" % ind.term, FIT)
        v.ind = ind.term
        return v

    def e_Attribute(self, e, env, sc):
        v = self.expr(e.value, env, sc)
        if v.ty == IND and e.attr == "fitness":
            if self.has_attr_param:
                raise Refuse("`.fitness` in a function that is told which attribute to use (fit_attr) (line %d)" % e.lineno)
            return self.fit_of(v)
        if v.ty == FIT:
            if e.attr == "values":
                r = Val("(GenS.valuesAt w pop %s)" % v.ind, VALUES)
                r.ind = v.ind
                return r
            if e.attr == "wvalues":
                return Val("(Selection.wvAt pop %s)" % v.ind, L(Q))
            if e.attr == "weights":
                return Val("w", L(Q))
            if e.attr == "crowding_dist":
                return Val("(Selection.cdAt pop %s)" % v.ind, Q)
        raise Refuse("attribute .%s of %r (line %d)" % (e.attr, v.ty, e.lineno))

    def e_UnaryOp(self, e, env, sc):
        if isinstance(e.op, ast.Not):
            v = self.cond(e.operand, env, sc)
            return Val("(¬ %s)" % v.term, B)
        raise Refuse("unary operator %s" % type(e.op).__name__)

    def arith(self, op, a, b, lineno):
        if isinstance(op, ast.Add) and a.ty[0] == "L" and b.ty[0] == "L" and same(a.ty, b.ty):
            return Val("(%s ++ %s)" % (a.term, b.term), a.ty if a.ty[1] != ANY else b.ty)
        if a.ty not in (Q, NAT) or b.ty not in (Q, NAT):
            raise Refuse("arithmetic on %r, %r (line %d)" % (a.ty, b.ty, lineno))
        if isinstance(op, (ast.Add, ast.Mult)):
            a, b = self.unify(a, b)
            return Val("(%s %s %s)" % (a.term, "+" if isinstance(op, ast.Add) else "*", b.term), a.ty)
        if isinstance(op, ast.Sub):
            if a.ty == NAT and b.ty == NAT:
                raise Refuse("subtraction of naturals (line %d)" % lineno)
            a, b = self.unify(a, b)
            return Val("(%s - %s)" % (a.term, b.term), Q)
        if isinstance(op, ast.Div):
            return Val("(%s / %s)" % (self.toQ(a).term, self.toQ(b).term), Q)
        if isinstance(op, ast.Mod):
            if a.ty == NAT and b.ty == NAT and b.lit is not None and b.lit > 0:
                return Val("(%s %% %d)" % (a.term, b.lit), NAT)
            raise Refuse("%% other than a natural by a positive literal")
        raise Refuse("operator %s" % type(op).__name__)

    def e_BinOp(self, e, env, sc):
        a = self.expr(e.left, env, sc)
        b = self.expr(e.right, env, sc)
        return self.arith(e.op, a, b, e.lineno)

    def compare1(self, op, a, b):
        if a.ty == FIT and b.ty == FIT:
            if isinstance(op, ast.Lt):
                return "(Selection.fitLt pop %s %s = true)" % (a.ind, b.ind)
            if isinstance(op, ast.Gt):
                return "(Selection.fitGt pop %s %s = true)" % (a.ind, b.ind)
            raise Refuse("comparison %s of fitnesses" % type(op).__name__)
        if a.ty not in (Q, NAT) or b.ty not in (Q, NAT):
            raise Refuse("comparison of %r, %r" % (a.ty, b.ty))
        a, b = self.unify(a, b)
        sym = {ast.Lt: "<", ast.Gt: ">", ast.LtE: "≤", ast.GtE: "≥", ast.Eq: "=", ast.NotEq: "≠"}.get(type(op))
        if sym is None:
            raise Refuse("comparison %s" % type(op).__name__)
        return "(%s %s %s)" % (a.term, sym, b.term)

    def e_Compare(self, e, env, sc):
        operands = [e.left] + list(e.comparators)
        vals = []
        for k, o in enumerate(operands):
            sub = sc if k < 2 else Scope()
            vals.append(self.expr(o, env, sub))
            if k >= 2 and sub.entries:
                raise Refuse("chained comparison whose later operands need evaluation")
        parts = [self.compare1(op, vals[k], vals[k + 1]) for k, op in enumerate(e.ops)]
        return Val(parts[0] if len(parts) == 1 else "(%s)" % " ∧ ".join(parts), B)

    def e_BoolOp(self, e, env, sc):
        parts = []
        for v in e.values:
            sub = Scope()
            x = self.cond(v, env, sub)
            if sub.entries:
                raise Refuse("and/or with an operand that needs evaluation order")
            parts.append(x.term)
        return Val("(%s)" % (" ∧ " if isinstance(e.op, ast.And) else " ∨ ").join(parts), B)

    def builtin(self, node, env, names):
        return isinstance(node, ast.Name) and node.id in names and env.get(node.id) is None \
            and self.m.globals.get(node.id) is None

    def e_IfExp(self, e, env, sc):
        c = self.cond(e.test, env, sc)
        if self.builtin(e.body, env, ("max", "min")) and self.builtin(e.orelse, env, ("max", "min")):
            t = {"max": "GenS.maxQ", "min": "GenS.minQ"}
            return Val("(if %s then %s else %s)" % (c.term, t[e.body.id], t[e.orelse.id]), FUN)
        sa, sb = Scope(), Scope()
        a = self.expr(e.body, env, sa)
        b = self.expr(e.orelse, env, sb)
        if a.ty != b.ty:
            a, b = self.unify(a, b)
        if a.ty in (B, FIT, VALUES, FUN, ATTR, KEY):
            raise Refuse("conditional expression of type %r" % (a.ty,))
        if not sa.entries and not sb.entries:
            return Val("(if %s then %s else %s)" % (c.term, a.term, b.term), a.ty)
        ta = self.wrap(sa, "GenS.pure %s" % a.term)
        tb = self.wrap(sb, "GenS.pure %s" % b.term)
        return self.bindm(sc, "(if %s then %s else %s)" % (c.term, ta, tb), a.ty)

    def e_Subscript(self, e, env, sc):
        v = self.expr(e.value, env, sc)
        if v.ty != VALUES and v.ty[0] != "L":
            raise Refuse("subscript of %r (line %d)" % (v.ty, e.lineno))
        ety = Q if v.ty == VALUES else v.ty[1]
        s = e.slice
        if isinstance(s, ast.Slice):
            if s.step is not None or v.ty == VALUES:
                raise Refuse("slice with a step / of .values")
            lo = self.expr(s.lower, env, sc) if s.lower is not None else None
            hi = self.expr(s.upper, env, sc) if s.upper is not None else None
            for x in (lo, hi):
                if x is not None and x.ty != NAT:
                    raise Refuse("slice bound of type %r" % (x.ty,))
            if lo is None and hi is not None:
                return Val("(List.take %s %s)" % (hi.term, v.term), v.ty)
            if hi is None and lo is not None:
                return Val("(List.drop %s %s)" % (lo.term, v.term), v.ty)
            if lo is None and hi is None:
                return v
            raise Refuse("slice with two bounds")
        i = self.expr(s, env, sc)
        if i.ty != NAT:
            raise Refuse("index of type %r (line %d)" % (i.ty, e.lineno))
        return self.bindm(sc, "(GenS.lift (%s[%s]?))" % (v.term, i.term), ety)

    def seq_display(self, elts, env, sc):
        if not elts:
            return Val("[]", L(ANY))
        if any(isinstance(x, ast.Starred) for x in elts):
            raise Refuse("starred element")
        vs = [self.expr(x, env, sc) for x in elts]
        tys = {v.ty for v in vs}
        if tys == {Q, NAT}:
            vs = [self.toQ(v) for v in vs]
        elif len(tys) != 1:
            raise Refuse("display of mixed types")
        if vs[0].ty in (B, FIT, VALUES, FUN, ATTR, KEY):
            raise Refuse("display of %r" % (vs[0].ty,))
        return Val("[%s]" % ", ".join(v.term for v in vs), L(vs[0].ty))

    def e_List(self, e, env, sc):
        return self.seq_display(e.elts, env, sc)

    def e_Tuple(self, e, env, sc):
        return self.seq_display(e.elts, env, sc)

    def comprehension(self, e, env, sc):
        if len(e.generators) != 1:
            raise Refuse("nested comprehension")
        g = e.generators[0]
        if g.is_async or len(g.ifs) > 1 or not isinstance(g.target, ast.Name):
            raise Refuse("comprehension shape (line %d)" % e.lineno)
        src = self.expr(g.iter, env, sc)
        if src.ty[0] != "L" or src.ty[1] == ANY:
            raise Refuse("iteration over %r" % (src.ty,))
        ety = src.ty[1]
        inner = Env(env)
        p = self.lname(g.target.id)
        inner.set(g.target.id, Val(p, ety))
        bt = "fun (%s : %s) => " % (p, lean_type(ety))
        seq = src
        if g.ifs:
            csc = Scope()
            c = self.cond(g.ifs[0], inner, csc)
            if not csc.entries:
                seq = Val("(List.filter (%sdecide %s) %s)" % (bt, c.term, src.term), src.ty)
            else:
                seq = self.bindm(sc, "(GenS.filterM (%s%s) %s)" % (bt, self.wrap(csc, "GenS.pure (decide %s)" % c.term), src.term),
                                 src.ty, "l")
        if isinstance(e.elt, ast.Name) and e.elt.id == g.target.id:
            return seq
        sub = Scope()
        body = self.expr(e.elt, inner, sub)
        if body.ty in (B, FIT, VALUES, FUN, ATTR, KEY):
            raise Refuse("comprehension of %r" % (body.ty,))
        if not sub.entries:
            return Val("(List.map (%s%s) %s)" % (bt, body.term, seq.term), L(body.ty))
        return self.bindm(sc, "(GenS.mapM (%s%s) %s)" % (bt, self.wrap(sub, "GenS.pure %s" % body.term), seq.term), L(body.ty), "l")

    e_GeneratorExp = comprehension
    e_ListComp = comprehension

    def is_random(self, f, env):
        return isinstance(f, ast.Attribute) and isinstance(f.value, ast.Name) and f.value.id == "random" \
            and env.get("random") is None and self.m.globals.get("random") == ("other", "random", None)

    def key_is_fit_attr(self, kw, env):
        """key=attrgetter(fit_attr) with the parameter fit_attr, or a variable that holds exactly that"""
        v = kw.value
        if kw.arg == "key" and isinstance(v, ast.Name) and isinstance(env.get(v.id), Val) and env.get(v.id).ty == KEY:
            return True
        return kw.arg == "key" and self.is_attrgetter_call(v, env)

    def is_attrgetter_call(self, v, env):
        return isinstance(v, ast.Call) and isinstance(v.func, ast.Name) and v.func.id == "attrgetter" \
            and env.get("attrgetter") is None and self.m.globals.get("attrgetter") == ("other", "operator", "attrgetter") \
            and len(v.args) == 1 and not v.keywords and self.is_attr_param(v.args[0], env)

    def e_Call(self, e, env, sc):
        if any(isinstance(a, ast.Starred) for a in e.args) or any(k.arg is None for k in e.keywords):
            raise Refuse("starred argument")
        f = e.func
        n = len(e.args)
        if self.is_random(f, env):
            if e.keywords:
                raise Refuse("keyword argument of random.%s" % f.attr)
            if f.attr == "random" and n == 0:
                return self.bindm(sc, "Selection.popRandom", Q, "r")
            if f.attr == "choice" and n == 1:
                a = self.expr(e.args[0], env, sc)
                if a.ty[0] != "L" or a.ty[1] == ANY:
                    raise Refuse("random.choice of %r" % (a.ty,))
                return self.bindm(sc, "(GenS.choice %s)" % a.term, a.ty[1], "c")
            if f.attr == "uniform" and n == 2:
                a = self.toQ(self.expr(e.args[0], env, sc))
                b = self.toQ(self.expr(e.args[1], env, sc))
                return self.bindm(sc, "(GenS.uniform %s %s)" % (a.term, b.term), Q, "r")
            if f.attr == "sample" and n == 2:
                x, k = e.args
                if isinstance(x, ast.Name) and isinstance(k, ast.Call) and isinstance(k.func, ast.Name) and k.func.id == "len" \
                        and env.get("len") is None and len(k.args) == 1 and isinstance(k.args[0], ast.Name) and k.args[0].id == x.id:
                    a = self.expr(x, env, sc)
                    if a.ty[0] == "L" and a.ty[1] != ANY:
                        return self.bindm(sc, "(GenS.sampleAll %s)" % a.term, a.ty, "s")
                raise Refuse("random.sample other than sample(x, len(x)) (line %d)" % e.lineno)
            raise Refuse("random.%s/%d (line %d)" % (f.attr, n, e.lineno))
        if isinstance(f, ast.Attribute) and f.attr == "dominates" and n == 1 and not e.keywords:
            a = self.expr(f.value, env, sc)
            b = self.expr(e.args[0], env, sc)
            if a.ty == FIT and b.ty == FIT:
                return Val("(Selection.fitDom pop %s %s = true)" % (a.ind, b.ind), B)
            raise Refuse("dominates on %r" % (a.ty,))
        if not isinstance(f, ast.Name):
            raise Refuse("call of %s (line %d)" % (ast.dump(f)[:50], e.lineno))
        b = env.get(f.id)
        if isinstance(b, Macro):
            return self.inline(b, e, env, sc)
        if isinstance(b, Val) and b.ty == FUN and n == 1 and not e.keywords:
            a = self.expr(e.args[0], env, sc)
            if a.ty != L(Q):
                raise Refuse("max/min of %r" % (a.ty,))
            return self.bindm(sc, "(GenS.lift (%s %s))" % (b.term, a.term), Q, "m")
        if b is not None:
            raise Refuse("call of the value %s" % f.id)
        if self.is_attrgetter_call(e, env):
            return Val("<attrgetter(fit_attr)>", KEY)
        g = self.m.globals.get(f.id)
        if g is not None:
            if g[0] == "func":
                fd = g[1]
                if fd.decorator_list:
                    raise Refuse("call of the decorated function %s" % fd.name)
                return self.inline(Macro(self.param_names(fd.args), fd.body, None, fd.name, False), e, env, sc)
            raise Refuse("call of %s (line %d)" % (f.id, e.lineno))
        name = f.id
        kws = {k.arg: k for k in e.keywords}
        if name in ("sorted", "max") and n == 1 and "key" in kws:
            rev = False
            if name == "sorted" and set(kws) == {"key", "reverse"}:
                rv = kws["reverse"].value
                if not (isinstance(rv, ast.Constant) and isinstance(rv.value, bool)):
                    raise Refuse("reverse= is not a literal")
                rev = rv.value
            elif set(kws) != {"key"}:
                raise Refuse("keywords of %s" % name)
            a = self.expr(e.args[0], env, sc)
            if a.ty != L(IND):
                raise Refuse("%s with a key over %r" % (name, a.ty))
            if not self.key_is_fit_attr(kws["key"], env):
                raise Refuse("%s with a key other than attrgetter(fit_attr) (line %d)" % (name, e.lineno))
            if name == "sorted":
                return Val("(Selection.%s (Selection.fitLt pop) %s)" % ("sortedDesc" if rev else "sortedAsc", a.term), L(IND))
            return self.bindm(sc, "(GenS.lift (Selection.pyMax (Selection.fitGt pop) %s))" % a.term, IND, "b")
        if e.keywords:
            raise Refuse("keyword arguments of %s (line %d)" % (name, e.lineno))
        if name == "getattr" and n == 2:
            a = self.expr(e.args[0], env, sc)
            if a.ty == IND and self.is_attr_param(e.args[1], env):
                return self.fit_of(a)
            raise Refuse("getattr other than getattr(individual, fit_attr) (line %d)" % e.lineno)
        if name == "len" and n == 1:
            a = self.expr(e.args[0], env, sc)
            if a.ty == IND:
                return Val("(Selection.sizeAt pop %s)" % a.term, NAT)
            if a.ty == VALUES or a.ty[0] == "L":
                return Val("(%s).length" % a.term, NAT)
            raise Refuse("len of %r" % (a.ty,))
        if name == "float" and n == 1:
            return self.toQ(self.expr(e.args[0], env, sc))
        if name == "abs" and n == 1:
            a = self.expr(e.args[0], env, sc)
            if a.ty == Q:
                return Val("(Selection.absRat %s)" % a.term, Q)
            raise Refuse("abs of %r" % (a.ty,))
        if name == "sum" and n == 1:
            a = self.expr(e.args[0], env, sc)
            if a.ty == L(Q):
                return Val("(Selection.pySum %s)" % a.term, Q)
            raise Refuse("sum of %r" % (a.ty,))
        if name in ("max", "min") and n == 1:
            a = self.expr(e.args[0], env, sc)
            if a.ty == L(Q):
                return self.bindm(sc, "(GenS.lift (GenS.%sQ %s))" % (name, a.term), Q, "m")
            raise Refuse("%s of %r" % (name, a.ty))
        if name in ("list", "tuple") and n == 1:
            a = self.expr(e.args[0], env, sc)
            if a.ty[0] != "L":
                raise Refuse("%s of %r" % (name, a.ty))
            return a
        if name == "range" and n in (1, 2, 3):
            args = [self.expr(a, env, sc) for a in e.args]
            if any(a.ty != NAT for a in args):
                raise Refuse("range of non-naturals")
            if n == 1:
                return Val("(List.range %s)" % args[0].term, L(NAT))
            if n == 2:
                return Val("(GenS.rangeStep %s %s 1)" % (args[0].term, args[1].term), L(NAT))
            if args[2].lit is not None and args[2].lit > 0:
                return Val("(GenS.rangeStep %s %s %d)" % (args[0].term, args[1].term, args[2].lit), L(NAT))
            raise Refuse("range with a step that is not a positive literal")
        raise Refuse("call of %s/%d (line %d)" % (name, n, e.lineno))

    # -- inlining ---------------------------------------------------------------------------
    def param_names(self, args):
        if args.vararg or args.kwarg or args.kwonlyargs or args.posonlyargs or args.defaults:
            raise Refuse("*args / keyword-only / default parameters of an inlined function")
        return [a.arg for a in args.args]

    def free_names(self, mac):
        bound = set(mac.params)
        for st in mac.body:
            for node in ast.walk(st):
                if isinstance(node, ast.Name) and isinstance(node.ctx, ast.Store):
                    bound.add(node.id)
                elif isinstance(node, ast.FunctionDef):
                    bound.add(node.name)
        out = set()
        for st in mac.body:
            for node in ast.walk(st):
                if isinstance(node, ast.Name) and isinstance(node.ctx, ast.Load) and node.id not in bound:
                    out.add(node.id)
        return out

    def inline(self, mac, call, env, sc):
        if mac.name in self.inline_stack or mac.name == self.fn.name:
            raise Refuse("recursion through %s" % mac.name)
        if mac.is_expr:
            raise Refuse("lambda")
        given = {}
        if len(call.args) > len(mac.params):
            raise Refuse("call of %s with %d arguments" % (mac.name, len(call.args)))
        for p, a in zip(mac.params, call.args):
            given[p] = a
        for k in call.keywords:
            if k.arg not in mac.params or k.arg in given:
                raise Refuse("keyword %s of %s" % (k.arg, mac.name))
            given[k.arg] = k.value
        if set(given) != set(mac.params):
            raise Refuse("call of %s does not give every parameter" % mac.name)
        # arguments in source order (positional, then keywords), evaluated in the caller's scope
        vals = {}
        for p in list(mac.params[:len(call.args)]) + [k.arg for k in call.keywords]:
            v = self.expr(given[p], env, sc)
            if isinstance(v, Macro) or v.ty in (B, FUN):
                raise Refuse("function / condition passed as an argument")
            if v.ty in (FIT, VALUES, ATTR, KEY):
                raise Refuse("%r passed as an argument" % (v.ty,))
            tmp = self.fresh("a")
            sc.entries.append(("let", tmp, v.term))
            vals[p] = Val(tmp, v.ty, v.lit)
        defenv = mac.env if mac.env is not None else Env()
        for nm in self.free_names(mac):
            if defenv.get(nm) is not env.get(nm) and not (defenv.get(nm) is None and mac.env is None and env.get(nm) is None):
                if mac.env is None and defenv.get(nm) is None:
                    # a module function reads a global; a caller's local of that name would capture it
                    raise Refuse("call of %s where the local %s hides a global it reads" % (mac.name, nm))
                raise Refuse("free variable %s of %s denotes another binding at the call" % (nm, mac.name))
        inner = Env(defenv)
        isc = Scope()
        for p in mac.params:
            n = self.lname(p)
            isc.entries.append(("let", n, vals[p].term))
            inner.set(p, Val(n, vals[p].ty, vals[p].lit))
        self.inline_stack.append(mac.name)
        saved = self.ret_ty
        self.ret_ty = None
        try:
            body = self.block(list(mac.body), inner, None, None)
            rty = self.ret_ty
        finally:
            self.ret_ty = saved
            self.inline_stack.pop()
        return self.bindm(sc, self.wrap(isc, body), rty, "f")

    # -- statements -------------------------------------------------------------------------
    def assign(self, name, val, env, sc):
        if isinstance(val, Macro):
            env.set(name, val)
            return
        if val.ty in (B, FIT, VALUES, ATTR):
            raise Refuse("a %r stored in a variable" % (val.ty,))
        if val.ty == KEY:
            env.set(name, val)          # no Lean value: only usable as `key=` of sorted / max
            return
        if name in self.params and self.inline_stack == [] and val.ty[0] == "L":
            pass
        n = self.lname(name)
        if val.term != n:
            sc.entries.append(("let", n, val.term))
        env.set(name, Val(n, val.ty, val.lit))

    def local_list(self, name, env, what):
        lst = env.get(name)
        if not isinstance(lst, Val) or lst.ty[0] != "L":
            raise Refuse("%s on a non-list %s" % (what, name))
        if getattr(lst, "is_param", False):
            raise Refuse("%s mutates the argument %s" % (what, name))
        return lst

    def method_stmt(self, st):
        """(receiver name, method, args) of a statement `x.m(args)` on a plain name, or None"""
        if isinstance(st, ast.Expr) and isinstance(st.value, ast.Call) and isinstance(st.value.func, ast.Attribute) \
                and isinstance(st.value.func.value, ast.Name) and not st.value.keywords:
            return st.value.func.value.id, st.value.func.attr, st.value.args
        return None

    def simple_stmt(self, st, env, sc):
        if isinstance(st, ast.Expr) and isinstance(st.value, ast.Constant) and isinstance(st.value.value, str):
            return True
        if isinstance(st, ast.Assign):
            if len(st.targets) != 1:
                raise Refuse("multiple assignment targets")
            tg = st.targets[0]
            if isinstance(tg, ast.Tuple) and isinstance(st.value, ast.Tuple) and len(tg.elts) == len(st.value.elts) \
                    and all(isinstance(t, ast.Name) for t in tg.elts):
                vals = [self.expr(v, env, sc) for v in st.value.elts]
                tmps = []
                for v in vals:
                    if isinstance(v, Macro) or v.ty in (B, FIT, VALUES, ATTR, FUN, KEY):
                        raise Refuse("tuple assignment of %r" % (getattr(v, "ty", "function"),))
                    n = self.fresh("u")
                    sc.entries.append(("let", n, v.term))
                    tmps.append(Val(n, v.ty, v.lit))
                for t, v in zip(tg.elts, tmps):
                    self.assign(t.id, v, env, sc)
                return True
            if isinstance(tg, ast.Tuple) and all(isinstance(t, ast.Name) for t in tg.elts):
                # a, b = <list of known length?> : only a call result that is a list; length checked at run time
                v = self.expr(st.value, env, sc)
                if v.ty[0] != "L" or v.ty[1] == ANY:
                    raise Refuse("unpacking of %r" % (v.ty,))
                names = [self.fresh("u") for _ in tg.elts]
                pat = "[%s]" % ", ".join(names)
                got = self.bindm(sc, "(GenS.lift (match %s with | %s => some (%s) | _ => none))"
                                 % (v.term, pat, state_tuple(names)), ANY, "p")
                for k, t in enumerate(tg.elts):
                    self.assign(t.id, Val(state_proj(got.term, k, len(names)), v.ty[1]), env, sc)
                return True
            if not isinstance(tg, ast.Name):
                raise Refuse("assignment target (line %d)" % st.lineno)
            if isinstance(st.value, ast.Lambda):
                raise Refuse("lambda")
            v = self.expr(st.value, env, sc)
            if isinstance(st.value, ast.Name) and isinstance(v, Val) and v.ty[0] == "L" and getattr(v, "is_param", False):
                v = Val(v.term, v.ty)          # `candidates = individuals`: a new NAME; mutation through it is refused below
                v.is_param = True
            self.assign(tg.id, v, env, sc)
            if getattr(v, "is_param", False):
                env.get(tg.id).is_param = True
            return True
        if isinstance(st, ast.AugAssign):
            if not isinstance(st.target, ast.Name):
                raise Refuse("augmented assignment target")
            cur = self.e_Name(ast.Name(id=st.target.id, ctx=ast.Load(), lineno=st.lineno), env, sc)
            rhs = self.expr(st.value, env, sc)
            self.assign(st.target.id, self.arith(st.op, cur, rhs, st.lineno), env, sc)
            return True
        if isinstance(st, ast.FunctionDef):
            if st.decorator_list:
                raise Refuse("decorated nested function")
            self.assign(st.name, Macro(self.param_names(st.args), st.body, env, st.name, False), env, sc)
            return True
        ms = self.method_stmt(st)
        if ms is not None:
            name, meth, args = ms
            if name == "random" and self.is_random(st.value.func, env):
                if meth == "shuffle" and len(args) == 1 and isinstance(args[0], ast.Name):
                    lst = self.local_list(args[0].id, env, "random.shuffle")
                    if lst.ty[1] == ANY:
                        raise Refuse("shuffle of a list of unknown element type")
                    got = self.bindm(sc, "(GenS.shuffle %s)" % lst.term, lst.ty, "s")
                    self.assign(args[0].id, got, env, sc)
                    return True
                raise Refuse("random.%s as a statement" % meth)
            if meth == "append" and len(args) == 1:
                lst = self.local_list(name, env, "append")
                a = self.expr(args[0], env, sc)
                if a.ty == NAT and lst.ty[1] == Q:
                    a = self.toQ(a)
                if not same(L(a.ty), lst.ty) or a.ty in (B, FIT, VALUES, ATTR, FUN, KEY):
                    raise Refuse("append of %r to %r" % (a.ty, lst.ty))
                self.assign(name, Val("(%s ++ [%s])" % (lst.term, a.term), L(a.ty)), env, sc)
                return True
            if meth == "pop" and len(args) == 1 and isinstance(args[0], ast.Constant) and args[0].value == 0 \
                    and not isinstance(args[0].value, bool):
                lst = self.local_list(name, env, "pop")
                got = self.bindm(sc, "(GenS.lift (GenS.popFront %s))" % lst.term, lst.ty, "q")
                self.assign(name, got, env, sc)
                return True
            raise Refuse("statement %s.%s(…) (line %d)" % (name, meth, st.lineno))
        if isinstance(st, ast.For):
            self.for_loop(st, env, sc)
            return True
        if isinstance(st, ast.While):
            self.while_loop(st, env, sc)
            return True
        return False

    def assigned_in(self, stmts):
        """names (re)bound by the statements, including in-place list mutation; loop variables of inner loops"""
        out, loopvars = set(), set()
        for st in stmts:
            for node in ast.walk(st):
                if isinstance(node, (ast.Assign, ast.AugAssign)):
                    ts = node.targets if isinstance(node, ast.Assign) else [node.target]
                    for t in ts:
                        for x in ([t] if not isinstance(t, ast.Tuple) else t.elts):
                            if not isinstance(x, ast.Name):
                                raise Refuse("assignment target inside a loop (line %d)" % node.lineno)
                            out.add(x.id)
                elif isinstance(node, ast.Expr):
                    ms = self.method_stmt(node)
                    if ms is not None:
                        name, meth, args = ms
                        if name == "random" and meth == "shuffle" and len(args) == 1 and isinstance(args[0], ast.Name):
                            out.add(args[0].id)
                        elif meth in ("append", "pop"):
                            out.add(name)
                elif isinstance(node, ast.For):
                    if not isinstance(node.target, ast.Name):
                        raise Refuse("loop target")
                    loopvars.add(node.target.id)
                elif isinstance(node, ast.FunctionDef):
                    raise Refuse("def inside a loop body")
                elif isinstance(node, (ast.Return, ast.Try, ast.With, ast.Global, ast.Nonlocal, ast.Delete)):
                    raise Refuse("%s inside a loop body" % type(node).__name__)
        return out, loopvars

    def loop_body(self, stmts, env, state, binder):
        """`fun <binder> (st : σ) => …` : M (Bool × σ); retried with an int literal state variable coerced to float"""
        n = len(state)
        tys = [env.get(nm).ty for nm in state]
        inner = Env(env)
        isc = Scope()
        for k, nm in enumerate(state):
            isc.entries.append(("let", self.lname(nm), state_proj("st", k, n)))
            inner.set(nm, Val(self.lname(nm), tys[k]))
        ctx = LoopCtx(list(zip(state, tys)))
        body = self.block(list(stmts), inner, ctx, ctx)
        sty = state_type(tys)
        return "(fun %s(st : %s) => %s)" % (binder, sty, self.wrap(isc, body))

    def with_state(self, env, sc, state, build):
        """run `build()` (which compiles the loop with the current types of the state variables); when the body turns an
        int-literal variable into a float (sum_ = 0 … sum_ += x), coerce the initial value and compile again"""
        for _ in range(2 * len(state) + 1):
            try:
                return build()
            except TypeChange as tc:
                cur = env.get(tc.name)
                if cur.ty == NAT and cur.lit is not None and tc.ty == Q:
                    self.assign(tc.name, Val("(%d : Rat)" % cur.lit, Q), env, sc)
                    continue
                if cur.ty[0] == "L" and cur.ty[1] == ANY and tc.ty is not None and tc.ty[0] == "L":
                    env.set(tc.name, Val(cur.term, tc.ty))      # `chosen = []` … `chosen.append(ind)`: the element type
                    continue
                raise Refuse("the loop changes the type of %s" % tc.name)
        raise Refuse("loop state types do not settle")

    def after_loop(self, env, sc, state, got, assigned, loopvars):
        n = len(state)
        for k, nm in enumerate(state):
            old = env.get(nm)
            self.assign(nm, Val(state_proj(got.term, k, n), old.ty), env, sc)
        for nm in sorted((assigned | loopvars) - set(state)):
            env.set(nm, LEAKED)

    def for_loop(self, st, env, sc):
        if st.orelse:
            raise Refuse("for/else")
        if not isinstance(st.target, ast.Name):
            raise Refuse("loop target (line %d)" % st.lineno)
        assigned, loopvars = self.assigned_in(st.body)
        src = self.expr(st.iter, env, sc)
        if src.ty[0] != "L" or src.ty[1] == ANY:
            raise Refuse("iteration over %r" % (src.ty,))
        tn = st.target.id
        if isinstance(env.get(tn), (Val, Macro)) or tn in assigned:
            raise Refuse("loop variable %s re-uses the name of a variable" % tn)
        for lv in loopvars:
            if isinstance(env.get(lv), (Val, Macro)):
                raise Refuse("loop variable %s re-uses the name of a variable" % lv)
        state = [nm for nm in sorted(assigned) if isinstance(env.get(nm), Val)]
        for nm in state:
            if getattr(env.get(nm), "is_param", False) and env.get(nm).ty[0] == "L":
                self.check_not_mutated(st.body, nm)

        def build():
            inner = Env(env)
            inner.set(tn, Val(self.lname(tn), src.ty[1]))
            binder = "(%s : %s) " % (self.lname(tn), lean_type(src.ty[1]))
            body = self.loop_body(st.body, inner, state, binder)
            init = state_tuple([env.get(nm).term for nm in state])
            return "(GenS.forLoop %s %s %s)" % (body, src.term, init)
        term = self.with_state(env, sc, state, build)
        got = self.bindm(sc, term, ANY, "s")
        self.after_loop(env, sc, state, got, assigned, loopvars | {tn})

    def check_not_mutated(self, stmts, nm):
        for s in stmts:
            for node in ast.walk(s):
                if isinstance(node, ast.Expr):
                    ms = self.method_stmt(node)
                    if ms and (ms[0] == nm or (ms[0] == "random" and ms[2] and isinstance(ms[2][0], ast.Name) and ms[2][0].id == nm)):
                        raise Refuse("in-place mutation of the argument behind %s" % nm)

    def while_variant(self, st, env, state):
        body = st.body
        for node in ast.walk(ast.Module(body=body, type_ignores=[])):
            if isinstance(node, ast.Continue):
                raise Refuse("continue inside while")
        # (a) a list popped once, unconditionally, at the top level; `len(X) > 0` a conjunct of the condition
        conj = st.test.values if isinstance(st.test, ast.BoolOp) and isinstance(st.test.op, ast.And) else [st.test]
        for c in conj:
            if isinstance(c, ast.Compare) and len(c.ops) == 1 and isinstance(c.ops[0], ast.Gt) \
                    and isinstance(c.left, ast.Call) and isinstance(c.left.func, ast.Name) and c.left.func.id == "len" \
                    and env.get("len") is None and len(c.left.args) == 1 and isinstance(c.left.args[0], ast.Name) \
                    and isinstance(c.comparators[0], ast.Constant) and c.comparators[0].value == 0 \
                    and not isinstance(c.comparators[0].value, bool):
                x = c.left.args[0].id
                tops = [s for s in body if self.method_stmt(s) and self.method_stmt(s)[0] == x]
                if len(tops) == 1 and self.method_stmt(tops[0])[1] == "pop" and self.count_assign(body, x) == 1 \
                        and isinstance(env.get(x), Val) and env.get(x).ty[0] == "L":
                    return "(%s).length" % env.get(x).term
        # (b) a counter incremented once at the top level, then used unconditionally as an index of an unassigned list
        for k, s in enumerate(body):
            if isinstance(s, ast.AugAssign) and isinstance(s.op, ast.Add) and isinstance(s.target, ast.Name) \
                    and isinstance(s.value, ast.Constant) and isinstance(s.value.value, int) and not isinstance(s.value.value, bool) \
                    and s.value.value > 0:
                i = s.target.id
                cur = env.get(i)
                if not isinstance(cur, Val) or cur.ty != NAT or self.count_assign(body, i) != 1:
                    continue
                for later in body[k + 1:]:
                    if isinstance(later, (ast.If, ast.For, ast.While)):
                        break
                    for node in ast.walk(later):
                        if isinstance(node, ast.IfExp) or isinstance(node, ast.BoolOp) or isinstance(node, (ast.ListComp, ast.GeneratorExp)):
                            break
                        if isinstance(node, ast.Subscript) and isinstance(node.value, ast.Name) and isinstance(node.slice, ast.Name) \
                                and node.slice.id == i:
                            S = node.value.id
                            sv = env.get(S)
                            if isinstance(sv, Val) and sv.ty[0] == "L" and self.count_assign(body, S) == 0:
                                return "((%s).length + 1)" % sv.term
        raise Refuse("while loop without a recognised variant (line %d)" % st.lineno)

    def count_assign(self, stmts, name):
        n = 0
        for s in stmts:
            for node in ast.walk(s):
                if isinstance(node, (ast.Assign, ast.AugAssign)):
                    ts = node.targets if isinstance(node, ast.Assign) else [node.target]
                    for t in ts:
                        for x in ast.walk(t):
                            if isinstance(x, ast.Name) and x.id == name:
                                n += 1
                elif isinstance(node, ast.Expr):
                    ms = self.method_stmt(node)
                    if ms and (ms[0] == name or (ms[0] == "random" and ms[2] and isinstance(ms[2][0], ast.Name)
                                                 and ms[2][0].id == name)):
                        n += 1
                elif isinstance(node, ast.For) and isinstance(node.target, ast.Name) and node.target.id == name:
                    n += 1
        return n

    def while_loop(self, st, env, sc):
        if st.orelse:
            raise Refuse("while/else")
        assigned, loopvars = self.assigned_in(st.body)
        for lv in loopvars:
            if isinstance(env.get(lv), (Val, Macro)):
                raise Refuse("loop variable %s re-uses the name of a variable" % lv)
        state = [nm for nm in sorted(assigned) if isinstance(env.get(nm), Val)]
        for nm in state:
            if getattr(env.get(nm), "is_param", False) and env.get(nm).ty[0] == "L":
                self.check_not_mutated(st.body, nm)

        def build():
            fuel = self.while_variant(st, env, state)
            n = len(state)
            tys = [env.get(nm).ty for nm in state]
            cenv = Env(env)
            csc = Scope()
            for k, nm in enumerate(state):
                csc.entries.append(("let", self.lname(nm), state_proj("st", k, n)))
                cenv.set(nm, Val(self.lname(nm), tys[k]))
            tsc = Scope()
            c = self.cond(st.test, cenv, tsc)
            if tsc.entries:
                raise Refuse("while condition that draws or can raise")
            condf = "(fun (st : %s) => %s)" % (state_type(tys), self.wrap(csc, "decide %s" % c.term))
            body = self.loop_body(st.body, env, state, "")
            init = state_tuple([env.get(nm).term for nm in state])
            return "(GenS.whileLoop %s %s %s %s)" % (condf, body, fuel, init)
        term = self.with_state(env, sc, state, build)
        got = self.bindm(sc, term, ANY, "s")
        self.after_loop(env, sc, state, got, assigned, loopvars)

    def loop_tail(self, env, ctx, brk):
        terms = []
        for nm, ty in ctx.state:
            v = env.get(nm)
            if not isinstance(v, Val):
                raise Refuse("state variable %s lost" % nm)
            if not same(v.ty, ty) or (ty != v.ty and ty[0] == "L"):
                raise TypeChange(nm, v.ty)
            terms.append(v.term)
        return "GenS.pure (%s, %s)" % ("true" if brk else "false", state_tuple(terms))

    def block(self, stmts, env, ctx, tailctx):
        """Lean term of type M R (function body: every path ends in return/raise) or M (Bool × σ) (loop body)"""
        sc = Scope()
        for k, st in enumerate(stmts):
            if self.simple_stmt(st, env, sc):
                continue
            if isinstance(st, ast.Return):
                if ctx is not None:
                    raise Refuse("return inside a loop body")
                if st.value is None:
                    raise Refuse("bare return")
                v = self.expr(st.value, env, sc)
                if isinstance(v, Macro) or v.ty in (B, FIT, VALUES, ATTR, FUN, KEY):
                    raise Refuse("returns %r" % (getattr(v, "ty", "a function"),))
                if self.ret_ty is None or (self.ret_ty[0] == "L" and self.ret_ty[1] == ANY and same(self.ret_ty, v.ty)):
                    self.ret_ty = v.ty
                elif not same(self.ret_ty, v.ty):
                    raise Refuse("returns of different types")
                return self.wrap(sc, "GenS.pure %s" % v.term)
            if isinstance(st, ast.Raise):
                return self.wrap(sc, "GenS.raise")
            if isinstance(st, ast.Assert):
                c = self.cond(st.test, env, sc)
                rest = self.block(stmts[k + 1:], Env(env), ctx, tailctx)
                return self.wrap(sc, "(if %s then %s else GenS.raise)" % (c.term, rest))
            if isinstance(st, ast.Break):
                if ctx is None:
                    raise Refuse("break outside a loop")
                return self.wrap(sc, self.loop_tail(env, ctx, True))
            if isinstance(st, ast.Continue):
                if ctx is None:
                    raise Refuse("continue outside a loop")
                return self.wrap(sc, self.loop_tail(env, ctx, False))
            if isinstance(st, ast.If):
                c = self.cond(st.test, env, sc)
                rest = stmts[k + 1:]
                a = self.block(list(st.body) + rest, Env(env), ctx, tailctx)
                b = self.block(list(st.orelse) + rest, Env(env), ctx, tailctx)
                return self.wrap(sc, "(if %s then %s else %s)" % (c.term, a, b))
            raise Refuse("statement %s (line %d)" % (type(st).__name__, st.lineno))
        if ctx is not None:
            return self.wrap(sc, self.loop_tail(env, ctx, False))
        raise Refuse("a path reaches the end of the function without `return`")

    def translate(self, lean_name):
        fn = self.fn
        if fn.decorator_list:
            raise Refuse("decorated function")
        a = fn.args
        if a.vararg or a.kwarg or a.kwonlyargs or a.posonlyargs:
            raise Refuse("*args / keyword-only parameters")
        params = [x.arg for x in a.args]
        nd = len(a.defaults)
        for p, d in zip(params[len(params) - nd:], a.defaults):
            if self.sig.get(p) != ATTR or not (isinstance(d, ast.Constant) and isinstance(d.value, str)):
                raise Refuse("default value of %s" % p)
        env = Env()
        binders = ["(pop : Selection.Pop)", "(w : List Rat)"]
        self.params = set(params)
        for p in params:
            if p not in self.sig:
                raise Refuse("no declared type for parameter %s" % p)
            ty = self.sig[p]
            v = Val(self.lname(p), ty)
            v.is_param = True
            env.set(p, v)
            if ty != ATTR:
                binders.append("(%s : %s)" % (self.lname(p), lean_type(ty)))
        body = self.block(list(fn.body), env, None, None)
        if self.ret_ty is None:
            raise Refuse("no return")
        return "def %s %s : GenS.M (%s) :=\n  %s" % (lean_name, " ".join(binders), lean_type(self.ret_ty), body), self.ret_ty


def translate_function(module, name, sig, lean_name):
    fn = module.functions.get(name)
    if fn is None:
        raise Refuse("no module-level function %s" % name)
    return SelTranslator(module, fn, sig).translate(lean_name)
