"""py2lean_c03 — translator of the PACKAGED-LOOP sub-language of Python (deap/algorithms.py eaSimple / eaMuPlusLambda /
eaMuCommaLambda / eaGenerateUpdate and loops written in their style) to Lean 4 definitions `Gen.<f>`, used by the C03 check as the TRANSLATOR TIE: the
function bodies are re-read from $DEAP_REPO's current source on every run, rendered, and the committed theorems of
lean/DeapModel/GenEq/C03.lean.tmpl (`Gen.<f>` = the hand-written model of lean/DeapModel/Core/Loops.lean on the decision records the
model's own decoders read off the recorded draws) are re-checked by the Lean kernel.

THIS DOCSTRING IS THE TRANSLATOR'S TRUSTED BASE: the sub-language and the rendering rules.  Everything not listed is REFUSED
(`py2lean.Refuse`), never guessed.  The Lean helpers the rendering uses are lean/DeapModel/Core/GenPreludeC03.lean (`GenL.*`); the
functions of the module a loop calls (`varAnd`, `varOr`) are rendered by harness/py2lean_c02.py (its docstring = their trusted base).

What a translated function is.  A state-passing action `GenL.M σ (List Nat)` over: the operators' private state, the heap of
individuals / fresh-oid counter / call log (`Variation.St`), the ghost records of the model (`log` = what `logbook.record`
received as (gen, nevals); `shown`/`shownObj` = what `halloffame.update` received; `evals` = the calls of `toolbox.evaluate` as
(generation, oid); `gen` = current generation) and the DECISION TAPE — one record per generation, exactly as `Loops.generation`
consumes one decision record per generation: the results of that generation's `toolbox.select` calls (position lists), per
call of `varAnd`/`varOr` the results of the `random` module that call consumes, what `toolbox.generate()` hands back and the order
`toolbox.update` leaves its list in.  `none` = the Python code raises or the recorded
decisions do not fit the calls made.  Statements are sequenced with `GenL.bind` in source order.  The result is the final content
of the list `population` (the logbook is the ghost `log`).

Value types      list of individuals -> `List Nat` (oids)      list of fitness values -> `List (List Int)`      float -> `Float`
                 count (`ngen`, `mu`, `lambda_`, `len(..)`, the generation variable, int literal >= 0) -> `Nat`
Parameters       types come from the caller-supplied table: population (list of individuals), cxpb/mutpb (float), ngen/mu/lambda_
                 (count), toolbox, halloffame, stats, verbose.  Every parameter is explicit in the rendering; a default value is accepted
                 only as `None` (stats, halloffame) or `__debug__`/True/False (verbose) and is not rendered (callers that omit
                 `halloffame` = the rendering at `v_halloffame = false`).
  toolbox        -> `(ops : Variation.Ops σ) (ev : List Int → List Int)`: `toolbox.mate`/`mutate`/`clone` as in py2lean_c02;
                 `toolbox.evaluate` is a FUNCTION OF THE GENOME `ev` (the model's assumption; hence the laziness of `map` is unobservable)
  halloffame     -> `(v_halloffame : Bool)` = "is not None"; the object is reached only as `halloffame.update(L)` under that test
  stats, verbose -> not rendered (no state of the model depends on them): they may occur ONLY in the three skipped idioms below
Statements
  docstring                                                  skipped
  logbook = tools.Logbook()                                  skipped (the ghost `log` is the logbook's (gen, nevals) columns); `Y = logbook` /
                                                             `Y = record`: another name for the same object, skipped
  logbook.header = E                                         skipped; E may contain only literals, lists, `+`, `stats`, `stats.fields`,
                                                             a conditional expression on `stats` / `stats is not None`
  record = stats.compile(L) if stats [is not None] else {}   skipped (`Statistics.compile` only reads; C04's subject); `record` may then
                                                             occur only as `**record` of logbook.record
  if verbose: print(logbook.stream)                          skipped (output only)
  X = [v for v in L if not v.fitness.valid]                  `GenL.bind (GenL.invalid L) fun v_X =>`        (exactly this comprehension)
  X = toolbox.map(toolbox.evaluate, L)                       `GenL.bind (GenL.mapEvaluate ev L) fun v_X =>`  (X: list of fitness values)
  for a, b in zip(L, FS): a.fitness.values = b               `GenL.bind (GenL.assignZip L FS) fun _ =>`      (exactly this loop; L a list of
                                                             individuals, FS a list of fitness values; a, b fresh names)
  if halloffame is not None: halloffame.update(L) …          `GenL.bind (GenL.when v_halloffame (…)) fun _ =>` — no else, no and/or; the body
                                                             only `halloffame.update(L)` statements -> `GenL.hofUpdate L`
  logbook.record(gen=G, nevals=len(L), **record)             `GenL.bind (GenL.record G L.length) fun _ =>`; G an int literal or the generation
                                                             variable; exactly these keywords
  X = toolbox.select(L, K)                                   `GenL.bind (GenL.select L K) fun v_X =>`: the next recorded selection of the
                                                             generation, K positions inside L
  X = f(args…)   f = varAnd / varOr of the same module       `GenL.bind (GenL.callV (Gen.f args…)) fun v_X =>`: the C02 rendering of f, run on
                                                             exactly the draws recorded for this call (f must be translatable by py2lean_c02)
  X = toolbox.generate()                                     `GenL.bind GenL.generate fun v_X =>`: the next recorded batch of the generation (distinct
                                                             objects with their content, written to the heap as `Loops.writeAll` does)
  toolbox.update(L)          L a list variable               `GenL.bind (GenL.update v_L) fun v_L =>`: the strategy may reorder L in place (as
                                                             cma.Strategy.update does): L takes the recorded rearrangement of its members; the
                                                             strategy's own state is outside the model
  X = E                                                      `let v_X := E` (E a list expression)
  population[:] = E                                          `let v_population := E` — full-slice assignment to a LIST: the list object keeps
                                                             its identity and takes the content of E (copy semantics of list slices; numpy
                                                             views are outside this rendering).  E a list expression or a toolbox.select call.
  assert A >= B[, "msg"] / A <= B   (counts)                 `if B ≤ A then … else GenL.fail`
  for gen in range(1, N + 1): BODY  /  range(N)              `GenL.forGens (fun v_gen v_P => BODY) 1 N v_P` (resp. start 0): every iteration takes
                                                             the next generation record from the tape (`none` when there is none) and must use
                                                             it up.  P = the ONE variable defined before the loop that BODY re-assigns and that
                                                             is used after the loop; every other variable BODY assigns must be assigned at the top
                                                             level of BODY before BODY reads it and must not be read after the loop.  No nested
                                                             generational loop, no break / continue / return / else.
  return P, logbook                                          `GenL.pure v_P`
  X = h(a…) / h(a…)   h another function of the module       INLINE EXPANSION before rendering: the statement is replaced by h's body with the parameters
                                                             replaced by the arguments (names / literals only), h's locals renamed apart and the one
                                                             final `return E` by `X = E`; the result is rendered by the rules above (h may use exactly
                                                             this sub-language; a `return` elsewhere, defaults, keywords, recursion: refused)
List expressions  a name; `A + B` -> `(A ++ B)`; `[]`.     Counts: a name, `len(L)` -> `L.length`, an int literal >= 0.
REFUSED, e.g.     while, try, with, nested defs, lambda, and/or, `if` with else or on anything else than `halloffame is not None` / `verbose`,
                  any other attribute access or call, any other subscript / slice, augmented assignment, starred arguments, keyword arguments
                  other than those of logbook.record, rebinding of `toolbox` / `halloffame` / `stats` / `logbook` / `random` / `tools`.
"""
import ast
import copy

from py2lean import Refuse
import py2lean_c02 as P

LO, FITS, F, N, TB, HOF, STATS, VERB, REC, LOGB = "LO", "FITS", "F", "N", "TB", "HOF", "STATS", "VERB", "REC", "LOGB"
LEAN_TY = {LO: "List Nat", F: "Float", N: "Nat", HOF: "Bool"}
C02_TY = {LO: P.LO, F: P.F, N: P.N, TB: P.TB}
CALLEES = ("varAnd", "varOr")


def _is_name(node, name=None):
    return isinstance(node, ast.Name) and (name is None or node.id == name)


def _names_loaded(node):
    return {n.id for n in ast.walk(node) if isinstance(n, ast.Name) and isinstance(n.ctx, ast.Load)}


def _reads(node, names):
    """does `node` read one of `names` before re-binding it (comprehension variables and `for` targets re-bind)"""
    names = set(names)
    if not names:
        return False
    if isinstance(node, ast.Name):
        return isinstance(node.ctx, ast.Load) and node.id in names
    if isinstance(node, (ast.ListComp, ast.SetComp, ast.GeneratorExp, ast.DictComp)):
        inner = set(names)
        for g in node.generators:
            if _reads(g.iter, inner):
                return True
            inner -= {n.id for n in ast.walk(g.target) if isinstance(n, ast.Name)}
            if any(_reads(c, inner) for c in g.ifs):
                return True
        elts = [node.key, node.value] if isinstance(node, ast.DictComp) else [node.elt]
        return any(_reads(e, inner) for e in elts)
    if isinstance(node, ast.For):
        if _reads(node.iter, names):
            return True
        inner = names - {n.id for n in ast.walk(node.target) if isinstance(n, ast.Name)}
        return any(_reads(c, inner) for c in node.body + node.orelse)
    return any(_reads(c, names) for c in ast.iter_child_nodes(node))


class LoopT:
    def __init__(self, mod, name, sig):
        self.mod, self.name, self.fn, self.sig = mod, name, mod.functions[name], sig
        self.returned = False

    # ------------------------------------------------------------------ function
    def run(self):
        fn, a = self.fn, self.fn.args
        if a.vararg or a.kwarg or a.kwonlyargs or a.posonlyargs or fn.decorator_list:
            raise Refuse("signature outside the sub-language")
        npos = len(a.args) - len(a.defaults)
        env, params = {}, []
        for i, p in enumerate(a.args):
            ty = self.sig.get(p.arg)
            if ty is None:
                raise Refuse("no type for parameter %r" % p.arg)
            if i >= npos:
                dv = a.defaults[i - npos]
                ok = (ty in (STATS, HOF) and isinstance(dv, ast.Constant) and dv.value is None) or \
                     (ty == VERB and (_is_name(dv, "__debug__") or (isinstance(dv, ast.Constant) and type(dv.value) is bool)))
                if not ok:
                    raise Refuse("default value of %r" % p.arg)
            if ty == TB:
                env[p.arg] = ("ops", TB)
                params.append("(ops : Ops σ) (ev : List Int → List Int)")
            elif ty in (STATS, VERB):
                env[p.arg] = (None, ty)
            else:
                env[p.arg] = ("v_" + p.arg, ty)
                params.append("(v_%s : %s)" % (p.arg, LEAN_TY[ty]))
        for n in ast.walk(fn):
            if isinstance(n, ast.Name) and isinstance(n.ctx, (ast.Store, ast.Del)) and \
                    (n.id in ("random", "tools", "len", "zip", "range", "print") or
                     (n.id in env and env[n.id][1] in (TB, HOF, STATS, VERB))):
                raise Refuse("the name %r is rebound" % n.id)
        body = self.block(list(fn.body), env, {"mode": "fn"}, 1)
        if not self.returned:
            raise Refuse("no return")
        return "def %s {σ : Type} %s : GenL.M σ (List Nat) :=\n%s" % (self.name, " ".join(params), body)

    def ind(self, d):
        return "  " * d

    # ------------------------------------------------------------------ expressions (all without effect)
    def lo(self, node, env):
        if _is_name(node) and node.id in env and env[node.id][1] == LO:
            return env[node.id][0]
        if isinstance(node, ast.BinOp) and isinstance(node.op, ast.Add):
            return "(%s ++ %s)" % (self.lo(node.left, env), self.lo(node.right, env))
        if isinstance(node, ast.List) and not node.elts:
            return "([] : List Nat)"
        raise Refuse("expression that is no list of individuals: %s" % ast.dump(node)[:60])

    def count(self, node, env):
        if _is_name(node) and node.id in env and env[node.id][1] == N:
            return env[node.id][0]
        if isinstance(node, ast.Constant) and type(node.value) is int and node.value >= 0:
            return str(node.value)
        if isinstance(node, ast.Call) and _is_name(node.func, "len") and len(node.args) == 1 and not node.keywords \
                and "len" not in env:
            return "%s.length" % self.lo(node.args[0], env)
        raise Refuse("expression that is no count: %s" % ast.dump(node)[:60])

    def display_only(self, node, env):
        """header expression: no effect, reaches only literals and `stats`"""
        if isinstance(node, ast.Constant):
            return
        if isinstance(node, (ast.List, ast.Tuple)):
            for e in node.elts:
                self.display_only(e, env)
            return
        if isinstance(node, ast.BinOp) and isinstance(node.op, ast.Add):
            self.display_only(node.left, env)
            self.display_only(node.right, env)
            return
        if isinstance(node, ast.IfExp):
            self.stats_test(node.test, env)
            self.display_only(node.body, env)
            self.display_only(node.orelse, env)
            return
        if isinstance(node, ast.Attribute) and node.attr == "fields" and self.is_ty(node.value, env, STATS):
            return
        raise Refuse("logbook.header expression")

    def is_ty(self, node, env, ty):
        return _is_name(node) and node.id in env and env[node.id][1] == ty

    def stats_test(self, node, env):
        if self.is_ty(node, env, STATS):
            return
        if isinstance(node, ast.Compare) and len(node.ops) == 1 and isinstance(node.ops[0], ast.IsNot) and \
                self.is_ty(node.left, env, STATS) and isinstance(node.comparators[0], ast.Constant) and \
                node.comparators[0].value is None:
            return
        raise Refuse("test on something other than `stats`")

    def toolbox_call(self, node, env, attr, nargs):
        return (isinstance(node, ast.Call) and isinstance(node.func, ast.Attribute) and node.func.attr == attr and
                self.is_ty(node.func.value, env, TB) and len(node.args) == nargs and not node.keywords and
                not any(isinstance(x, ast.Starred) for x in node.args))

    # ------------------------------------------------------------------ statements
    def store(self, name, ty, env, ctx):
        if name in env and env[name][1] != ty:
            raise Refuse("%r changes its type" % name)
        if ctx["mode"] == "gen" and name == ctx["loopvar"]:
            raise Refuse("the generation variable is assigned")
        env[name] = ("v_" + name, ty)
        return "v_" + name

    def block(self, stmts, env, ctx, d):
        I = self.ind(d)
        if not stmts:
            if ctx["mode"] == "fn":
                raise Refuse("a path ends without `return`")
            if ctx["mode"] == "when":
                return "%sGenL.pure ()" % I
            return "%sGenL.pure %s" % (I, env[ctx["carried"]][0])
        s, rest = stmts[0], stmts[1:]
        nxt = lambda: self.block(rest, env, ctx, d)
        if isinstance(s, ast.Expr) and isinstance(s.value, ast.Constant) and isinstance(s.value.value, str):
            return nxt()
        if ctx["mode"] == "when":
            c = s.value if isinstance(s, ast.Expr) else None
            if isinstance(c, ast.Call) and isinstance(c.func, ast.Attribute) and c.func.attr == "update" and \
                    self.is_ty(c.func.value, env, HOF) and c.func.value.id == ctx["hof"] and len(c.args) == 1 and not c.keywords:
                return "%sGenL.bind (GenL.hofUpdate %s) fun _ =>\n%s" % (I, self.lo(c.args[0], env), nxt())
            raise Refuse("statement other than halloffame.update(L) under `if halloffame is not None`")
        if isinstance(s, ast.Return):
            if ctx["mode"] != "fn":
                raise Refuse("return inside the loop")
            v = s.value
            if not (isinstance(v, ast.Tuple) and len(v.elts) == 2 and self.is_ty(v.elts[1], env, LOGB)):
                raise Refuse("return of something other than `population, logbook`")
            self.returned = True
            return "%sGenL.pure %s" % (I, self.lo(v.elts[0], env))
        if isinstance(s, ast.Assert):
            t = s.test
            if s.msg is not None and not (isinstance(s.msg, ast.Constant) and isinstance(s.msg.value, str)):
                raise Refuse("assert message with an effect")
            if not (isinstance(t, ast.Compare) and len(t.ops) == 1 and isinstance(t.ops[0], (ast.GtE, ast.LtE))):
                raise Refuse("assert of something other than one >= / <= on counts")
            a, b = self.count(t.left, env), self.count(t.comparators[0], env)
            if isinstance(t.ops[0], ast.GtE):
                a, b = b, a
            return "%sif %s ≤ %s then\n%s\n%selse GenL.fail" % (I, a, b, self.block(rest, env, ctx, d + 1), I)
        if isinstance(s, ast.If):
            return self.if_stmt(s, env, ctx, d) + nxt()
        if isinstance(s, ast.For):
            return self.for_stmt(s, rest, env, ctx, d)
        if isinstance(s, ast.Expr):
            return self.record_stmt(s.value, env, ctx, d) + nxt()
        if isinstance(s, ast.Assign):
            if len(s.targets) != 1:
                raise Refuse("chained assignment")
            return self.assign(s.targets[0], s.value, env, ctx, d) + nxt()
        raise Refuse("statement %s" % type(s).__name__)

    def if_stmt(self, s, env, ctx, d):
        I = self.ind(d)
        t = s.test
        if self.is_ty(t, env, VERB):                         # if verbose: print(logbook.stream)
            ok = (not s.orelse and len(s.body) == 1 and isinstance(s.body[0], ast.Expr) and isinstance(s.body[0].value, ast.Call))
            c = s.body[0].value if ok else None
            if not (ok and _is_name(c.func, "print") and len(c.args) == 1 and not c.keywords and
                    isinstance(c.args[0], ast.Attribute) and c.args[0].attr == "stream" and self.is_ty(c.args[0].value, env, LOGB)):
                raise Refuse("`if verbose:` with a body other than print(logbook.stream)")
            return ""
        if isinstance(t, ast.Compare) and len(t.ops) == 1 and isinstance(t.ops[0], ast.IsNot) and self.is_ty(t.left, env, HOF) \
                and isinstance(t.comparators[0], ast.Constant) and t.comparators[0].value is None:
            if s.orelse:
                raise Refuse("else branch of `if halloffame is not None`")
            body = self.block(list(s.body), env, {"mode": "when", "hof": t.left.id}, d + 1)
            return "%sGenL.bind (GenL.when %s (\n%s)) fun _ =>\n" % (I, env[t.left.id][0], body)
        raise Refuse("if on something other than `halloffame is not None` / `verbose`")

    def record_stmt(self, c, env, ctx, d):
        I = self.ind(d)
        if self.toolbox_call(c, env, "update", 1):             # toolbox.update(L): may reorder L in place
            if not self.is_ty(c.args[0], env, LO):
                raise Refuse("toolbox.update of something other than a list variable")
            name = c.args[0].id
            t = env[name][0]
            return "%sGenL.bind (GenL.update %s) fun %s =>\n" % (I, t, self.store(name, LO, env, ctx))
        if not (isinstance(c, ast.Call) and isinstance(c.func, ast.Attribute) and c.func.attr == "record" and
                self.is_ty(c.func.value, env, LOGB) and not c.args):
            raise Refuse("expression statement other than logbook.record(…)")
        kws = [k.arg for k in c.keywords]
        if kws != ["gen", "nevals", None] or not self.is_ty(c.keywords[2].value, env, REC):
            raise Refuse("logbook.record with keywords other than gen=, nevals=, **record")
        g = c.keywords[0].value
        if ctx["mode"] == "gen" and _is_name(g, ctx["loopvar"]):
            gt = "v_" + ctx["loopvar"]
        elif isinstance(g, ast.Constant) and type(g.value) is int and g.value >= 0:
            gt = str(g.value)
        else:
            raise Refuse("gen= of logbook.record is neither a literal nor the generation variable")
        return "%sGenL.bind (GenL.record %s %s) fun _ =>\n" % (I, gt, self.count(c.keywords[1].value, env))

    def select_call(self, v, env):
        return "GenL.select %s %s" % (self.lo(v.args[0], env), self.count(v.args[1], env))

    def assign(self, tg, v, env, ctx, d):
        I = self.ind(d)
        if isinstance(tg, ast.Attribute):                    # logbook.header = E
            if tg.attr == "header" and self.is_ty(tg.value, env, LOGB):
                self.display_only(v, env)
                return ""
            raise Refuse("attribute assignment")
        if isinstance(tg, ast.Subscript):                    # population[:] = E
            sl = tg.slice
            if not (isinstance(sl, ast.Slice) and sl.lower is None and sl.upper is None and sl.step is None and
                    self.is_ty(tg.value, env, LO)):
                raise Refuse("subscript assignment other than L[:] = E")
            name = tg.value.id
            if self.toolbox_call(v, env, "select", 2):
                t = self.select_call(v, env)
                return "%sGenL.bind (%s) fun %s =>\n" % (I, t, self.store(name, LO, env, ctx))
            t = self.lo(v, env)
            return "%slet %s := %s\n" % (I, self.store(name, LO, env, ctx), t)
        if not isinstance(tg, ast.Name):
            raise Refuse("assignment target outside the sub-language")
        x = tg.id
        # skipped idioms
        if isinstance(v, ast.Call) and isinstance(v.func, ast.Attribute) and v.func.attr == "Logbook" and \
                _is_name(v.func.value, "tools") and "tools" not in env and not v.args and not v.keywords:
            if ctx["mode"] != "fn" or x in env:
                raise Refuse("a second logbook")
            env[x] = (None, LOGB)
            return ""
        if _is_name(v) and v.id in env and env[v.id][1] in (LOGB, REC):      # another name for the logbook / the record
            if x in env and env[x][1] != env[v.id][1]:
                raise Refuse("%r changes its type" % x)
            env[x] = (None, env[v.id][1])
            return ""
        if isinstance(v, ast.IfExp):
            self.stats_test(v.test, env)
            c = v.body
            if not (isinstance(c, ast.Call) and isinstance(c.func, ast.Attribute) and c.func.attr == "compile" and
                    self.is_ty(c.func.value, env, STATS) and len(c.args) == 1 and not c.keywords and
                    isinstance(v.orelse, ast.Dict) and not v.orelse.keys):
                raise Refuse("conditional expression other than `stats.compile(L) if stats else {}`")
            self.lo(c.args[0], env)
            if x in env and env[x][1] != REC:
                raise Refuse("%r changes its type" % x)
            env[x] = (None, REC)
            return ""
        # rendered
        if isinstance(v, ast.ListComp):
            g = v.generators[0] if len(v.generators) == 1 else None
            ok = (g is not None and not g.is_async and _is_name(g.target) and g.target.id not in env and _is_name(v.elt, g.target.id)
                  and len(g.ifs) == 1 and isinstance(g.ifs[0], ast.UnaryOp) and isinstance(g.ifs[0].op, ast.Not))
            c = g.ifs[0].operand if ok else None
            if not (ok and isinstance(c, ast.Attribute) and c.attr == "valid" and isinstance(c.value, ast.Attribute) and
                    c.value.attr == "fitness" and _is_name(c.value.value, g.target.id)):
                raise Refuse("comprehension other than [v for v in L if not v.fitness.valid]")
            t = self.lo(g.iter, env)
            return "%sGenL.bind (GenL.invalid %s) fun %s =>\n" % (I, t, self.store(x, LO, env, ctx))
        if self.toolbox_call(v, env, "map", 2):
            f = v.args[0]
            if not (isinstance(f, ast.Attribute) and f.attr == "evaluate" and self.is_ty(f.value, env, TB)):
                raise Refuse("toolbox.map of something other than toolbox.evaluate")
            t = self.lo(v.args[1], env)
            return "%sGenL.bind (GenL.mapEvaluate ev %s) fun %s =>\n" % (I, t, self.store(x, FITS, env, ctx))
        if self.toolbox_call(v, env, "select", 2):
            t = self.select_call(v, env)
            return "%sGenL.bind (%s) fun %s =>\n" % (I, t, self.store(x, LO, env, ctx))
        if self.toolbox_call(v, env, "generate", 0):
            return "%sGenL.bind GenL.generate fun %s =>\n" % (I, self.store(x, LO, env, ctx))
        if isinstance(v, ast.Call) and _is_name(v.func) and v.func.id in CALLEES and v.func.id not in env:
            if v.keywords or any(isinstance(a, ast.Starred) for a in v.args):
                raise Refuse("keyword / starred arguments")
            terms, tys = [], []
            for a in v.args:
                if self.is_ty(a, env, TB):
                    terms.append("ops"); tys.append(P.TB)
                elif _is_name(a) and a.id in env and env[a.id][1] == F:
                    terms.append(env[a.id][0]); tys.append(P.F)
                elif _is_name(a) and a.id in env and env[a.id][1] == N:
                    terms.append(env[a.id][0]); tys.append(P.N)
                else:
                    terms.append(self.lo(a, env)); tys.append(P.LO)
            rty = P.translate_function(self.mod, v.func.id, None, tys)        # Refuse if the callee is not translatable
            if rty != P.LO:
                raise Refuse("%s does not return a list of individuals" % v.func.id)
            return "%sGenL.bind (GenL.callV (Gen.%s %s)) fun %s =>\n" % (I, v.func.id, " ".join(terms), self.store(x, LO, env, ctx))
        t = self.lo(v, env)
        return "%slet %s := %s\n" % (I, self.store(x, LO, env, ctx), t)

    # ------------------------------------------------------------------ loops
    def for_stmt(self, s, rest, env, ctx, d):
        I = self.ind(d)
        if s.orelse:
            raise Refuse("for/else")
        it = s.iter
        # for a, b in zip(L, FS): a.fitness.values = b
        if isinstance(it, ast.Call) and _is_name(it.func, "zip") and "zip" not in env:
            tg = s.target
            ok = (isinstance(tg, ast.Tuple) and len(tg.elts) == 2 and all(_is_name(e) for e in tg.elts) and len(it.args) == 2
                  and not it.keywords and len(s.body) == 1 and isinstance(s.body[0], ast.Assign) and len(s.body[0].targets) == 1)
            if ok:
                a, b = tg.elts[0].id, tg.elts[1].id
                t0, v0 = s.body[0].targets[0], s.body[0].value
                ok = (a != b and a not in env and b not in env and isinstance(t0, ast.Attribute) and t0.attr == "values" and
                      isinstance(t0.value, ast.Attribute) and t0.value.attr == "fitness" and _is_name(t0.value.value, a) and
                      _is_name(v0, b) and self.is_ty(it.args[1], env, FITS))
            if not ok:
                raise Refuse("zip loop other than `for a, b in zip(L, FS): a.fitness.values = b`")
            if any(_reads(st, {a, b}) for st in rest):
                raise Refuse("the zip loop's variables are used after the loop")
            return "%sGenL.bind (GenL.assignZip %s %s) fun _ =>\n" % (I, self.lo(it.args[0], env), env[it.args[1].id][0]) + \
                self.block(rest, env, ctx, d)
        # the generational loop
        if ctx["mode"] != "fn":
            raise Refuse("nested generational loop")
        if not (isinstance(it, ast.Call) and _is_name(it.func, "range") and not it.keywords and "range" not in env and _is_name(s.target)):
            raise Refuse("for over something other than range(…) / zip(…)")
        var = s.target.id
        if var in env:
            raise Refuse("the generation variable re-uses the name %r" % var)
        a = it.args
        if len(a) == 1:
            start, n = "0", self.count(a[0], env)
        elif len(a) == 2 and isinstance(a[0], ast.Constant) and type(a[0].value) is int and a[0].value == 1 and \
                isinstance(a[1], ast.BinOp) and isinstance(a[1].op, ast.Add) and isinstance(a[1].right, ast.Constant) and \
                type(a[1].right.value) is int and a[1].right.value == 1:
            start, n = "1", self.count(a[1].left, env)
        else:
            raise Refuse("range(…) of a shape that is not rendered")
        for st in s.body:
            for nd in ast.walk(st):
                if isinstance(nd, (ast.Break, ast.Continue, ast.Return, ast.While, ast.Try, ast.With, ast.AugAssign)):
                    raise Refuse("%s inside the generational loop" % type(nd).__name__)
        stored = set()
        for st in s.body:
            for nd in ast.walk(st):
                if isinstance(nd, ast.Name) and isinstance(nd.ctx, ast.Store):
                    stored.add(nd.id)
                if isinstance(nd, ast.Subscript) and isinstance(nd.ctx, ast.Store) and _is_name(nd.value):
                    stored.add(nd.value.id)
                if isinstance(nd, ast.Call) and isinstance(nd.func, ast.Attribute) and nd.func.attr == "update" and \
                        self.is_ty(nd.func.value, env, TB) and len(nd.args) == 1 and _is_name(nd.args[0]):
                    stored.add(nd.args[0].id)
        after = set()
        for st in rest:
            after |= _names_loaded(st)
        if var in after:
            raise Refuse("the generation variable is used after the loop")
        outer = {x for x in stored if x in env and env[x][1] in (LO, FITS, N, F)}
        carried = sorted(x for x in outer if x in after)
        if len(carried) != 1 or env[carried[0]][1] != LO:
            raise Refuse("the loop must re-assign exactly one list that is used after it (found %s)" % carried)
        P_ = carried[0]
        benv = dict(env)
        for x in outer - {P_}:
            del benv[x]                      # must be assigned in the body before it is read: a read finds no such name
        for x in stored - set(env):
            if x in after:
                raise Refuse("%r, first assigned inside the loop, is used after it" % x)
        benv[var] = ("v_" + var, N)
        body = self.block(list(s.body), benv, {"mode": "gen", "loopvar": var, "carried": P_}, d + 2)
        for x in outer - {P_}:
            del env[x]                       # their value after the loop is not rendered
        pv = env[P_][0]
        out = "%sGenL.bind (GenL.forGens (fun v_%s %s =>\n%s) %s %s %s) fun %s =>\n" % (I, var, pv, body, start, n, pv, pv)
        return out + self.block(rest, env, ctx, d)


# ---------------------------------------------------------------------- inline expansion of helper functions
class _Subst(ast.NodeTransformer):
    def __init__(self, mapping):
        self.mapping = mapping

    def visit_Name(self, node):
        if node.id in self.mapping:
            new = self.mapping[node.id]
            if isinstance(node.ctx, ast.Load):
                return copy.deepcopy(new)
            if isinstance(new, ast.Name):
                return ast.copy_location(ast.Name(id=new.id, ctx=node.ctx), node)
            raise Refuse("a helper assigns its parameter %r" % node.id)
        return node

    def visit_keyword(self, node):               # **record: the keyword's value is an ordinary expression
        node.value = self.visit(node.value)
        return node


class Inliner:
    """`X = h(a…)` / `h(a…)` with h a function of the same module (not varAnd / varOr): the statement is replaced by h's body with
    the parameters replaced by the arguments (names or literals only: no effect, no evaluation-order question), h's locals renamed
    apart (`_i<k>_<name>`), and the one `return E` that must end the body (and occur nowhere else) by `X = E`."""

    def __init__(self, mod, skip):
        self.mod, self.skip, self.k, self.used, self.depth = mod, set(skip), 0, [], 0

    def helper_call(self, s):
        if isinstance(s, ast.Assign) and len(s.targets) == 1 and isinstance(s.targets[0], ast.Name):
            c, tgt = s.value, s.targets[0]
        elif isinstance(s, ast.Expr):
            c, tgt = s.value, None
        else:
            return None
        if isinstance(c, ast.Call) and isinstance(c.func, ast.Name) and c.func.id in self.mod.functions and \
                c.func.id not in self.skip:
            return c, tgt
        return None

    def stmts(self, body, bound):
        out = []
        for s in body:
            if s.__class__ is ast.For:
                s.body = self.stmts(s.body, bound)
                s.orelse = self.stmts(s.orelse, bound)
            elif s.__class__ is ast.If:
                s.body = self.stmts(s.body, bound)
                s.orelse = self.stmts(s.orelse, bound)
            hc = self.helper_call(s)
            if hc is None or hc[0].func.id in bound:
                out.append(s)
                continue
            out.extend(self.expand(hc[0], hc[1], bound))
        return out

    def expand(self, call, tgt, bound):
        name = call.func.id
        fn = self.mod.functions[name]
        a = fn.args
        if self.depth > 8:
            raise Refuse("helpers nested too deep / recursive (%s)" % name)
        if a.vararg or a.kwarg or a.kwonlyargs or a.posonlyargs or a.defaults or fn.decorator_list:
            raise Refuse("helper %s: signature outside the sub-language" % name)
        if call.keywords or len(call.args) != len(a.args):
            raise Refuse("helper %s: keyword arguments / wrong number of arguments" % name)
        for x in call.args:
            if not isinstance(x, (ast.Name, ast.Constant)):
                raise Refuse("helper %s: an argument that is neither a name nor a literal" % name)
        body = [copy.deepcopy(st) for st in fn.body]
        if body and isinstance(body[0], ast.Expr) and isinstance(body[0].value, ast.Constant) and isinstance(body[0].value.value, str):
            body = body[1:]
        ret = None
        if body and isinstance(body[-1], ast.Return):
            ret, body = body[-1], body[:-1]
        for st in body:
            for nd in ast.walk(st):
                if isinstance(nd, (ast.Return, ast.Yield, ast.YieldFrom, ast.Global, ast.Nonlocal, ast.FunctionDef, ast.Lambda)):
                    raise Refuse("helper %s: %s inside the body" % (name, type(nd).__name__))
        if tgt is not None and (ret is None or ret.value is None):
            raise Refuse("helper %s: its value is used but it does not end with `return E`" % name)
        if tgt is None and ret is not None and ret.value is not None:
            raise Refuse("helper %s: its value is dropped" % name)
        self.k += 1
        params = [p.arg for p in a.args]
        mapping = dict(zip(params, call.args))
        locs = set()
        for st in body:
            for nd in ast.walk(st):
                if isinstance(nd, ast.Name) and isinstance(nd.ctx, (ast.Store, ast.Del)):
                    locs.add(nd.id)
        for x in locs:
            if x in mapping:
                raise Refuse("helper %s assigns its parameter %r" % (name, x))
            mapping[x] = ast.Name(id="_i%d_%s" % (self.k, x), ctx=ast.Load())
        sub = _Subst(mapping)
        new = [ast.fix_missing_locations(sub.visit(st)) for st in body]
        if tgt is not None:
            new.append(ast.fix_missing_locations(ast.copy_location(
                ast.Assign(targets=[tgt], value=sub.visit(copy.deepcopy(ret.value))), call)))
        self.used.append(name)
        self.depth += 1
        try:
            return self.stmts(new, bound)
        finally:
            self.depth -= 1


def translate_loop(mod, name, sig):
    """renders loop `name` of the py2lean_c02.Module `mod` (its callees are rendered into mod.done by py2lean_c02)"""
    t = LoopT(mod, name, sig)
    t.fn = copy.deepcopy(t.fn)
    inl = Inliner(mod, CALLEES)
    t.fn.body = inl.stmts(t.fn.body, {p.arg for p in t.fn.args.args})
    t.inlined = inl.used
    text = t.run()
    translate_loop.inlined = sorted(set(inl.used))
    return text
