"""py2lean_c08 — renderer of the methods of `HallOfFame` / `ParetoFront` (deap/tools/support.py) as Lean definitions.

THIS DOCSTRING + lean/DeapModel/Core/GenPreludeC08.lean ARE THE TRUSTED BASE of the C08 translator tie.  The renderer reads
the CURRENT source with `ast`, renders what the rules below cover and REFUSES (exception `Refuse`) everything else; nothing
is guessed.  (Independent of harness/py2lean.py: the C08 methods are object methods with loops, `break`/`continue`/`for-else`,
exceptions and in-place mutation of `self`, which the functional sub-language of py2lean.py does not have.)

Objects.  `self` is the record `Archive.HoF G α` (fields maxsize : Nat, keys : List (Fit α), items : List (Ind G α), next :
Nat = allocation counter); an individual is `Archive.Ind G α` (`x.fitness` -> `x.fit`); `population` a `List (Ind G α)`;
`index`, `i` (parameters) are `Int`.  The similarity callable `self.similar` is the PARAMETER `similar` of every definition
that (transitively) calls it — the record does not store it.  `__init__` is not rendered (constructor = `Archive.empty`).

Methods (state-passing).  A method whose body is one `return e` is a GETTER `Gen08.<Class>_<name> self args := e` (type of
e; `Option` if e can raise).  Every other method must not contain `return` and is a PROCEDURE
`Gen08.<Class>_<name> [similar] self args : Option (HoF G α)` = the contents of `self` after the call, `none` = an exception
left it.  `self.m(args)` as a statement -> `match Gen08.<C>_m .. self args with | none => none | some self => <rest>`,
`m` looked up in the class, then in its base (ParetoFront -> HallOfFame).  Dunder dispatch: `len(self)` -> `__len__`,
`self[e]` -> `__getitem__`, `for .. in self` / `enumerate(self)` / `iter(self)` -> `__iter__`, `reversed(self)` -> `__reversed__`
(all must be rendered getters, otherwise refused).

Expressions.  Integer literal -> `Int`; `+ - ` on integers in `Int`, a `Nat`-valued operand (len, capacity, enumerate index,
bisect result) embedded by `Int.ofNat`; `a % b` -> `G8.pyMod` (raises for b = 0; floor modulo); integer comparisons
`== != < <= > >=` -> `decide (..)`; on fitnesses `> < >= <= == !=` -> `Fitness.gt lt ge le eq ne` (the C01 model of the
rich comparisons); `a.dominates(b)` on fitnesses -> `Archive.dom a b` (C01 dominance, default `obj`); `and` / `or` / `not` ->
`&& || !` (a raising sub-expression in a right operand of and/or is refused: it would be evaluated conditionally);
`l[e]` -> `G8.getItem` (raises); `len(l)` -> `l.length`; `[]` -> `[]`; `iter(l)` -> `l`; `reversed(l)` -> `l.reverse`;
`enumerate(l)` -> `G8.enumerate l`; `bisect_right(a, x)` with a list of fitnesses and a fitness -> `Archive.bisectRight a x`
(the transcription of the loop of Lib/bisect.py with `x < a[mid]` = Fitness.__lt__); `self.similar(a, b)` -> `similar a b`.
Raising sub-expressions are evaluated first, left to right, each as `match e with | none => none | some t => ..`
(the other sub-expressions are pure, so the order among them is immaterial).

Statements.  `x = e` -> `let x := e`; `x = deepcopy(x)` for an individual inside a method -> `let x := Archive.copyInd
self.next x` and `self.next` advanced by one (allocation of a fresh object with the same genome and a copy of the fitness:
the model's copy parameter); `self.<f>.insert(a, b)` -> field `:= G8.listInsert ..`; `v.append(e)` on a local list ->
`let v := v ++ [e]`; `del self.<f>[e]` -> `G8.delItem` (raises); `del self.<f>[:]` -> field `:= []`;
`if c: A else: B` followed by R -> `if c then <A;R> else <B;R>` (the rest is duplicated into both branches);
`for t in e: B [else: E]` followed by R -> `match G8.forLoop (fun st t => <B>) e st0 with | none => none | some (st, broke) =>
<R>` resp. `if broke then <R> else <E;R>`, st = the variables assigned in B that exist before the loop, as a tuple in the
(deterministic) order `ast.walk` meets them (a variable first
assigned inside B is local to the iteration and unknown after the loop); `continue` / end of B -> `some (Ctl.next st)`;
`break` -> `some (Ctl.brk st)`; end of the method -> `some self`; a docstring is skipped.
A loop whose body assigns / mutates the variable its sequence expression mentions is refused.
Lists are values (copy semantics); aliasing between `self.items`, `self.keys` and local lists does not occur in the
accepted forms (no list-valued assignment from a field).  numpy arrays / views are outside the rendering.
"""
import ast

NS = "Gen08"


class Refuse(Exception):
    pass


FIELDS = {"maxsize": "nat", "keys": ("list", "fit"), "items": ("list", "ind")}
PARAM_TYPES = {"item": "ind", "ind": "ind", "index": "int", "i": "int", "population": ("list", "ind")}
FITCMP = {ast.Gt: "Fitness.gt", ast.Lt: "Fitness.lt", ast.GtE: "Fitness.ge", ast.LtE: "Fitness.le", ast.Eq: "Fitness.eq",
          ast.NotEq: "Fitness.ne"}
INTCMP = {ast.Gt: ">", ast.Lt: "<", ast.GtE: "≥", ast.LtE: "≤", ast.Eq: "=", ast.NotEq: "≠"}


def lean_type(t):
    if t == "int":
        return "Int"
    if t == "nat":
        return "Nat"
    if t == "bool":
        return "Bool"
    if t == "ind":
        return "Ind G α"
    if t == "fit":
        return "Fit α"
    if t == "hof":
        return "HoF G α"
    if isinstance(t, tuple) and t[0] == "list":
        return "List (%s)" % lean_type(t[1])
    if isinstance(t, tuple) and t[0] == "pair":
        return "(%s × %s)" % (lean_type(t[1]), lean_type(t[2]))
    raise Refuse("no Lean type for %r" % (t,))


class ClassInfo:
    def __init__(self, name, base, methods):
        self.name, self.base, self.methods = name, base, methods      # methods: name -> ast.FunctionDef


class Translator:
    def __init__(self, classes):
        self.classes = classes            # name -> ClassInfo
        self.done = {}                    # (class, method) -> dict(kind, ret, raises, sim, lean, text) or Refuse text
        self.tmp = 0
        self.order = []                   # keys in order of completion (callees first)

    # ---- method lookup -------------------------------------------------------------------------------------------
    def resolve(self, cname, m):
        c = self.classes.get(cname)
        while c is not None:
            if m in c.methods:
                return c.name
            c = self.classes.get(c.base)
        raise Refuse("no method %s in %s or its base" % (m, cname))

    def method(self, cname, m):
        owner = self.resolve(cname, m)
        key = (owner, m)
        if key not in self.done:
            self.done[key] = None         # recursion guard
            try:
                self.done[key] = self.render_method(owner, m)
            except Refuse as e:
                self.done[key] = str(e)
            self.order.append(key)
        r = self.done[key]
        if r is None:
            raise Refuse("recursive method %s.%s" % key)
        if isinstance(r, str):
            raise Refuse("%s.%s not rendered (%s)" % (owner, m, r))
        return r

    def fresh(self):
        self.tmp += 1
        return "t%d" % self.tmp

    # ---- expressions ---------------------------------------------------------------------------------------------
    def as_int(self, code, ty):
        if ty == "int":
            return code
        if ty == "nat":
            return "(Int.ofNat %s)" % code
        raise Refuse("integer expected, got %r" % (ty,))

    def getter(self, cx, dunder, args=()):
        r = self.method(cx["cls"], dunder)
        if r["kind"] != "getter":
            raise Refuse("%s is not a getter" % dunder)
        if r["sim"]:
            cx["sim"] = True
        return r

    def E(self, n, env, cx, pre):
        """-> (code, type); raising sub-expressions are appended to `pre` as (tmp, option-valued code)."""
        if isinstance(n, ast.Constant):
            if isinstance(n.value, bool):
                return ("true" if n.value else "false"), "bool"
            if isinstance(n.value, int):
                return "(%d : Int)" % n.value, "int"
            raise Refuse("constant %r" % (n.value,))
        if isinstance(n, ast.UnaryOp) and isinstance(n.op, ast.USub) and isinstance(n.operand, ast.Constant) \
                and isinstance(n.operand.value, int) and not isinstance(n.operand.value, bool):
            return "(-%d : Int)" % n.operand.value, "int"
        if isinstance(n, ast.UnaryOp) and isinstance(n.op, ast.Not):
            c, t = self.E(n.operand, env, cx, pre)
            if t != "bool":
                raise Refuse("`not` of a non-boolean")
            return "(!%s)" % c, "bool"
        if isinstance(n, ast.Name):
            if n.id not in env:
                raise Refuse("unknown name %s" % n.id)
            return n.id, env[n.id]
        if isinstance(n, ast.List) and not n.elts:
            return "[]", ("list", None)
        if isinstance(n, ast.Attribute):
            c, t = self.E(n.value, env, cx, pre)
            if t == "hof" and n.attr in FIELDS:
                return "%s.%s" % (c, n.attr), FIELDS[n.attr]
            if t == "ind" and n.attr == "fitness":
                return "%s.fit" % c, "fit"
            raise Refuse("attribute .%s of %r" % (n.attr, t))
        if isinstance(n, ast.BinOp) and isinstance(n.op, (ast.Add, ast.Sub)):
            a, ta = self.E(n.left, env, cx, pre)
            b, tb = self.E(n.right, env, cx, pre)
            return "(%s %s %s)" % (self.as_int(a, ta), "+" if isinstance(n.op, ast.Add) else "-", self.as_int(b, tb)), "int"
        if isinstance(n, ast.BinOp) and isinstance(n.op, ast.Mod):
            a, ta = self.E(n.left, env, cx, pre)
            b, tb = self.E(n.right, env, cx, pre)
            t = self.fresh()
            pre.append((t, "G8.pyMod %s %s" % (self.as_int(a, ta), self.as_int(b, tb))))
            return t, "int"
        if isinstance(n, ast.BoolOp):
            parts = []
            for k, v in enumerate(n.values):
                sub = []
                c, t = self.E(v, env, cx, sub)
                if t != "bool":
                    raise Refuse("and/or of a non-boolean (Python would return the operand)")
                if sub and k > 0:
                    raise Refuse("raising sub-expression evaluated conditionally in and/or")
                pre.extend(sub)
                parts.append(c)
            return "(" + (" && " if isinstance(n.op, ast.And) else " || ").join(parts) + ")", "bool"
        if isinstance(n, ast.Compare):
            if len(n.ops) != 1:
                raise Refuse("chained comparison")
            a, ta = self.E(n.left, env, cx, pre)
            b, tb = self.E(n.comparators[0], env, cx, pre)
            op = type(n.ops[0])
            if ta == "fit" and tb == "fit" and op in FITCMP:
                return "(%s %s %s)" % (FITCMP[op], a, b), "bool"
            if ta in ("int", "nat") and tb in ("int", "nat") and op in INTCMP:
                return "(decide (%s %s %s))" % (self.as_int(a, ta), INTCMP[op], self.as_int(b, tb)), "bool"
            raise Refuse("comparison of %r and %r" % (ta, tb))
        if isinstance(n, ast.Subscript):
            if isinstance(n.slice, ast.Slice):
                raise Refuse("slice expression")
            c, t = self.E(n.value, env, cx, pre)
            i, ti = self.E(n.slice, env, cx, pre)
            tmp = self.fresh()
            if t == "hof":
                r = self.getter(cx, "__getitem__")
                if len(r["params"]) != 1:
                    raise Refuse("__getitem__ arity")
                call = "%s %s %s" % (r["lean"], c, self.as_int(i, ti))
                if r["raises"]:
                    pre.append((tmp, call))
                    return tmp, r["ret"]
                return "(%s)" % call, r["ret"]
            if isinstance(t, tuple) and t[0] == "list" and t[1] is not None:
                pre.append((tmp, "G8.getItem %s %s" % (c, self.as_int(i, ti))))
                return tmp, t[1]
            raise Refuse("subscript of %r" % (t,))
        if isinstance(n, ast.Call):
            return self.call(n, env, cx, pre)
        raise Refuse("expression %s" % type(n).__name__)

    def call(self, n, env, cx, pre):
        if n.keywords:
            raise Refuse("keyword arguments")
        f = n.func
        if isinstance(f, ast.Name) and f.id in ("len", "iter", "reversed", "enumerate") and len(n.args) == 1:
            c, t = self.E(n.args[0], env, cx, pre)
            if t == "hof":
                if f.id == "enumerate":
                    r = self.getter(cx, "__iter__")
                    if r["raises"] or not (isinstance(r["ret"], tuple) and r["ret"][0] == "list"):
                        raise Refuse("__iter__ is not a plain list")
                    return "(G8.enumerate (%s %s))" % (r["lean"], c), ("list", ("pair", "nat", r["ret"][1]))
                r = self.getter(cx, {"len": "__len__", "iter": "__iter__", "reversed": "__reversed__"}[f.id])
                if r["raises"] or r["params"]:
                    raise Refuse("%s dispatch" % f.id)
                return "(%s %s)" % (r["lean"], c), r["ret"]
            if isinstance(t, tuple) and t[0] == "list":
                if f.id == "len":
                    return "%s.length" % c, "nat"
                if f.id == "iter":
                    return c, t
                if f.id == "reversed":
                    return "%s.reverse" % c, t
                return "(G8.enumerate %s)" % c, ("list", ("pair", "nat", t[1]))
            raise Refuse("%s of %r" % (f.id, t))
        if isinstance(f, ast.Name) and f.id == "bisect_right" and len(n.args) == 2:
            a, ta = self.E(n.args[0], env, cx, pre)
            x, tx = self.E(n.args[1], env, cx, pre)
            if ta == ("list", "fit") and tx == "fit":
                return "(Archive.bisectRight %s %s)" % (a, x), "nat"
            raise Refuse("bisect_right on %r, %r" % (ta, tx))
        if isinstance(f, ast.Attribute) and f.attr == "similar" and isinstance(f.value, ast.Name) and f.value.id == "self" \
                and len(n.args) == 2:
            a, ta = self.E(n.args[0], env, cx, pre)
            b, tb = self.E(n.args[1], env, cx, pre)
            if ta != "ind" or tb != "ind":
                raise Refuse("similar on non-individuals")
            cx["sim"] = True
            return "(similar %s %s)" % (a, b), "bool"
        if isinstance(f, ast.Attribute) and f.attr == "dominates" and len(n.args) == 1:
            a, ta = self.E(f.value, env, cx, pre)
            b, tb = self.E(n.args[0], env, cx, pre)
            if ta == "fit" and tb == "fit":
                return "(Archive.dom %s %s)" % (a, b), "bool"
            raise Refuse("dominates on %r" % (ta,))
        raise Refuse("call %s" % ast.dump(f)[:80])

    @staticmethod
    def wrap(pre, body):
        for tmp, code in reversed(pre):
            body = "match %s with\n| none => none\n| some %s =>\n%s" % (code, tmp, body)
        return body

    # ---- statements ----------------------------------------------------------------------------------------------
    @staticmethod
    def assigned(stmts):
        """names (incl. `self`) that the statements assign or mutate, in order of first occurrence"""
        out = []

        def add(x):
            if x not in out:
                out.append(x)
        for s in stmts:
            for n in ast.walk(s):
                if isinstance(n, ast.Name) and isinstance(n.ctx, (ast.Store, ast.Del)):
                    add(n.id)
                elif isinstance(n, (ast.Attribute, ast.Subscript)) and isinstance(n.ctx, (ast.Store, ast.Del)):
                    b = n
                    while isinstance(b, (ast.Attribute, ast.Subscript)):
                        b = b.value
                    if isinstance(b, ast.Name):
                        add(b.id)
                elif isinstance(n, ast.Expr) and isinstance(n.value, ast.Call) and isinstance(n.value.func, ast.Attribute):
                    b = n.value.func.value
                    while isinstance(b, (ast.Attribute, ast.Subscript)):
                        b = b.value
                    if isinstance(b, ast.Name):
                        add(b.id)
                elif isinstance(n, ast.Call) and isinstance(n.func, ast.Name) and n.func.id == "deepcopy":
                    add("self")
        return out

    @staticmethod
    def tup(names):
        return "()" if not names else names[0] if len(names) == 1 else "(" + ", ".join(names) + ")"

    @staticmethod
    def untup(names, st):
        if not names:
            return ""
        if len(names) == 1:
            return "let %s := %s\n" % (names[0], st)
        out, path = "", st
        for k, v in enumerate(names):
            last = k == len(names) - 1
            out += "let %s := %s\n" % (v, path if last else path + ".1")
            path += ".2"
        return out

    def S(self, stmts, env, cx, k):
        """render the statement list followed by the continuation k(env) -> code"""
        if not stmts:
            return k(env)
        s, rest = stmts[0], stmts[1:]

        def then(e2):
            return self.S(rest, e2, cx, k)
        if isinstance(s, ast.Expr) and isinstance(s.value, ast.Constant) and isinstance(s.value.value, str):
            return then(env)
        if isinstance(s, ast.Pass):
            return then(env)
        if isinstance(s, ast.Continue) or isinstance(s, ast.Break):
            if not cx["loops"]:
                raise Refuse("break/continue outside a loop")
            return "some (G8.Ctl.%s %s)" % ("next" if isinstance(s, ast.Continue) else "brk", self.tup(cx["loops"][-1]))
        if isinstance(s, ast.Assign):
            if len(s.targets) != 1 or not isinstance(s.targets[0], ast.Name):
                raise Refuse("assignment target")
            x = s.targets[0].id
            v = s.value
            if isinstance(v, ast.Call) and isinstance(v.func, ast.Name) and v.func.id == "deepcopy":
                if len(v.args) != 1 or v.keywords or not isinstance(v.args[0], ast.Name) or env.get(v.args[0].id) != "ind" \
                        or "self" not in env:
                    raise Refuse("deepcopy of a non-individual")
                e2 = dict(env)
                e2[x] = "ind"
                return ("let %s := Archive.copyInd self.next %s\nlet self := { self with next := self.next + 1 }\n"
                        % (x, v.args[0].id)) + then(e2)
            pre = []
            c, t = self.E(v, env, cx, pre)
            if x == "self" or (x in env and env[x] != t and not (isinstance(t, tuple) and t[1] is None)):
                raise Refuse("assignment changes the type of %s" % x)
            e2 = dict(env)
            if isinstance(t, tuple) and t[0] == "list" and t[1] is None:
                e2[x] = ("list", cx["listhint"].get(x))
                if e2[x][1] is None:
                    raise Refuse("element type of the empty list %s unknown" % x)
                c = "([] : %s)" % lean_type(e2[x])
            else:
                e2[x] = t
            return self.wrap(pre, "let %s := %s\n%s" % (x, c, then(e2)))
        if isinstance(s, ast.Delete):
            if len(s.targets) != 1:
                raise Refuse("del of several targets")
            t = s.targets[0]
            if not (isinstance(t, ast.Subscript) and isinstance(t.value, ast.Attribute) and isinstance(t.value.value, ast.Name)
                    and t.value.value.id == "self" and t.value.attr in ("keys", "items") and env.get("self") == "hof"):
                raise Refuse("del target")
            fld = t.value.attr
            if isinstance(t.slice, ast.Slice):
                if t.slice.lower or t.slice.upper or t.slice.step:
                    raise Refuse("del of a proper slice")
                return "let self := { self with %s := [] }\n" % fld + then(env)
            pre = []
            i, ti = self.E(t.slice, env, cx, pre)
            tmp = self.fresh()
            pre.append((tmp, "G8.delItem self.%s %s" % (fld, self.as_int(i, ti))))
            return self.wrap(pre, "let self := { self with %s := %s }\n%s" % (fld, tmp, then(env)))
        if isinstance(s, ast.Expr) and isinstance(s.value, ast.Call) and isinstance(s.value.func, ast.Attribute):
            c, f = s.value, s.value.func
            if c.keywords:
                raise Refuse("keyword arguments")
            # self.<field>.insert(a, b)
            if f.attr == "insert" and isinstance(f.value, ast.Attribute) and isinstance(f.value.value, ast.Name) \
                    and f.value.value.id == "self" and f.value.attr in ("keys", "items") and len(c.args) == 2:
                fld = f.value.attr
                pre = []
                a, ta = self.E(c.args[0], env, cx, pre)
                b, tb = self.E(c.args[1], env, cx, pre)
                if FIELDS[fld] != ("list", tb):
                    raise Refuse("insert of %r into self.%s" % (tb, fld))
                return self.wrap(pre, "let self := { self with %s := G8.listInsert self.%s %s %s }\n%s"
                                 % (fld, fld, self.as_int(a, ta), b, then(env)))
            # local.append(e)
            if f.attr == "append" and isinstance(f.value, ast.Name) and len(c.args) == 1:
                v = f.value.id
                tv = env.get(v)
                pre = []
                e, te = self.E(c.args[0], env, cx, pre)
                if not (isinstance(tv, tuple) and tv == ("list", te)) or v in PARAM_TYPES:
                    raise Refuse("append of %r to %s : %r" % (te, v, tv))
                return self.wrap(pre, "let %s := %s ++ [%s]\n%s" % (v, v, e, then(env)))
            # self.m(args): a procedure
            if isinstance(f.value, ast.Name) and f.value.id == "self":
                r = self.method(cx["cls"], f.attr)
                if r["kind"] != "proc":
                    raise Refuse("call of the getter %s as a statement" % f.attr)
                if len(c.args) != len(r["params"]):
                    raise Refuse("arity of %s" % f.attr)
                if r["sim"]:
                    cx["sim"] = True
                pre, args = [], []
                for a, (pn, pt) in zip(c.args, r["params"]):
                    code, t = self.E(a, env, cx, pre)
                    if pt == "int":
                        code = self.as_int(code, t)
                    elif pt != t:
                        raise Refuse("argument %s of %s: %r for %r" % (pn, f.attr, t, pt))
                    args.append(code)
                call = "%s %sself %s" % (r["lean"], "similar " if r["sim"] else "", " ".join(args))
                return self.wrap(pre, "match %s with\n| none => none\n| some self =>\n%s" % (call.rstrip(), then(env)))
            raise Refuse("statement call .%s" % f.attr)
        if isinstance(s, ast.If):
            pre = []
            c, t = self.E(s.test, env, cx, pre)
            if t != "bool":
                raise Refuse("condition of type %r (truthiness is not rendered)" % (t,))
            a = self.S(list(s.body) + rest, env, cx, k)
            b = self.S(list(s.orelse) + rest, env, cx, k)
            return self.wrap(pre, "if %s then (\n%s\n) else (\n%s\n)" % (c, a, b))
        if isinstance(s, ast.For):
            pre = []
            it, tit = self.E(s.iter, env, cx, pre)
            if tit == "hof":
                r = self.getter(cx, "__iter__")
                if r["raises"] or r["params"]:
                    raise Refuse("__iter__ dispatch")
                it, tit = "(%s %s)" % (r["lean"], it), r["ret"]
            if not (isinstance(tit, tuple) and tit[0] == "list" and tit[1] is not None):
                raise Refuse("loop over %r" % (tit,))
            assigned = self.assigned(s.body)
            targets = [n.id for n in ast.walk(s.target) if isinstance(n, ast.Name)]
            state = [v for v in assigned if v in env and v not in targets]
            roots = {n.id for n in ast.walk(s.iter) if isinstance(n, ast.Name)}
            if roots & set(assigned):
                raise Refuse("the loop body mutates the object it iterates over")
            e2 = dict(env)
            if isinstance(s.target, ast.Name):
                e2[s.target.id] = tit[1]
                bind, head = s.target.id, ""
            elif isinstance(s.target, ast.Tuple) and len(s.target.elts) == 2 and all(isinstance(e, ast.Name) for e in s.target.elts) \
                    and isinstance(tit[1], tuple) and tit[1][0] == "pair":
                a, b = s.target.elts[0].id, s.target.elts[1].id
                e2[a], e2[b] = tit[1][1], tit[1][2]
                bind, head = "p", "let %s := p.1\nlet %s := p.2\n" % (a, b)
            else:
                raise Refuse("loop target")
            cx["loops"].append(state)
            body = self.S(list(s.body), e2, cx, lambda _e: "some (G8.Ctl.next %s)" % self.tup(state))
            cx["loops"].pop()
            after_env = dict(env)
            if s.orelse:
                after = "if broke then (\n%s\n) else (\n%s\n)" % (self.S(rest, after_env, cx, k), self.S(list(s.orelse) + rest, after_env, cx, k))
            else:
                after = self.S(rest, after_env, cx, k)
            code = ("match G8.forLoop (fun st %s =>\n%s%s%s) %s %s with\n| none => none\n| some (st, broke) =>\n%s%s"
                    % (bind, self.untup(state, "st"), head, body, it, self.tup(state), self.untup(state, "st"), after))
            return self.wrap(pre, code)
        raise Refuse("statement %s" % type(s).__name__)

    # ---- methods -------------------------------------------------------------------------------------------------
    def render_method(self, cname, m):
        fn = self.classes[cname].methods[m]
        a = fn.args
        if m == "__init__":
            raise Refuse("constructor (= Archive.empty)")
        if a.vararg or a.kwarg or a.kwonlyargs or a.defaults or fn.decorator_list or not a.args or a.args[0].arg != "self":
            raise Refuse("signature")
        params = []
        env = {"self": "hof"}
        for p in a.args[1:]:
            if p.arg not in PARAM_TYPES:
                raise Refuse("parameter %s has no declared type" % p.arg)
            params.append((p.arg, PARAM_TYPES[p.arg]))
            env[p.arg] = PARAM_TYPES[p.arg]
        body = [s for s in fn.body if not (isinstance(s, ast.Expr) and isinstance(s.value, ast.Constant)
                                           and isinstance(s.value.value, str))]
        cx = {"cls": cname, "sim": False, "loops": [], "listhint": {}}
        # element type of local lists created empty: the type of what is appended (enumerate indices are Nat)
        for n in ast.walk(fn):
            if isinstance(n, ast.For) and isinstance(n.target, ast.Tuple) and isinstance(n.iter, ast.Call) \
                    and isinstance(n.iter.func, ast.Name) and n.iter.func.id == "enumerate" and isinstance(n.target.elts[0], ast.Name):
                idx = n.target.elts[0].id
                for q in ast.walk(n):
                    if isinstance(q, ast.Call) and isinstance(q.func, ast.Attribute) and q.func.attr == "append" \
                            and isinstance(q.func.value, ast.Name) and len(q.args) == 1 and isinstance(q.args[0], ast.Name) \
                            and q.args[0].id == idx:
                        cx["listhint"][q.func.value.id] = "nat"
        lean = "%s.%s_%s" % (NS, cname, m)
        sig = "".join(" (%s : %s)" % (n, lean_type(t)) for n, t in params)
        has_return = any(isinstance(n, ast.Return) for n in ast.walk(fn))
        if has_return:
            if len(body) != 1 or not isinstance(body[0], ast.Return) or body[0].value is None:
                raise Refuse("`return` in a method that is not a single `return e`")
            pre = []
            c, t = self.E(body[0].value, env, cx, pre)
            raises = bool(pre)
            code = self.wrap(pre, "some %s" % c) if raises else c
            ret = lean_type(t)
            text = "def %s%s (self : HoF G α)%s : %s :=\n%s" % (
                lean, " (similar : Ind G α → Ind G α → Bool)" if cx["sim"] else "", sig,
                "Option (%s)" % ret if raises else ret, indent(code))
            return dict(kind="getter", ret=t, raises=raises, sim=cx["sim"], lean=lean, text=text, params=params)
        code = self.S(body, env, cx, lambda _e: "some self")
        text = "def %s%s (self : HoF G α)%s : Option (HoF G α) :=\n%s" % (
            lean, " (similar : Ind G α → Ind G α → Bool)" if cx["sim"] else "", sig, indent(code))
        return dict(kind="proc", ret="hof", raises=True, sim=cx["sim"], lean=lean, text=text, params=params)


def indent(code):
    """structural indentation of the nested match / if / let text (purely cosmetic: every construct is bracketed)"""
    return "\n".join("  " + l for l in code.split("\n"))


def parenthesise(code):
    return code


CLASSES = ["HallOfFame", "ParetoFront"]


def translate_class_methods(path):
    """-> rows (class, method, lean name, text or None, reason) in dependency order (callees first)"""
    tree = ast.parse(open(path).read())
    classes = {}
    for n in tree.body:
        if isinstance(n, ast.ClassDef) and n.name in CLASSES:
            base = n.bases[0].id if n.bases and isinstance(n.bases[0], ast.Name) else None
            classes[n.name] = ClassInfo(n.name, base, {f.name: f for f in n.body if isinstance(f, ast.FunctionDef)})
    tr = Translator(classes)
    rows = []
    for cname in CLASSES:
        if cname not in classes:
            rows.append((cname, "*", "%s.%s" % (NS, cname), None, "class not found"))
            continue
        for m in classes[cname].methods:
            try:
                tr.method(cname, m)
            except Refuse:
                pass
    # order of completion = callees first (a method is stored when its rendering is complete)
    for (cname, m) in tr.order:
        r = tr.done[(cname, m)]
        lean = "%s.%s_%s" % (NS, cname, m)
        if isinstance(r, dict):
            rows.append((cname, m, lean, r["text"], None))
        else:
            rows.append((cname, m, lean, None, r or "recursive"))
    return rows


if __name__ == "__main__":
    import sys
    for row in translate_class_methods(sys.argv[1]):
        print("-- %s.%s %s" % (row[0], row[1], "" if row[3] else "REFUSED: " + row[4]))
        if row[3]:
            print(row[3] + "\n")
