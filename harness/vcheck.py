#!/venv/bin/python
"""vcheck.py <Cxx> --tier quick|thorough [--replay file] | --update-anchors

Exit 0: the property held on everything explored; exit 1 + `VIOLATION property=<id> replay=<path>`;
exit 2: infrastructure problem / timeout (never a VIOLATION line)."""
import argparse
import json
import os
import sys

# One BLAS / OpenMP thread per process: the matrices of the checks are small (N <= 200), a thread pool per process only
# oversubscribes the machine when several checks run side by side (a quick C13 run took 444 s instead of 50 s next to a
# dozen other jobs), and child interpreters (C17) inherit the setting, so every run of a case sees the same arithmetic.
for _v in ("OPENBLAS_NUM_THREADS", "OMP_NUM_THREADS", "MKL_NUM_THREADS", "NUMEXPR_NUM_THREADS"):
    os.environ.setdefault(_v, "1")

HERE = os.path.dirname(os.path.abspath(__file__))
sys.path.insert(0, HERE)
import lib  # noqa: E402


def main():
    ap = argparse.ArgumentParser()
    ap.add_argument("pid", nargs="?")
    ap.add_argument("--tier", default=os.environ.get("VERIF_TIER", "quick"), choices=["quick", "thorough"])
    ap.add_argument("--replay")
    ap.add_argument("--update-anchors", action="store_true")
    a = ap.parse_args()
    if a.update_anchors:
        import importlib
        out = {}
        for fn in sorted(os.listdir(os.path.join(HERE, "props"))):
            if fn.startswith("c") and fn.endswith(".py"):
                m = importlib.import_module("props." + fn[:-3])
                out[fn[:-3].upper()] = lib.anchor_hash(getattr(m, "ANCHORS", []))
        json.dump(out, open(lib.anchors_file(), "w"), indent=1, sort_keys=True)
        print(json.dumps(out, indent=1))
        return 0
    seed = int(os.environ.get("VERIF_SEED", "0") or 0)
    try:
        return lib.run_check(a.pid, a.tier, seed, replay=a.replay)
    except lib.Infra as e:
        print("INFRASTRUCTURE: %s" % e)
        return 2
    except Exception:  # noqa
        import subprocess
        import traceback
        traceback.print_exc()
        if isinstance(sys.exc_info()[1], subprocess.TimeoutExpired):
            return 2
        return 2


if __name__ == "__main__":
    sys.exit(main())
