"""Shared machinery of the DEAP verification harness.

Verdict logic (DESIGN.md section 4):
  1. anchor drift (informational; widens the correspondence budget)
  2. proof obligations: `lake build` of the property's theorem file + `#print axioms` audit +
     grep for forbidden constructs
  3. correspondence: the same protocol lines are answered by the real DEAP code (in this
     process, imported from /repo's working tree) and by the compiled Lean model driver
  4. oracle: the property predicate evaluated directly on the implementation's results
  5. verdict: see `run_check`.
"""
import ast
import hashlib
import importlib
import itertools
import json
import os
import random
import re
import shutil
import subprocess
import sys
import tempfile
import time
import traceback

VERIF = os.path.dirname(os.path.dirname(os.path.abspath(__file__)))
LEAN = os.path.join(VERIF, "lean")
OUT = os.environ.get("VERIF_OUT", VERIF)   # where replays/ and evidence/ are written (seed tests run in parallel set it)
REPO = os.environ.get("DEAP_REPO", "/repo")
DRIVER = os.path.join(LEAN, ".lake", "build", "bin", "driver")
CORR_PREFIXES = ("TAPE:", "CORRESPONDENCE:")
ALLOWED_AXIOMS = {"propext", "Classical.choice", "Quot.sound"}
FORBIDDEN = re.compile(
    r"\bsorry\b|\badmit\b|^\s*axiom\s|native_decide|bv_decide|implemented_by|\bunsafe\s|maxHeartbeats\s+0\b",
    re.M)

if REPO not in sys.path:
    sys.path.insert(0, REPO)


def check_deap_origin():
    import deap
    if not os.path.realpath(deap.__file__).startswith(os.path.realpath(REPO) + os.sep):
        raise Infra("deap imported from %s, not from %s" % (deap.__file__, REPO))


class Infra(Exception):
    """Infrastructure problem (exit 2, never a VIOLATION)."""


class Case(object):
    """One explored case.

    desc        JSON-able description from which `evaluate` can rebuild the case (the replay)
    lines       protocol lines sent to the Lean driver
    expect      what the implementation answered for each line (canonical text)
    oracle      None when the property predicate holds on the implementation's result,
                else a short message saying which clause fails
    tag         branch / category label for the input-distribution histogram
    nontrivial  whether the case reaches a non-default branch by the module's stated rule
    """
    __slots__ = ("desc", "lines", "expect", "oracle", "tag", "nontrivial", "tol")

    def __init__(self, desc, lines, expect, oracle=None, tag="", nontrivial=True, tol=None):
        """tol: None = answers must be textually equal; a float = numeric tokens (split on
        space , ;) are compared with that relative tolerance (absolute tolerance tol*1e-3 near 0),
        all other tokens textually (real-valued regime; never bitwise float comparison)."""
        assert len(lines) == len(expect), (lines, expect)
        self.desc, self.lines, self.expect = desc, list(lines), [str(e) for e in expect]
        self.oracle, self.tag, self.nontrivial, self.tol = oracle, tag, nontrivial, tol


_TOK = re.compile(r"[ ,;]")


def fbits(x):
    """protocol token of a double: its bit pattern, `f:<decimal>` (exact transport)."""
    import struct
    return "f:%d" % struct.unpack("<Q", struct.pack("<d", float(x)))[0]


def tok_float(t):
    if t.startswith("f:"):
        import struct
        return struct.unpack("<d", struct.pack("<Q", int(t[2:])))[0]
    return float(t)


def answers_equal(expect, got, tol=None):
    if expect == got:
        return True
    if tol is None:
        return False
    a, b = _TOK.split(expect), _TOK.split(got)
    if len(a) != len(b) or _TOK.findall(expect) != _TOK.findall(got):
        return False
    for x, y in zip(a, b):
        if x == y:
            continue
        try:
            fx, fy = tok_float(x), tok_float(y)
        except ValueError:
            return False
        if fx != fx or fy != fy:          # NaN on exactly one side / both: textual only
            return False
        if fx in (float("inf"), float("-inf")) or fy in (float("inf"), float("-inf")):
            if fx != fy:                  # an infinity only equals the same infinity
                return False
            continue
        if abs(fx - fy) > tol * max(abs(fx), abs(fy)) and abs(fx - fy) > tol * 1e-3:
            return False
    return True


# ----------------------------------------------------------------------------------------
# Lean side
# ----------------------------------------------------------------------------------------

def sh(cmd, cwd=None, timeout=3000):
    p = subprocess.run(cmd, cwd=cwd, stdout=subprocess.PIPE, stderr=subprocess.STDOUT,
                       timeout=timeout, text=True)
    return p.returncode, p.stdout


def strip_lean_comments(src):
    # nested block comments and line comments
    out, i, depth, n = [], 0, 0, len(src)
    while i < n:
        if src.startswith("/-", i):
            depth += 1
            i += 2
        elif depth and src.startswith("-/", i):
            depth -= 1
            i += 2
        elif depth:
            if src[i] == "\n":
                out.append("\n")
            i += 1
        elif src.startswith("--", i):
            while i < n and src[i] != "\n":
                i += 1
        else:
            out.append(src[i])
            i += 1
    return "".join(out)


def lean_imports_closure(module):
    """Local (DeapModel.*/Driver.*) modules transitively imported by `module`."""
    seen, todo = [], [module]
    while todo:
        m = todo.pop()
        if m in seen:
            continue
        path = os.path.join(LEAN, *m.split(".")) + ".lean"
        if not os.path.exists(path):
            continue
        seen.append(m)
        for mm in re.findall(r"^import\s+((?:DeapModel|Driver)[\w.]*)", open(path).read(), re.M):
            todo.append(mm)
    return seen


def theorem_names(pid):
    path = os.path.join(LEAN, "DeapModel", "Props", pid + ".lean")
    src = strip_lean_comments(open(path).read())
    names = re.findall(r"^\s*(?:private\s+|protected\s+)?theorem\s+([\w.']+)", src, re.M)
    return [pid + "." + n for n in names]


def _count_axioms(res, names, out):
    """parse `#print axioms` output for `names`; count discharged obligations, record problems"""
    out1 = re.sub(r"\s+", " ", out)
    for n in names:
        m = re.search(r"'%s' depends on axioms: \[([^\]]*)\]" % re.escape(n), out1)
        if m:
            ax = set(a.strip() for a in m.group(1).split(",") if a.strip())
        elif re.search(r"'%s' does not depend on any axioms" % re.escape(n), out1):
            ax = set()
        else:
            res["problems"].append("no axiom report for %s" % n)
            continue
        res["axioms"][n] = sorted(ax)
        if ax <= ALLOWED_AXIOMS:
            res["discharged"] += 1
        else:
            res["problems"].append("theorem %s depends on %s" % (n, sorted(ax - ALLOWED_AXIOMS)))


def _translated_obligations(res, pmod):
    """Translator tie.  `pmod.translate(repo)` reads /repo's CURRENT source and returns
    dict(problems=[...], source=<Lean text: imports, generated definitions, and the committed theorems
    `generated definition = hand-written model`>, theorems=[fully qualified names]).
    The text is elaborated in a per-run scratch file (so parallel runs against different trees do not collide) and its
    theorems are audited like the property theorems: a source change that alters a translated definition breaks a proof
    obligation at elaboration time, before any input is sampled.  The translator is trusted to render the Python
    sub-language it accepts faithfully and must refuse (a reported problem) everything else."""
    t0 = time.time()
    try:
        tr = pmod.translate(REPO)
    except Exception as e:      # the translator is part of the tie: its failure is a broken obligation, not a crash
        tr = {"problems": ["translator failed: %s: %s" % (type(e).__name__, e)], "source": None, "theorems": []}
    names = list(tr.get("theorems") or [])
    res["obligations"] += len(names)
    res["translated"] = {"theorems": len(names), "definitions": tr.get("definitions", []),
                         "refused": tr.get("refused", [])}
    for x in tr.get("problems") or []:
        res["problems"].append("translator: %s" % x)
    src = tr.get("source")
    if not src:
        return
    hit = FORBIDDEN.search(strip_lean_comments(src))
    if hit:
        res["problems"].append("forbidden construct %r in the translated file" % hit.group(0).strip())
    scratch = tempfile.mkdtemp(prefix="deapverif-gen-")
    try:
        f = os.path.join(scratch, "GenEq.lean")
        with open(f, "w") as fh:
            fh.write(src + "\n")
            for n in names:
                fh.write("#print axioms %s\n" % n)
        rc, out = sh(["lake", "env", "lean", f], cwd=LEAN)
    finally:
        shutil.rmtree(scratch, ignore_errors=True)
    res["translated"]["elab_s"] = round(time.time() - t0, 1)
    if rc != 0:
        errs = [l for l in out.splitlines() if "error" in l][:8]
        res["problems"].append("translated definitions no longer provably equal the model:\n%s" % "\n".join(errs or [out[-1500:]]))
        # the theorems that still elaborate are still discharged; a theorem whose proof failed is reported by Lean as
        # depending on sorryAx (not an allowed axiom), one without a report (the file stopped before it) as a problem
    _count_axioms(res, names, out)


def proof_obligations(pid, thorough=False, pmod=None):
    """Build the theorem file, audit axioms, grep forbidden constructs.
    Returns dict(ok, obligations, discharged, problems, axioms)."""
    res = {"ok": False, "obligations": 0, "discharged": 0, "problems": [], "axioms": {},
           "build_s": 0.0}
    t0 = time.time()
    mod = "DeapModel.Props." + pid
    try:
        names = theorem_names(pid)
    except OSError as e:
        res["problems"].append("theorem file unreadable: %s" % e)
        return res
    res["obligations"] = len(names)
    rc, out = sh(["lake", "build", mod, "driver"], cwd=LEAN)
    res["build_s"] = round(time.time() - t0, 1)
    if rc != 0:
        res["problems"].append("lake build %s failed:\n%s" % (mod, out[-3000:]))
        return res
    # forbidden constructs in every local file the theorems (and the driver) depend on
    for m in sorted(set(lean_imports_closure(mod) + lean_imports_closure("Driver.Main"))):
        path = os.path.join(LEAN, *m.split(".")) + ".lean"
        hit = FORBIDDEN.search(strip_lean_comments(open(path).read()))
        if hit:
            res["problems"].append("forbidden construct %r in %s" % (hit.group(0).strip(), m))
    # axiom audit
    scratch = tempfile.mkdtemp(prefix="deapverif-audit-")
    try:
        f = os.path.join(scratch, "Audit.lean")
        with open(f, "w") as fh:
            fh.write("import %s\n" % mod)
            for n in names:
                fh.write("#print axioms %s\n" % n)
        rc, out = sh(["lake", "env", "lean", f], cwd=LEAN)
    finally:
        shutil.rmtree(scratch, ignore_errors=True)
    if rc != 0:
        res["problems"].append("axiom audit failed:\n%s" % out[-2000:])
        return res
    _count_axioms(res, names, out)
    # translator tie (optional): definitions regenerated from /repo's current source, proved equal to the model
    if pmod is not None and hasattr(pmod, "translate"):
        _translated_obligations(res, pmod)
    if thorough:
        rc, out = sh(["lake", "env", "leanchecker", mod], cwd=LEAN, timeout=3000)
        res["leanchecker"] = "ok" if rc == 0 else out[-1500:]
        if rc != 0:
            res["problems"].append("leanchecker rejected %s" % mod)
    res["ok"] = (not res["problems"]) and res["discharged"] == res["obligations"] and res["obligations"] > 0
    return res


def run_driver(lines):
    if not os.path.exists(DRIVER):
        raise Infra("driver executable missing: " + DRIVER)
    for l in lines:
        if "\n" in l:
            raise Infra("newline inside protocol line")
    p = subprocess.run([DRIVER], input="".join(l + "\n" for l in lines), stdout=subprocess.PIPE,
                       stderr=subprocess.PIPE, text=True, timeout=3000)
    if p.returncode != 0:
        raise Infra("driver exited %s: %s" % (p.returncode, p.stderr[-500:]))
    out = p.stdout.split("\n")
    if out and out[-1] == "":
        out.pop()
    if len(out) != len(lines):
        raise Infra("driver answered %d lines for %d requests" % (len(out), len(lines)))
    return out


# ----------------------------------------------------------------------------------------
# anchors
# ----------------------------------------------------------------------------------------

def anchor_hash(anchors):
    """anchors: list of (relative file, [top-level or Class.method names]); [] = whole file."""
    h = hashlib.sha256()
    for rel, names in anchors:
        path = os.path.join(REPO, rel)
        try:
            src = open(path).read()
        except OSError:
            h.update(b"missing:" + rel.encode())
            continue
        if not rel.endswith(".py"):
            h.update(src.encode())
            continue
        try:
            tree = ast.parse(src)
        except SyntaxError:
            h.update(b"syntax:" + rel.encode())
            continue
        if not names:
            h.update(ast.dump(tree).encode())
            continue
        index = {}
        for node in tree.body:
            if isinstance(node, (ast.FunctionDef, ast.ClassDef)):
                index[node.name] = node
                if isinstance(node, ast.ClassDef):
                    for sub in node.body:
                        if isinstance(sub, ast.FunctionDef):
                            index[node.name + "." + sub.name] = sub
        for n in names:
            node = index.get(n)
            h.update((n + ":" + (ast.dump(node) if node is not None else "absent")).encode())
    return h.hexdigest()[:16]


def anchors_file():
    return os.path.join(VERIF, "harness", "anchors.json")


def load_anchors():
    try:
        return json.load(open(anchors_file()))
    except (OSError, ValueError):
        return {}


# ----------------------------------------------------------------------------------------
# known findings
# ----------------------------------------------------------------------------------------

def load_known(pid):
    try:
        data = json.load(open(os.path.join(VERIF, "known_findings.json")))
    except (OSError, ValueError):
        return []
    return [k for k in data.get("known", []) if k.get("property") == pid]


# ----------------------------------------------------------------------------------------
# the check
# ----------------------------------------------------------------------------------------

def _jsonable(x):
    try:
        json.dumps(x)
        return x
    except (TypeError, ValueError):
        return repr(x)


def write_replay(pid, seed, kind, payload):
    d = os.path.join(OUT, "replays")
    os.makedirs(d, exist_ok=True)
    path = os.path.join(d, "%s-%s-seed%d.json" % (pid, kind, seed))
    with open(path, "w") as fh:
        json.dump({"property": pid, "kind": kind, "seed": seed, **payload}, fh, indent=1, default=repr)
    return path


class CaseTimeout(Exception):
    pass


def _alarm(signum, frame):
    raise CaseTimeout()


_TIMEOUT_RETRIES = [0]


def safe_evaluate(mod, desc, _scale=1):
    """Run the module's evaluate; an unexpected exception of the implementation is itself a
    failed oracle (the property demands a result), reported with the exception text.  A watchdog
    (SIGALRM, main thread only) turns an implementation that does not return within the module's
    CASE_TIMEOUT seconds into a failed oracle as well: every property here demands a result."""
    import signal
    limit = getattr(mod, "CASE_TIMEOUT", 30) * _scale
    use_alarm = hasattr(signal, "setitimer") and limit
    if use_alarm:
        try:
            old_handler = signal.signal(signal.SIGALRM, _alarm)
            signal.setitimer(signal.ITIMER_REAL, limit)
        except ValueError:          # not in the main thread
            use_alarm = False
    try:
        return mod.evaluate(desc)
    except CaseTimeout:
        # The watchdog measures wall-clock time: on a heavily loaded machine an ordinary case can exceed it (seen once:
        # a 20 ms case next to six other jobs).  The first few time-outs of a run are therefore confirmed by running the
        # case again with six times the limit before they count as a hang; a real hang still fails, only later.
        if _scale == 1 and _TIMEOUT_RETRIES[0] < 3:
            _TIMEOUT_RETRIES[0] += 1
            retry = True
        else:
            retry = False
        if not retry:
            return Case(desc, [], [], oracle="implementation did not return within %d s on this input (hang / "
                        "non-termination where the property demands a result)" % limit, tag="timeout")
    except Infra:
        raise
    except Exception as e:  # noqa
        tb = traceback.format_exc(limit=4)
        return Case(desc, [], [], oracle="implementation raised %s: %s\n%s" % (type(e).__name__, e, tb),
                    tag="exception")
    finally:
        if use_alarm:
            signal.setitimer(signal.ITIMER_REAL, 0)
            signal.signal(signal.SIGALRM, old_handler)
    return safe_evaluate(mod, desc, _scale=6)


def shrink_desc(mod, desc, still_fails, limit=300):
    shrinker = getattr(mod, "shrink", None)
    if shrinker is None:
        return desc
    n = 0
    improved = True
    while improved and n < limit:
        improved = False
        for cand in shrinker(desc):
            n += 1
            if n >= limit:
                break
            try:
                if still_fails(cand):
                    desc, improved = cand, True
                    break
            except Exception:  # noqa
                continue
    return desc


def run_check(pid, tier, seed, replay=None):
    t0 = time.time()
    check_deap_origin()
    mod = importlib.import_module("props." + pid.lower())
    thorough = tier == "thorough"
    rng = random.Random((seed * 1000003 + int(pid[1:])) & 0xFFFFFFFF)

    if replay:
        return run_replay(mod, pid, replay)
    for kind in ("oracle", "unproved"):        # a replay file always belongs to the run that names it
        stale = os.path.join(OUT, "replays", "%s-%s-seed%d.json" % (pid, kind, seed))
        if os.path.exists(stale):
            os.remove(stale)

    # 1. anchors
    anchors = getattr(mod, "ANCHORS", [])
    cur = anchor_hash(anchors)
    drift = load_anchors().get(pid) not in (None, cur)
    mult = 2 if drift else 1      # changed code under the model: explore twice as much

    # 2. proof obligations
    po = proof_obligations(pid, thorough=thorough, pmod=mod)

    # 3 + 4. correspondence and oracle
    cases, hist = [], {}
    violations = []      # (case, finding or None)
    corpus_dir = os.path.join(VERIF, "corpus", pid)
    descs = []
    if os.path.isdir(corpus_dir):
        for fn in sorted(os.listdir(corpus_dir)):
            if fn.endswith(".json"):
                try:
                    descs.append(json.load(open(os.path.join(corpus_dir, fn)))["case"])
                except (OSError, ValueError, KeyError):
                    pass
    n_corpus = len(descs)
    # the budget covers case generation/evaluation only: it starts now, after the proof step
    deadline = time.time() + (getattr(mod, "TIME_BUDGET", {"quick": 60, "thorough": 600})[tier]) * mult

    def all_descs():
        for d in descs:
            yield d
        for d in mod.generate(tier, rng, mult):
            yield d

    exhausted = True
    for d in all_descs():
        if time.time() > deadline:
            exhausted = False
            break
        c = safe_evaluate(mod, d)
        cases.append(c)
        hist[c.tag] = hist.get(c.tag, 0) + 1
    if not exhausted:
        print("TRUNCATED: time budget (%ds x%d) ended the generator after %d cases; later streams were not explored"
              % (getattr(mod, "TIME_BUDGET", {"quick": 60, "thorough": 600})[tier], mult, len(cases)))
        if len(cases) < getattr(mod, "MIN_CASES", 50) and not any(
                c.oracle is not None and not c.oracle.startswith(CORR_PREFIXES) for c in cases):
            # (a run that already holds a failing input keeps its verdict, e.g. an implementation that hangs)
            raise Infra("time budget exhausted after %d cases (machine overloaded?)" % len(cases))
    lines = [l for c in cases for l in c.lines]
    expect = [e for c in cases for e in c.expect]
    got = run_driver(lines) if lines else []
    # canary: the comparer must see a difference when one is planted
    if lines:
        planted = list(got)
        planted[0] = planted[0] + "#"
        if not any(a != b for a, b in zip(planted, got)):
            raise Infra("canary not detected")
    disagreements = []
    k = 0
    for c in cases:
        n = len(c.lines)
        for j in range(n):
            if not answers_equal(c.expect[j], got[k + j], c.tol):
                disagreements.append((c, c.lines[j], c.expect[j], got[k + j]))
                break
        k += n
    known = load_known(pid)
    _classify = getattr(mod, "classify", lambda desc, msg, known: None)
    _listed = set(k.get("id") for k in known)

    def classify(desc, msg, known_):
        """a module may only map a failure to a finding that known_findings.json lists"""
        f = _classify(desc, msg, known_)
        return f if f in _listed else None
    known_hits = {}
    # A module reports "the recorded tape / trace no longer fits the calls the code makes" as an oracle text
    # starting with one of CORR_PREFIXES: that is a break of the correspondence (the model cannot replay the
    # code), not a failing input of the property; it goes the no-failing-input-found way unless the search finds one.
    for c in cases:
        if c.oracle is not None and c.oracle.startswith(CORR_PREFIXES):
            disagreements.append((c, c.lines[0] if c.lines else "(no protocol line)", c.oracle, "(correspondence break)"))
            c.oracle = None
    for c in cases:
        if c.oracle is not None:
            f = classify(c.desc, c.oracle, known)
            if f is None:
                violations.append(c)
            else:
                known_hits.setdefault(f, c)

    # 5. verdict
    status, replay_path, vline = 0, None, None
    searched = 0
    if violations:
        c = violations[0]
        d = shrink_desc(mod, c.desc, lambda x: (lambda cc: cc.oracle is not None and not cc.oracle.startswith(CORR_PREFIXES) and classify(cc.desc, cc.oracle, known) is None)(safe_evaluate(mod, x)))
        cc = safe_evaluate(mod, d)
        replay_path = write_replay(pid, seed, "oracle", {"case": d, "failure": cc.oracle or c.oracle})
        vline = "VIOLATION property=%s replay=%s" % (pid, replay_path)
        status = 1
    elif not po["ok"] or disagreements:
        # failing-input search on the real code
        found = None
        budget = (200 if thorough else 20)
        rng2 = random.Random(rng.random())
        tend = time.time() + (600 if thorough else 60)
        gen = mod.generate(tier, rng2, budget)
        if disagreements and hasattr(mod, "focus_generate"):
            # the search is biased towards the branch where the disagreement was seen: the module first proposes
            # inputs of the same kind as the disagreeing cases, then the ordinary generator follows
            gen = itertools.chain(mod.focus_generate(tier, rng2, [dc[0].desc for dc in disagreements[:50]]), gen)
        for d in gen:
            if time.time() > tend:
                break
            searched += 1
            c = safe_evaluate(mod, d)
            if c.oracle is not None and not c.oracle.startswith(CORR_PREFIXES) and classify(c.desc, c.oracle, known) is None:
                found = c
                break
        if found is not None:
            d = shrink_desc(mod, found.desc, lambda x: (lambda cc: cc.oracle is not None and not cc.oracle.startswith(CORR_PREFIXES) and classify(cc.desc, cc.oracle, known) is None)(safe_evaluate(mod, x)))
            cc = safe_evaluate(mod, d)
            replay_path = write_replay(pid, seed, "oracle", {"case": d, "failure": cc.oracle or found.oracle})
            vline = "VIOLATION property=%s replay=%s" % (pid, replay_path)
        else:
            payload = {"searched_inputs": searched}
            if not po["ok"]:
                payload["broken_proof_obligations"] = po["problems"]
            if disagreements:
                c, line, exp, g = disagreements[0]

                def still(x):
                    cx = safe_evaluate(mod, x)
                    if not cx.lines:
                        return False
                    gx = run_driver(cx.lines)
                    return any(not answers_equal(e, g2, cx.tol) for e, g2 in zip(cx.expect, gx))
                d = shrink_desc(mod, c.desc, still)
                cx = safe_evaluate(mod, d)
                gx = run_driver(cx.lines) if cx.lines else []
                diff = [(l, e, g2) for l, e, g2 in zip(cx.lines, cx.expect, gx) if not answers_equal(e, g2, cx.tol)][:3]
                payload["correspondence_disagreement"] = {
                    "case": d, "first_differences(line, implementation, model)": diff or [(line, exp, g)],
                    "count": len(disagreements)}
                payload["case"] = d
            replay_path = write_replay(pid, seed, "unproved", payload)
            vline = "VIOLATION property=%s replay=%s no-failing-input-found" % (pid, replay_path)
        status = 1

    for f, c in sorted(known_hits.items()):
        what = next((k.get("what", "") for k in known if k.get("id") == f), "")
        print("KNOWN-FINDING: property=%s %s: %s" % (pid, f, what))

    # evidence
    nontrivial = set()
    for c in cases:
        if c.nontrivial:
            nontrivial.add(json.dumps(_jsonable(c.desc), sort_keys=True, default=repr))
    samples = [_jsonable(c.desc) for c in cases[n_corpus:n_corpus + 2]] + \
              [_jsonable(c.desc) for c in cases[-1:]]
    # the evidence schema knows six levels; "full"/"partial" is the strength of the proof claim
    level = getattr(mod, "LEVEL", "proof")
    strength = getattr(mod, "STRENGTH", None)
    if level not in ("exploration", "fault_enumeration", "model_checking", "proof", "translation_validation", "other"):
        strength, level = strength or level, "proof"
    ev = {
        "property_id": pid, "tier": tier, "seed": seed, "level": level,
        "coverage": {
            "obligations": po["obligations"], "discharged": po["discharged"],
            "checker_cmd": "cd lean && lake build DeapModel.Props.%s driver && lake env lean <generated #print axioms file>%s"
                           % (pid, " && lake env leanchecker DeapModel.Props.%s" % pid if thorough else ""),
            "trusted_base": getattr(mod, "TRUSTED", []) + [
                "Lean 4.33.0 kernel; axioms allowed: propext, Classical.choice, Quot.sound (audited by #print axioms on every theorem, this run)",
                "correspondence harness (harness/lib.py, harness/props/%s.py) and the Lean driver's parser/printer" % pid.lower()],
            "theorems": po["axioms"],
            "proof_problems": po["problems"],
            "translator_tie": po.get("translated", "none for this property: the model is tied by correspondence only"),
            "evaluations": len(cases),
            "protocol_lines_compared": len(lines),
            "correspondence_disagreements": len(disagreements),
            "distinct_nontrivial": len(nontrivial),
            "rule": getattr(mod, "RULE", ""),
            "samples": samples if samples else ["(no case generated)"],
            "exhaustive": bool(getattr(mod, "EXHAUSTIVE", {}).get(tier, False)) and exhausted,
            "generator_completed": exhausted,
            "input_distribution": hist,
            "anchor_hash": cur, "anchor_drift": drift,
            "corpus_cases": n_corpus,
            "failing_input_search_inputs": searched,
            "known_findings_seen": sorted(known_hits),
            "explanation": getattr(mod, "EXPLANATION", ""),
            "proof_strength": strength or "see MANIFEST level_claimed.text",
        },
        "assumptions": getattr(mod, "ASSUMPTIONS", []),
        "wall_s": round(time.time() - t0, 2),
        "violations": 1 if status else 0,
    }
    os.makedirs(os.path.join(OUT, "evidence"), exist_ok=True)
    with open(os.path.join(OUT, "evidence", pid + ".json"), "w") as fh:
        json.dump(ev, fh, indent=1, default=repr)
        fh.write("\n")
    print("%s tier=%s seed=%d theorems=%d/%d cases=%d lines=%d disagreements=%d oracle_failures=%d known=%d wall=%.1fs"
          % (pid, tier, seed, po["discharged"], po["obligations"], len(cases), len(lines),
             len(disagreements), len(violations), len(known_hits), time.time() - t0))
    if not po["ok"]:
        for p in po["problems"]:
            print("proof-obligation problem: " + p.split("\n")[0])
    if vline:
        print(vline)
    return status


def run_replay(mod, pid, path):
    data = json.load(open(path))
    d = data.get("case")
    if d is None:
        print("replay file names no concrete case: " + json.dumps(data)[:2000])
        return 0
    c = safe_evaluate(mod, d)
    got = run_driver(c.lines) if c.lines else []
    print("case: " + json.dumps(_jsonable(d), default=repr)[:2000])
    for l, e, g in zip(c.lines, c.expect, got):
        print("line: %s\n  implementation: %s\n  model:          %s%s" % (l, e, g, "" if answers_equal(e, g, c.tol) else "   <-- differ"))
    print("oracle: " + ("holds" if c.oracle is None else "FAILS: " + c.oracle))
    known = load_known(pid)
    finding = None
    if c.oracle is not None:
        f = getattr(mod, "classify", lambda desc, msg, known: None)(c.desc, c.oracle, known)
        if f in set(k.get("id") for k in known):
            finding = f
    differ = any(not answers_equal(e, g, c.tol) for e, g in zip(c.expect, got))
    if finding is not None:
        print("KNOWN-FINDING: property=%s %s" % (pid, finding))
    elif c.oracle is not None:
        print("VIOLATION property=%s replay=%s" % (pid, path))
    return 1 if (differ or (c.oracle is not None and finding is None)) else 0
