#!/bin/sh
# mkbuilder.sh <tag> : private copy of /verif (with build cache) and a worktree of /repo HEAD for a builder sub-agent
t=$1
rm -rf /tmp/b-$t; mkdir -p /tmp/b-$t
rsync -a --exclude .git --exclude replays --exclude __pycache__ /verif/ /tmp/b-$t/verif/
git -C /repo worktree prune
git -C /repo worktree add --detach -f /tmp/b-$t/repo HEAD >/dev/null 2>&1
(cd /tmp/b-$t/verif && git init -q && git add -A >/dev/null 2>&1 && git -c user.name=b -c user.email=b@b commit -qm base >/dev/null 2>&1)
echo "/tmp/b-$t ready: $(git -C /tmp/b-$t/repo log --oneline -1)"
