#!/bin/sh
# import round-5 seeds of property $1, then run the quick check against them
p=$1
cd /verif
/venv/bin/python harness/import_seed.py $p /tmp/mutout-$p /tmp/mut-$p r5 > /tmp/mutout-$p/import.log 2>&1
grep -c CONFIRMED /tmp/mutout-$p/import.log
/venv/bin/python harness/pseedtest.py -j 3 $p-r5m1 $p-r5m2 $p-r5m3 > /tmp/mutout-$p/seedtest.log 2>&1
grep "^$p-r5" /tmp/mutout-$p/seedtest.log | cut -c1-200
