#!/bin/sh
# import round-6 seeds of property $1, then run the quick check against them
p=$1
cd /verif
/venv/bin/python harness/import_seed.py $p /tmp/mut8out-$p /tmp/mut-$p r8 > /tmp/mut8out-$p/import.log 2>&1
echo "$p confirmed: $(grep -c CONFIRMED /tmp/mut8out-$p/import.log)"
/venv/bin/python harness/pseedtest.py -j 3 $p-r8m1 $p-r8m2 > /tmp/mut8out-$p/seedtest.log 2>&1
grep "^$p-r8" /tmp/mut8out-$p/seedtest.log | cut -c1-200
