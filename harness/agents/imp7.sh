#!/bin/sh
# import round-6 seeds of property $1, then run the quick check against them
p=$1
cd /verif
/venv/bin/python harness/import_seed.py $p /tmp/mut7out-$p /tmp/mut-$p r7 > /tmp/mut7out-$p/import.log 2>&1
echo "$p confirmed: $(grep -c CONFIRMED /tmp/mut7out-$p/import.log)"
/venv/bin/python harness/pseedtest.py -j 3 $p-r7m1 $p-r7m2 $p-r7m3 > /tmp/mut7out-$p/seedtest.log 2>&1
grep "^$p-r7" /tmp/mut7out-$p/seedtest.log | cut -c1-200
