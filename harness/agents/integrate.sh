#!/bin/sh
# integrate.sh <tag> : bring a builder's delivery (/tmp/b-<tag>/verif, a git-initialised copy of /verif) into /verif.
# Owned files are copied; files several builders touch (mkmanifest.py, DeapModel.lean, Driver.lean, Driver/Main.lean, DESIGN.md,
# CONTRIBUTING.md, lib.py) are merged as a patch against the copy's base commit.  Evidence, replays, seed results are not taken.
t=$1
src=/tmp/b-$t/verif
cd $src || exit 2
git add -A >/dev/null 2>&1
for f in $(git diff --cached --name-only HEAD | grep -v '^evidence/\|^replays/\|__pycache__\|^lean/.lake\|^seeded/RESULTS.json\|^out16.txt'); do
  case "$f" in
    harness/mkmanifest.py|lean/DeapModel.lean|lean/Driver.lean|lean/Driver/Main.lean|DESIGN.md|CONTRIBUTING.md|harness/lib.py|MANIFEST.json|lean/lakefile.toml)
      if [ "$f" = "MANIFEST.json" ]; then continue; fi
      git diff --cached HEAD -- "$f" > /tmp/integrate-$t.patch
      if (cd /verif && git apply --3way /tmp/integrate-$t.patch 2>/tmp/integrate-$t.err); then echo "merged  $f"; else echo "CONFLICT $f (see /tmp/integrate-$t.err)"; fi
      ;;
    *)
      if [ -e "$f" ]; then mkdir -p "/verif/$(dirname $f)"; cp -p "$f" "/verif/$f"; echo "copied  $f"; else rm -f "/verif/$f"; echo "removed $f"; fi
      ;;
  esac
done
