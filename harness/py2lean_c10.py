"""py2lean_c10 — translator of the IMPERATIVE sub-language of the real-coded operators (C10) to Lean 4 definitions.

Used by the C10 check as the TRANSLATOR TIE: the bodies of cxBlend, cxESBlend, cxSimulatedBinary,
cxSimulatedBinaryBounded (deap/tools/crossover.py), mutGaussian, mutPolynomialBounded, mutESLogNormal
(deap/tools/mutation.py) are re-read from $DEAP_REPO's current source on every run, rendered as Lean definitions
`Gen.<f>` (polymorphic in `RealLike α`) and the committed theorems `Gen.<f> … = RealOps.<f> …`
(lean/DeapModel/GenEq/C10.lean.tmpl) are re-checked by the Lean kernel.

THIS DOCSTRING (with the expression rules of harness/py2lean.py that it re-uses unchanged, and
lean/DeapModel/Core/GenPreludeC10.lean) IS THE TRANSLATOR'S TRUSTED BASE.  Everything not listed is REFUSED.

Value types        float -> α ; a `len(..)` / `min(len, len)` / `range` element / `enumerate` index -> Nat (type N; it is
                   never negative, so indexing with it never counts from the end) ; other int -> Int as in py2lean ;
                   list of float -> List α ; an INDIVIDUAL parameter (signature table) -> its gene list `v_<p> : List α`
                   and, when the function mentions `<p>.strategy`, the list `v_<p>_strategy : List α`;
                   a BOUND parameter (a number or a sequence, signature table) -> `RealOps.Bound α`.
                   Distinct individual parameters are assumed to be distinct list objects, `<p>.strategy` distinct from
                   all of them (aliased arguments, numpy views and array.array are outside the rendering: the
                   differential correspondence and the Buffer model cover them); a list has copy semantics.
Result             every function has the type `… → (rs [gs] : List α) → RealOps.Outcome (STATE)`, STATE = the tuple of
                   the final contents of all individual parameters (genes [, strategy] in parameter order) followed by
                   the unread rest of the tapes.  `return p1, p2` / `return p,` must list exactly the individual
                   parameters in order (the objects returned are the arguments themselves).
                   `.indexError` = IndexError raised; `.badTape` = the tape was too short (no Python behaviour).
                   NOT RENDERED (as in py2lean): ZeroDivisionError / OverflowError / ValueError / complex results of float
                   operations (float division by 0.0, fractional power of a negative float, exp overflow).
Randomness         `random.random()` -> `Gen10.draw rs`: the next entry of the tape `rs` (the recorded results of the
                   calls, in call order) and the rest of the tape; `random.gauss(m, s)` -> `Gen10.draw gs` likewise from
                   the tape `gs` (m, s must be effect-free; they are evaluated but the value comes from the tape).
                   Exactly the interface of Core/RealOps.lean (`RealOps.pop`).  Draws are never shared or re-ordered:
                   each call site is one bind, in Python's evaluation order (left to right, operands before operator,
                   right-hand side before a subscript store, the old value of `x[i] op= e` before `e`).
Expressions        py2lean's rules unchanged (float literals as exact decimals of the SOURCE TEXT, + - * / unary -, `**`
                   with a float exponent -> RealLike.pow, comparisons `a > b` as `b < a`, int literal meeting a float ->
                   RealLike.ofNat, abs, math.sqrt / math.exp …) with these changes:
  float literal    the decimal is rendered as the REDUCED fraction `RealLike.ofRatio n d` (0.5 -> 1/2; n, d < 2^53, so the
                   Float instance still computes the correctly rounded literal), integral -> `RealLike.ofNat n`.
  min(a,b) max(a,b) two float arguments -> `RealLike.pmin a b` / `RealLike.pmax a b` (Python: `b if b < a else a`,
                   `b if b > a else a`); two N arguments (min only) -> `min` on Nat.
  len(x)           x an individual parameter, a list variable, or a bound in its sequence branch -> `x.length : Nat`.
  N in arithmetic  meeting a float (or as the argument of math.sqrt …) -> `RealLike.ofNat n`;  N < N, N <= N on Nat.
  x[i], x.strategy[i]   i of type N: `Gen10.getItem x i` (IndexError beyond the end); read from the CURRENT contents.
  repeat(v, n)     v float, n of type N -> the list `List.replicate n v`; the variable holding it may be used exactly once,
                   as an argument of `zip` (an iterator is exhausted after one pass).
Statements         docstring; `v = e`; `v op= e` (+ - * / **); `x[i] = e`, `x[i] op= e`, `x.strategy[i] = e`,
                   `x.strategy[i] op= e` (x an individual parameter, i of type N) -> `Gen10.setItem` on the state component,
                   state-passing (the new list shadows the old under the same name);
                   `raise IndexError(<message built from constants, %, len(), names>)` -> `.indexError`;
                   `return` (above);
                   `if c: A else: B` —
                     when A and B only assign names with effect-free right-hand sides (no draw, no subscript, no raise):
                       every name assigned in A or B that is read later is joined,
                       `let v := if c then (lets of A; v) else (lets of B; v)` (a name bound on one side only and read
                       later is refused);
                     otherwise `if c then (A; REST) else (B; REST)` — the rest of the enclosing block (and of the loop
                     body, ending in "next iteration") is duplicated into both branches;
                     the test `[not] isinstance(b, Sequence)` for a BOUND variable b (Sequence imported from
                     collections.abc / collections) -> `match b with | .scalar b => … | .seq b => …`; in the scalar
                     branch b is a float, in the sequence branch a list of floats;
                   `for T in S:` -> `Gen10.bind (Gen10.forM ITEMS STATE fun T STATE => BODY) fun STATE => REST` with
                     S = enumerate(zip(s1..sn)), T = `i, (a1..an)` -> `Gen10.enumerate (List.zip s1 (List.zip …))`
                     S = zip(s1..sn),            T = `a1, .., an`  -> `List.zip s1 (List.zip …)` (stops at the shortest)
                     S = range(n), n of type N                     -> `List.range n` (also as a zip argument)
                     a zip argument is range(n), a list variable, a `repeat` variable, an individual parameter p (its
                     genes) or p.strategy.  SNAPSHOT RULE: a state list that is iterated by the loop header is read
                     from its contents at loop entry; this is what the list iterator yields PROVIDED every store of
                     the body into that list is `x[i] = …` / `x[i] op= …` with i the loop's own index (the enumerate
                     index or a target bound to a `range(n)` first argument of zip): iteration k reads element k before
                     any store to index k, stores never touch a later index or change the length.  A body with any
                     other store into an iterated list is refused.
                     Names assigned by the body (and the loop targets) must be new; after the loop, and at the start
                     of the next iteration, they are unreadable (a read is refused) — no loop-carried locals.
REFUSED, e.g.      while, try, with, break, continue, nested loops, classes, decorators, keyword arguments, default
                   values, any other call / attribute / method, slices, append / insert / del, tuple assignment.
"""
import ast
import re
from fractions import Fraction

import py2lean
from py2lean import F, I, B, L, Refuse, Val, Env, Scope, LEAKED

N = ("N",)
IND = ("IND",)
BD = ("BD",)
IT = ("IT",)            # a `repeat(v, n)` iterator of floats


def lean_type(t):
    if t == N:
        return "Nat"
    if t == BD:
        return "RealOps.Bound α"
    if t == IT:
        return "List α"
    return py2lean.lean_type(t)


class NotPure(Exception):
    pass


def reads(stmts):
    out = set()
    for st in stmts:
        for n in ast.walk(st):
            if isinstance(n, ast.Name):
                out.add(n.id)
    return out


def assigned_names(stmts):
    out = []
    for st in stmts:
        for n in ast.walk(st):
            if isinstance(n, (ast.Assign, ast.AugAssign)):
                for t in (n.targets if isinstance(n, ast.Assign) else [n.target]):
                    if isinstance(t, ast.Name) and t.id not in out:
                        out.append(t.id)
    return out


class C10Translator(py2lean.FunctionTranslator):
    def __init__(self, module, fn, sig):
        super().__init__(module, fn, sig)
        self.inds = [a.arg for a in fn.args.args if sig.get(a.arg) == IND]
        self.uses_strategy = {p: False for p in self.inds}
        self.uses_rs = self.uses_gs = False
        for n in ast.walk(fn):
            if isinstance(n, ast.Attribute) and isinstance(n.value, ast.Name) and n.value.id in self.inds \
                    and n.attr == "strategy":
                self.uses_strategy[n.value.id] = True
            if isinstance(n, ast.Call) and self.random_call(n, None) == "random":
                self.uses_rs = True
            if isinstance(n, ast.Call) and self.random_call(n, None) == "gauss":
                self.uses_gs = True
        self.state = []
        for p in self.inds:
            self.state.append("v_" + p)
            if self.uses_strategy[p]:
                self.state.append("v_%s_strategy" % p)
        if self.uses_rs:
            self.state.append("rs")
        if self.uses_gs:
            self.state.append("gs")
        self.loop_index = None
        self.loop_iterated = set()
        self.in_loop = False

    # -- helpers ---------------------------------------------------------------------------
    def state_tuple(self):
        return "(%s)" % ", ".join(self.state) if len(self.state) > 1 else self.state[0]

    def state_type(self):
        return " × ".join("List α" for _ in self.state)

    def random_call(self, call, env):
        """'random' / 'gauss' when `call` is random.random() / random.gauss(..) of the stdlib module, else None"""
        f = call.func
        if isinstance(f, ast.Attribute) and isinstance(f.value, ast.Name) and f.value.id == "random" \
                and self.m.globals.get("random") == ("other", "random", None) and (env is None or env.get("random") is None) \
                and f.attr in ("random", "gauss"):
            return f.attr
        return None

    def state_list(self, node, env):
        """the Lean name of the state component `node` denotes (p or p.strategy), or None"""
        if isinstance(node, ast.Name) and node.id in self.inds and isinstance(env.get(node.id), Val) \
                and env.get(node.id).ty == IND:
            return "v_" + node.id
        if isinstance(node, ast.Attribute) and node.attr == "strategy" and isinstance(node.value, ast.Name) \
                and node.value.id in self.inds and isinstance(env.get(node.value.id), Val) \
                and env.get(node.value.id).ty == IND:
            return "v_%s_strategy" % node.value.id
        return None

    def sequence_global_ok(self):
        ok = False
        for node in ast.walk(self.m.tree):
            if isinstance(node, ast.ImportFrom):
                for a in node.names:
                    if (a.asname or a.name) == "Sequence":
                        if node.module in ("collections.abc", "collections") and a.name == "Sequence" and node.level == 0:
                            ok = True
                        else:
                            return False
            elif isinstance(node, ast.Name) and node.id == "Sequence" and isinstance(node.ctx, (ast.Store, ast.Del)):
                return False
        return ok and "Sequence" not in self.m.functions

    # -- expression layer: the overrides ---------------------------------------------------
    def float_literal(self, node):
        v = super().float_literal(node)
        t = v.term
        if "ofRatio" in t:
            num, den = [int(x) for x in t.split("ofRatio")[1].split(":")[0].split()]
            fr = Fraction(num, den)
            if float(fr) != node.value:
                raise Refuse("literal: internal rendering error")
            if fr.denominator == 1:
                return Val("(RealLike.ofNat %d : α)" % fr.numerator, F)
            return Val("(RealLike.ofRatio %d %d : α)" % (fr.numerator, fr.denominator), F)
        return v

    def toF(self, v):
        if v.ty == N:
            return Val("(RealLike.ofNat %s : α)" % v.term, F)
        return super().toF(v)

    def unify(self, a, b):
        if {a.ty, b.ty} == {F, N}:
            return self.toF(a), self.toF(b)
        return super().unify(a, b)

    def e_BinOp(self, e, env, sc):
        # N meets a float in + - * / : coerced to float first; N with N / Int is not needed by the operators
        if isinstance(e.op, (ast.Add, ast.Sub, ast.Mult, ast.Div)):
            a = self.expr(e.left, env, sc)
            b = self.expr(e.right, env, sc)
            if N in (a.ty, b.ty):
                if {a.ty, b.ty} != {F, N}:
                    raise Refuse("arithmetic on a length and %r (line %d)" % ((a.ty, b.ty), e.lineno))
                a, b = self.toF(a), self.toF(b)
            sym = {ast.Add: "+", ast.Sub: "-", ast.Mult: "*", ast.Div: "/"}[type(e.op)]
            if a.ty == F and b.ty == F:
                return Val("(%s %s %s)" % (a.term, sym, b.term), F)
            return self.binop_vals(e, a, b, sc)
        return super().e_BinOp(e, env, sc)

    def binop_vals(self, e, a, b, sc):
        """py2lean's e_BinOp on already evaluated operands (operands must not be evaluated twice: they may draw)"""
        fake = ast.BinOp(left=ast.Name(id="__a", ctx=ast.Load(), lineno=e.lineno, col_offset=0), op=e.op,
                         right=ast.Name(id="__b", ctx=ast.Load(), lineno=e.lineno, col_offset=0), lineno=e.lineno,
                         col_offset=0)
        env2 = Env()
        env2.set("__a", a)
        env2.set("__b", b)
        return py2lean.FunctionTranslator.e_BinOp(self, fake, env2, sc)

    def e_Compare(self, e, env, sc):
        if len(e.ops) != 1:
            raise Refuse("chained comparison")
        a = self.expr(e.left, env, sc)
        b = self.expr(e.comparators[0], env, sc)
        if N in (a.ty, b.ty):
            if a.ty == N and b.ty == N:
                pass
            elif {a.ty, b.ty} == {F, N}:
                a, b = self.toF(a), self.toF(b)
            else:
                raise Refuse("comparison of a length with %r" % ((a.ty, b.ty),))
        elif a.ty not in (F, I) or b.ty not in (F, I):
            raise Refuse("comparison of %r, %r" % (a.ty, b.ty))
        else:
            a, b = self.unify(a, b)
        op = e.ops[0]
        if isinstance(op, ast.Lt):
            return Val("(%s < %s)" % (a.term, b.term), B)
        if isinstance(op, ast.Gt):
            return Val("(%s < %s)" % (b.term, a.term), B)
        if isinstance(op, ast.LtE):
            return Val("(%s ≤ %s)" % (a.term, b.term), B)
        if isinstance(op, ast.GtE):
            return Val("(%s ≤ %s)" % (b.term, a.term), B)
        raise Refuse("comparison %s" % type(op).__name__)

    def e_BoolOp(self, e, env, sc):
        raise Refuse("and / or")

    def e_IfExp(self, e, env, sc):
        raise Refuse("conditional expression")

    def comprehension(self, e, env, sc):
        raise Refuse("comprehension")

    e_GeneratorExp = comprehension
    e_ListComp = comprehension

    def e_Attribute(self, e, env, sc):
        if self.state_list(e, env):
            raise Refuse(".strategy used as a value (line %d)" % e.lineno)
        return super().e_Attribute(e, env, sc)

    def e_Name(self, e, env, sc):
        v = super().e_Name(e, env, sc)
        if isinstance(v, Val) and v.ty in (IND, BD, IT):
            raise Refuse("%s used as a value (line %d)" % (e.id, e.lineno))
        return v

    def e_Subscript(self, e, env, sc):
        if isinstance(e.slice, ast.Slice):
            raise Refuse("slice (line %d)" % e.lineno)
        lst = self.state_list(e.value, env)
        if lst is None:
            b = env.get(e.value.id) if isinstance(e.value, ast.Name) else None
            if isinstance(b, Val) and b.ty == L(F):
                lst = b.term
            else:
                raise Refuse("subscript of something that is not a list of floats (line %d)" % e.lineno)
        i = self.expr(e.slice, env, sc)
        if i.ty != N:
            raise Refuse("index that is not a length / range / enumerate value (line %d)" % e.lineno)
        n = self.fresh("t")
        sc.entries.append(("obind", n, "Gen10.getItem %s %s" % (lst, i.term)))
        return Val(n, F)

    def len_of(self, node, env):
        lst = self.state_list(node, env)
        if lst is not None:
            return Val("%s.length" % lst, N)
        if isinstance(node, ast.Name):
            b = env.get(node.id)
            if isinstance(b, Val) and b.ty == L(F):
                return Val("%s.length" % b.term, N)
        raise Refuse("len of something that is not a list (line %d)" % node.lineno)

    def e_Call(self, e, env, sc):
        if e.keywords or any(isinstance(a, ast.Starred) for a in e.args):
            raise Refuse("keyword / starred arguments (line %d)" % e.lineno)
        rc = self.random_call(e, env)
        if rc == "random":
            if e.args:
                raise Refuse("random.random with arguments")
            n = self.fresh("t")
            sc.entries.append(("obind", "(%s, rs)" % n, "Gen10.draw rs"))
            return Val(n, F)
        if rc == "gauss":
            if len(e.args) != 2:
                raise Refuse("random.gauss arity")
            sub = Scope()
            for a in e.args:
                v = self.expr(a, env, sub)
                if v.ty not in (F, I, N):
                    raise Refuse("random.gauss argument of type %r" % (v.ty,))
            if sub.entries:
                raise Refuse("random.gauss with arguments that have effects")
            n = self.fresh("t")
            sc.entries.append(("obind", "(%s, gs)" % n, "Gen10.draw gs"))
            return Val(n, F)
        f = e.func
        if isinstance(f, ast.Name) and env.get(f.id) is None and self.m.globals.get(f.id) is None:
            if f.id == "len" and len(e.args) == 1:
                return self.len_of(e.args[0], env)
            if f.id in ("min", "max") and len(e.args) == 2:
                a = self.expr(e.args[0], env, sc)
                b = self.expr(e.args[1], env, sc)
                if a.ty == N and b.ty == N and f.id == "min":
                    return Val("(min %s %s)" % (a.term, b.term), N)
                if a.ty in (F, I) and b.ty in (F, I) and F in (a.ty, b.ty):
                    a, b = self.toF(a), self.toF(b)
                    return Val("(RealLike.%s %s %s)" % ("pmin" if f.id == "min" else "pmax", a.term, b.term), F)
                raise Refuse("%s of %r, %r (line %d)" % (f.id, a.ty, b.ty, e.lineno))
            if f.id in ("abs", "float"):
                return super().e_Call(e, env, sc)
            raise Refuse("call of %s/%d (line %d)" % (f.id, len(e.args), e.lineno))
        if isinstance(f, ast.Name) and env.get(f.id) is None \
                and self.m.globals.get(f.id) == ("other", "itertools", "repeat") and len(e.args) == 2:
            v = self.expr(e.args[0], env, sc)
            n = self.expr(e.args[1], env, sc)
            if v.ty != F or n.ty != N:
                raise Refuse("repeat(%r, %r) (line %d)" % (v.ty, n.ty, e.lineno))
            return Val("(List.replicate %s %s)" % (n.term, v.term), IT)
        if isinstance(f, ast.Attribute) and isinstance(f.value, ast.Name) and env.get(f.value.id) is None \
                and self.m.globals.get(f.value.id) == ("module", "math"):
            if len(e.args) == 1 and f.attr in py2lean.MATH_FUN:
                a = self.toF(self.expr(e.args[0], env, sc))
                return Val("(%s %s)" % (py2lean.MATH_FUN[f.attr], a.term), F)
            raise Refuse("math.%s (line %d)" % (f.attr, e.lineno))
        raise Refuse("call (line %d)" % e.lineno)

    def wrap(self, sc, final):
        raise Refuse("internal: option scope")

    def wrap_pure(self, sc, final):
        out = final
        for kind, n, t in reversed(sc.entries):
            if kind != "let":
                raise NotPure()
            out = "(let %s := %s; %s)" % (n, t, out)
        return out

    # -- rendering of effectful scopes -----------------------------------------------------
    def render(self, sc, final):
        out = final
        for kind, n, t in reversed(sc.entries):
            if kind == "let":
                out = "let %s := %s;\n%s" % (n, t, out)
            elif kind == "obind":
                out = "Gen10.bind (%s) fun %s =>\n%s" % (t, n, out)
            else:
                raise Refuse("internal: entry %s" % kind)
        return "(%s)" % out if sc.entries else out

    # -- statements ------------------------------------------------------------------------
    def assign_name(self, name, val, env, sc):
        if not isinstance(val, Val) or val.ty in (B, IND):
            raise Refuse("assignment of a condition / function / individual to %s" % name)
        old = env.get(name)
        if isinstance(old, Val) and old.ty == IND:
            raise Refuse("assignment to the individual parameter %s" % name)
        n = "v_" + name
        if n in self.state or name in ("rs", "gs"):
            raise Refuse("variable name %s collides with a state component" % name)
        sc.entries.append(("let", n, val.term))
        env.set(name, Val(n, val.ty))

    def name_stmt(self, st, env, sc):
        """`v = e` / `v op= e` with a name target; False when `st` is something else"""
        if isinstance(st, ast.Assign) and len(st.targets) == 1 and isinstance(st.targets[0], ast.Name):
            self.assign_name(st.targets[0].id, self.expr(st.value, env, sc), env, sc)
            return True
        if isinstance(st, ast.AugAssign) and isinstance(st.target, ast.Name):
            if not isinstance(st.op, (ast.Add, ast.Sub, ast.Mult, ast.Div, ast.Pow)):
                raise Refuse("augmented operator %s" % type(st.op).__name__)
            fake = ast.BinOp(left=ast.Name(id=st.target.id, ctx=ast.Load(), lineno=st.lineno, col_offset=0), op=st.op,
                             right=st.value, lineno=st.lineno, col_offset=0)
            self.assign_name(st.target.id, self.expr(fake, env, sc), env, sc)
            return True
        return False

    def pure_block(self, stmts, env, live):
        """lets of a block that only assigns names with effect-free right-hand sides; raises NotPure otherwise.
        -> Scope (lets only); env is updated"""
        sc = Scope()
        for k, st in enumerate(stmts):
            if isinstance(st, (ast.Assign, ast.AugAssign)):
                if not self.name_stmt(st, env, sc):
                    raise NotPure()
            elif isinstance(st, ast.If):
                self.pure_if(st, env, sc, reads(stmts[k + 1:]) | live)
            else:
                raise NotPure()
            if any(e[0] != "let" for e in sc.entries):
                raise NotPure()
        return sc

    def pure_if(self, st, env, sc, live):
        c = self.expr(st.test, env, sc)
        if c.ty != B or any(e[0] != "let" for e in sc.entries):
            raise NotPure()
        ea, eb = Env(env), Env(env)
        counter = self.counter
        sa = self.pure_block(list(st.body), ea, live)
        sb = self.pure_block(list(st.orelse), eb, live)
        names = [n for n in assigned_names(list(st.body) + list(st.orelse)) if n in live]
        joins = []
        for n in names:
            va, vb = ea.get(n), eb.get(n)
            if not isinstance(va, Val) or not isinstance(vb, Val):
                raise Refuse("%s is bound on one side of an `if` only and read later (line %d)" % (n, st.lineno))
            if va.ty != vb.ty:
                va, vb = self.unify(va, vb)
            joins.append((n, va.ty, "(if %s then %s else %s)" % (c.term, self.wrap_pure(sa, va.term),
                                                                 self.wrap_pure(sb, vb.term))))
        if len(joins) == 1:
            n, ty, term = joins[0]
            self.assign_name(n, Val(term, ty), env, sc)
        else:
            tmps = []
            for n, ty, term in joins:
                j = self.fresh("j")
                sc.entries.append(("let", j, term))
                tmps.append((n, ty, j))
            for n, ty, j in tmps:
                self.assign_name(n, Val(j, ty), env, sc)
        for n in assigned_names(list(st.body) + list(st.orelse)):
            if n not in names:
                env.set(n, LEAKED)          # bound inside the branches only and not read later

    def isinstance_test(self, test, env):
        """(name, negated) for `[not] isinstance(b, Sequence)` with b a BOUND variable, else None"""
        neg = False
        if isinstance(test, ast.UnaryOp) and isinstance(test.op, ast.Not):
            neg, test = True, test.operand
        if isinstance(test, ast.Call) and isinstance(test.func, ast.Name) and test.func.id == "isinstance" \
                and env.get("isinstance") is None and self.m.globals.get("isinstance") is None \
                and len(test.args) == 2 and not test.keywords and isinstance(test.args[0], ast.Name) \
                and isinstance(test.args[1], ast.Name) and test.args[1].id == "Sequence" and env.get("Sequence") is None:
            b = env.get(test.args[0].id)
            if isinstance(b, Val) and b.ty == BD:
                if not self.sequence_global_ok():
                    raise Refuse("Sequence is not collections.abc.Sequence")
                return test.args[0].id, neg
            raise Refuse("isinstance on something that is not a bound parameter (line %d)" % test.lineno)
        return None

    def block(self, stmts, env, k, live):
        """Lean term (an Outcome) for `stmts` followed by the continuation k(env)"""
        if not stmts:
            return k(env)
        st, rest = stmts[0], list(stmts[1:])
        live_here = reads(rest) | live
        cont = lambda env2: self.block(rest, env2, k, live)
        sc = Scope()
        if isinstance(st, ast.Expr) and isinstance(st.value, ast.Constant) and isinstance(st.value.value, str):
            return cont(env)
        if self.name_stmt(st, env, sc):
            return self.render(sc, cont(env))
        if isinstance(st, (ast.Assign, ast.AugAssign)):
            tgt = st.targets[0] if isinstance(st, ast.Assign) else st.target
            if isinstance(st, ast.Assign) and len(st.targets) != 1:
                raise Refuse("chained assignment (line %d)" % st.lineno)
            if not isinstance(tgt, ast.Subscript) or isinstance(tgt.slice, ast.Slice):
                raise Refuse("assignment target (line %d)" % st.lineno)
            lst = self.state_list(tgt.value, env)
            if lst is None:
                raise Refuse("store into something that is not an individual / its strategy (line %d)" % st.lineno)
            if lst in self.loop_iterated and not (isinstance(tgt.slice, ast.Name) and tgt.slice.id == self.loop_index):
                raise Refuse("store into the iterated list %s at an index other than the loop's own (line %d)"
                             % (lst, st.lineno))
            if isinstance(st, ast.Assign):
                v = self.expr(st.value, env, sc)                       # right-hand side first
                i = self.expr(tgt.slice, env, sc)
            else:
                if not isinstance(st.op, (ast.Add, ast.Sub, ast.Mult, ast.Div)):
                    raise Refuse("augmented operator %s" % type(st.op).__name__)
                i = self.expr(tgt.slice, env, sc)
                if i.ty != N:
                    raise Refuse("index that is not a length / range / enumerate value (line %d)" % st.lineno)
                old = self.fresh("t")
                sc.entries.append(("obind", old, "Gen10.getItem %s %s" % (lst, i.term)))   # the old value first
                rhs = self.expr(st.value, env, sc)
                fake = ast.BinOp(left=None, op=st.op, right=None, lineno=st.lineno, col_offset=0)
                v = self.binop_vals(fake, Val(old, F), rhs, sc) if rhs.ty != F else \
                    Val("(%s %s %s)" % (old, {ast.Add: "+", ast.Sub: "-", ast.Mult: "*", ast.Div: "/"}[type(st.op)], rhs.term), F)
            if i.ty != N:
                raise Refuse("index that is not a length / range / enumerate value (line %d)" % st.lineno)
            v = self.toF(v)
            sc.entries.append(("obind", lst, "Gen10.setItem %s %s %s" % (lst, i.term, v.term)))
            return self.render(sc, cont(env))
        if isinstance(st, ast.Raise):
            x = st.exc
            if st.cause is None and isinstance(x, ast.Call) and isinstance(x.func, ast.Name) and x.func.id == "IndexError" \
                    and env.get("IndexError") is None and self.m.globals.get("IndexError") is None and not x.keywords:
                for a in x.args:
                    for n in ast.walk(a):
                        if not isinstance(n, (ast.Constant, ast.BinOp, ast.Mod, ast.Tuple, ast.Name, ast.Load, ast.Call)):
                            raise Refuse("IndexError message (line %d)" % st.lineno)
                        if isinstance(n, ast.Call) and not (isinstance(n.func, ast.Name) and n.func.id == "len"
                                                            and len(n.args) == 1 and isinstance(n.args[0], ast.Name)):
                            raise Refuse("IndexError message (line %d)" % st.lineno)
                return "RealOps.Outcome.indexError"
            raise Refuse("raise (line %d)" % st.lineno)
        if isinstance(st, ast.Return):
            if self.in_loop:
                raise Refuse("return inside a loop")
            v = st.value
            if not isinstance(v, ast.Tuple) or [getattr(x, "id", None) for x in v.elts] != self.inds \
                    or any(not (isinstance(env.get(p), Val) and env.get(p).ty == IND) for p in self.inds):
                raise Refuse("return of something other than the tuple of the individual parameters (line %d)" % st.lineno)
            return "RealOps.Outcome.ok %s" % self.state_tuple()
        if isinstance(st, ast.If):
            it = self.isinstance_test(st.test, env)
            if it is not None:
                name, neg = it
                ln = env.get(name).term
                es, eq = Env(env), Env(env)
                es.set(name, Val(ln, F))
                eq.set(name, Val(ln, L(F)))
                bs, bq = (st.body, st.orelse) if neg else (st.orelse, st.body)
                ts = self.block(list(bs), es, cont, live_here)
                tq = self.block(list(bq), eq, cont, live_here)
                return "(match %s with\n| RealOps.Bound.scalar %s =>\n%s\n| RealOps.Bound.seq %s =>\n%s)" % (ln, ln, ts, ln, tq)
            # pure join?
            counter, snapshot = self.counter, dict(env.d)
            try:
                self.pure_if(st, env, sc, live_here)
                return self.render(sc, cont(env))
            except NotPure:
                self.counter, env.d = counter, snapshot
                sc = Scope()
            c = self.expr(st.test, env, sc)
            if c.ty != B:
                raise Refuse("condition is not a comparison (line %d)" % st.lineno)
            a = self.block(list(st.body), Env(env), cont, live_here)
            b = self.block(list(st.orelse), Env(env), cont, live_here)
            return self.render(sc, "(if %s then\n%s\nelse\n%s)" % (c.term, a, b))
        if isinstance(st, ast.For):
            return self.for_loop(st, env, cont, live_here)
        raise Refuse("statement %s (line %d)" % (type(st).__name__, st.lineno))

    # -- loops -----------------------------------------------------------------------------
    def zip_source(self, node, env, sc):
        """(lean term, element type, state list or None, is_range)"""
        lst = self.state_list(node, env)
        if lst is not None:
            return lst, F, lst, False
        if isinstance(node, ast.Call) and isinstance(node.func, ast.Name) and node.func.id == "range" \
                and env.get("range") is None and self.m.globals.get("range") is None and len(node.args) == 1 \
                and not node.keywords:
            n = self.expr(node.args[0], env, sc)
            if n.ty != N or sc.entries:
                raise Refuse("range of something that is not a plain length (line %d)" % node.lineno)
            return "(List.range %s)" % n.term, N, None, True
        if isinstance(node, ast.Name):
            b = env.get(node.id)
            if isinstance(b, Val) and b.ty == L(F):
                return b.term, F, None, False
            if isinstance(b, Val) and b.ty == IT:
                env.set(node.id, LEAKED)        # an iterator is exhausted after one pass
                return b.term, F, None, False
        raise Refuse("iteration source (line %d)" % node.lineno)

    def for_loop(self, st, env, cont, live):
        if st.orelse or self.in_loop:
            raise Refuse("for/else or nested loop (line %d)" % st.lineno)
        for n in ast.walk(ast.Module(body=st.body, type_ignores=[])):
            if isinstance(n, (ast.For, ast.While, ast.Break, ast.Continue, ast.Return, ast.Try, ast.With, ast.FunctionDef,
                              ast.Lambda)):
                raise Refuse("%s inside a loop body" % type(n).__name__)
        sc = Scope()
        it, tgt = st.iter, st.target
        names = lambda t: [x.id for x in t.elts] if isinstance(t, ast.Tuple) and all(isinstance(x, ast.Name) for x in t.elts) else None
        is_call = lambda n, f: isinstance(n, ast.Call) and isinstance(n.func, ast.Name) and n.func.id == f \
            and env.get(f) is None and self.m.globals.get(f) is None and not n.keywords
        index, iterated = None, set()
        if is_call(it, "enumerate") and len(it.args) == 1 and is_call(it.args[0], "zip") and len(it.args[0].args) >= 2:
            if not (isinstance(tgt, ast.Tuple) and len(tgt.elts) == 2 and isinstance(tgt.elts[0], ast.Name)
                    and names(tgt.elts[1]) is not None and len(tgt.elts[1].elts) == len(it.args[0].args)):
                raise Refuse("loop target (line %d)" % st.lineno)
            srcs = [self.zip_source(a, env, sc) for a in it.args[0].args]
            index = tgt.elts[0].id
            targets = [(index, N)] + [(n, s[1]) for n, s in zip(names(tgt.elts[1]), srcs)]
            items = "(Gen10.enumerate %s)" % self.zip_term(srcs)
        elif is_call(it, "zip") and len(it.args) >= 2:
            if names(tgt) is None or len(tgt.elts) != len(it.args):
                raise Refuse("loop target (line %d)" % st.lineno)
            srcs = [self.zip_source(a, env, sc) for a in it.args]
            if srcs[0][3]:
                index = tgt.elts[0].id
            targets = [(n, s[1]) for n, s in zip(names(tgt), srcs)]
            items = self.zip_term(srcs)
        elif is_call(it, "range") and len(it.args) == 1:
            if not isinstance(tgt, ast.Name):
                raise Refuse("loop target (line %d)" % st.lineno)
            srcs = [self.zip_source(it, env, sc)]
            index = tgt.id
            targets = [(tgt.id, N)]
            items = srcs[0][0]
        else:
            raise Refuse("loop header (line %d)" % st.lineno)
        if sc.entries:
            raise Refuse("loop header with effects")
        iterated = {s[2] for s in srcs if s[2] is not None}
        tnames = [n for n, _ in targets]
        if len(set(tnames)) != len(tnames):
            raise Refuse("repeated loop target")
        locals_ = assigned_names(st.body)
        for n in tnames + locals_:
            if env.get(n) is not None:
                raise Refuse("loop re-uses the name %s (line %d)" % (n, st.lineno))
        for n in tnames:
            if n in locals_:
                raise Refuse("loop body assigns its target %s" % n)
        inner = Env(env)
        for n, ty in targets:
            if "v_" + n in self.state:
                raise Refuse("loop target %s collides with a state component" % n)
            inner.set(n, Val("v_" + n, ty))
        for n in locals_:
            inner.set(n, LEAKED)             # not readable before the body assigns it (no loop-carried locals)
        self.in_loop, self.loop_index, self.loop_iterated = True, index, iterated
        saved = self.counter
        self.counter = 0                     # temporaries of a loop body are local to its definition
        try:
            body = self.block(list(st.body), inner, lambda e: "RealOps.Outcome.ok %s" % self.state_tuple(), set())
        finally:
            self.in_loop, self.loop_index, self.loop_iterated = False, None, set()
            self.counter = saved
        for n in tnames + locals_:
            env.set(n, LEAKED)
        pat = "(%s)" % ", ".join("v_" + n for n in tnames) if len(tnames) > 1 else "v_" + tnames[0]
        stp = self.state_tuple()
        # the body becomes a definition of its own (so that the committed theorems can name it); its parameters are the
        # variables of the enclosing scope it mentions
        captured, seen, e = [], set(), env
        chain = []
        while e is not None:
            chain.append(e)
            e = e.parent
        for e in reversed(chain):
            for key, b in e.d.items():
                cur = env.get(key)
                if isinstance(cur, Val) and cur is b and cur.ty in (F, N, L(F)) and cur.term.isidentifier() \
                        and cur.term not in seen and re.search(r"(?<![\w.])%s(?![\w])" % re.escape(cur.term), body):
                    seen.add(cur.term)
                    captured.append((cur.term, cur.ty))
        ity = " × ".join(lean_type(ty) for _, ty in targets)
        sig = "%s : (%s) → (%s) → RealOps.Outcome (%s) :=\n  fun %s %s =>\n%s" % (
            " ".join("(%s : %s)" % (n, lean_type(ty)) for n, ty in captured), ity, self.state_type(), self.state_type(),
            pat, stp, indent(body))
        name = self.loops.get(sig)
        if name is None:
            name = "%s_loop%d" % (self.lean_name, len(self.loops) + 1)
            self.loops[sig] = name
        call = " ".join([name] + [n for n, _ in captured])
        return "Gen10.bind (Gen10.forM %s %s (%s)) fun %s =>\n%s" % (items, stp, call, stp, cont(env))

    def zip_term(self, srcs):
        out = srcs[-1][0]
        for s in reversed(srcs[:-1]):
            out = "(List.zip %s %s)" % (s[0], out)
        return out

    # -- the function ----------------------------------------------------------------------
    def translate(self, lean_name):
        fn = self.fn
        if fn.decorator_list:
            raise Refuse("decorated function")
        if fn.args.defaults or fn.args.kw_defaults:
            raise Refuse("default values")
        params = self.params_of(fn.args)
        if not self.inds:
            raise Refuse("no individual parameter")
        env = Env()
        binders = []
        for p in params:
            if p not in self.sig:
                raise Refuse("no declared type for parameter %s" % p)
            ty = self.sig[p]
            env.set(p, Val("v_" + p, ty))
            if ty == IND:
                binders.append("(v_%s : List α)" % p)
                if self.uses_strategy[p]:
                    binders.append("(v_%s_strategy : List α)" % p)
            elif ty in (F, BD):
                binders.append("(v_%s : %s)" % (p, lean_type(ty)))
            else:
                raise Refuse("parameter type %r" % (ty,))
        if self.uses_rs:
            binders.append("(rs : List α)")
        if self.uses_gs:
            binders.append("(gs : List α)")

        def off_end(e):
            raise Refuse("a path reaches the end of the function without `return`")
        self.lean_name, self.loops = lean_name, {}
        body = self.block(list(fn.body), env, off_end, set())
        text = "def %s %s :\n    RealOps.Outcome (%s) :=\n%s" % (lean_name, " ".join(binders), self.state_type(), indent(body))
        loops = ["def %s %s\n" % (nm, sig) for sig, nm in self.loops.items()]
        return "\n".join(loops + [text]), self.state


def indent(text):
    """cosmetic: two spaces per open parenthesis depth at the start of each line"""
    out, depth = [], 0
    for line in text.split("\n"):
        out.append("  " * (1 + min(depth, 12)) + line)
        depth += line.count("(") - line.count(")")
    return "\n".join(out)


def translate_function(module, name, sig, lean_name):
    fn = module.functions.get(name)
    if fn is None:
        raise Refuse("no module-level function %s" % name)
    return C10Translator(module, fn, sig).translate(lean_name)
