"""py2lean_c18 — translator of the METHODS of deap/tools/support.py (Statistics, MultiStatistics, Logbook) to Lean 4.

Used by the C18 check as its TRANSLATOR TIE: the method bodies are re-read from $DEAP_REPO's current source on every run,
rendered as Lean definitions `Gen.<Class>_<method>` in state-passing style and the committed theorems
`Gen.<Class>_<method> … = <hand-written model> …` (lean/DeapModel/GenEq/C18.lean.tmpl) are re-checked by the kernel.

THIS DOCSTRING IS THE TRANSLATOR'S TRUSTED BASE (with lean/DeapModel/Core/GenPreludeC18.lean, the Python notions the
rendering is written in).  Everything not listed is REFUSED (`py2lean.Refuse`), never guessed.

Objects            An object is the record of its fields (table CLASSES below = the model's record types):
                     Logbook        -> `Logbook.LB` = (items of the list itself, chapters : name -> Logbook in creation
                                       order, buffindex : Nat, header, log_header : Bool, header_streamed : Bool);
                                       `columns_len` is NOT a field of the record (only `__txt__` uses it);
                     Statistics     -> `Stats.Statistics` = (key : function, functions : name -> partial, fields : list);
                     MultiStatistics (a dict subclass) -> the association list name -> Statistics itself.
                   A method opens `self` into one variable per field; `self.f = e` re-binds that variable; wherever the
                   object is needed (result, argument of a call, exception) it is re-assembled from the variables.
                   `getattr(self, "f", d)` is the field `f` when the table gives `d` as the value of the absent attribute.
                   A Nat field read is an Int (`(b : Int)`), a store is `Int.toNat e` (ASSUMPTION of the tie: a length /
                   stream position never goes negative).  `len(self)` / `for e in self` of a list subclass = its items.
dict               association list, distinct keys, insertion order: `d[k] = v` -> `Gen18.dictSet`, `d.get(k, None)` ->
                   `Gen18.dictGet`, `dict()` / `{}` -> `[]`, `.items()` -> the list, `.keys()` / `.values()` -> projections,
                   `{k: v for pat in seq}` -> `Gen18.forIn seq [] (fun pat d => Gen18.dictSet d k v)`.
functools.partial  `partial(function, *args, **kargs)` -> the frozen-argument record `(args, function)` (positional and
                   keyword arguments together are ONE value `args : φ`); calling it, `func(values)` -> `func.2 func.1 values`.
Parameters         `name, function, *args, **kargs` -> `name function args`; `*names` -> a list; defaults are kept only for
                   literal defaults (`index=0`); the types are the signature table METHODS (an assumption of the tie).
Integers           every int is an `Int`; `len(x)` -> `(x.length : Int)`; + - on ints; comparisons < <= > >= == != (chains
                   as conjunctions) -> `decide (…)`; `and` / `or` / `not` on such conditions -> `&&` `||` `!`; a condition is a Bool.
                   `a if c else b` -> `if c then a else b`.
Results            methods that cannot raise and do not recurse ("pure"): the new `self` (a method returning None that
                   mutates), the value (no mutation), or the pair (value, new self).
                   methods that can raise or recurse ("res"): `Gen18.Res Self Ret` — `ok self' value` | `raise self'` (an
                   exception, with the object AS IT WAS LEFT, partial mutations included) | `nofuel`.  A method that calls
                   itself on other objects gets a first parameter `fuel : Nat` that decreases at every recursive call
                   (`nofuel` when exhausted; the theorems are for every fuel ≥ the nesting depth of the chapters); a method that
                   calls such a method passes its own fuel on.
                   A comprehension whose element can raise (`[e.get(names[0], None) for e in self]`) -> `List.mapM` over Option, `none` -> `raise`.
Exceptions         `list.pop(i)` (`super(…).pop(index)` of a list subclass) -> `Gen18.listPop` (`none` = IndexError -> `raise`);
                   `x[i]` -> `Gen18.index x i` (`none` -> `raise`; refused inside a conditional expression / comprehension);
                   an exception of a called method propagates with the state at that point.
Statements         docstring; `v = e`; `self.f = e`; `d[k] = v`; `a, self.f = e1, e2` (all right sides first); `x -= e` / `x += e`;
                   `lst.append(e)` -> `lst ++ [e]`; `obj.method(args)`; `return e`; `return`;
                   `if c: … else: …` (the statements after the `if` are duplicated into both branches, so an early `return`
                   needs no special case); `if isinstance(key, slice)` / `if not isinstance(key, slice)` -> `match key` on
                   `Gen18.Key` (in the slice branch `range(*key.indices(n))` -> `indices n`, the builtin's answer; in the other
                   branch `key` is the int);
                   `for pat in seq: body` -> `Gen18.forIn seq state (fun pat state => …)`, state = the variables (and `self`) the body
                   assigns that exist before the loop; with a body that can raise -> `Gen18.forInE` (stops at the first exception);
                   `for v in d.values(): v.method(…)` (the body only calls methods of the loop variable) ->
                   `Gen18.forValues` / `Gen18.forValuesE`: the dict is rebuilt with the mutated objects.
                   `return` inside a loop is refused.
Expressions        names, int / bool / None literals, `[…]`, `[e for pat in seq]`, `tuple(e for pat in seq)`, `tuple(x)`,
                   `sorted(x)` -> `Gen18.sorted`, `sorted(x, reverse=True)` -> `Gen18.sortedRev`, `self.key(e)` (a function field),
                   `"\\n".join(text)` -> the text itself (`Gen18.joinLines`: the lines are the model's observation).
                   `select` returns a list in one branch and a tuple in the other: a returned list -> `Sel.single`, a returned
                   tuple -> `Sel.multi` (table `ret_wrap`); a returned value of unknown kind is refused.
Not translated     `Logbook.__txt__` (str.format, `{0:n}` locale formatting, expandtabs, center, itertools.chain: refused).  A CALL
                   `self.__txt__(start, header)` is rendered as the model's observation `Logbook.txt (toNat start) header self`
                   (which rows and whether a header are emitted; its side effect on `columns_len` is outside the record).
                   `Logbook.record` (`**infos` with dict-valued items, `isinstance(v, dict)`, `del infos[key]`): refused.
REFUSED, e.g.      while, try, with, lambda, nested def, global, string operations, slices, `in`, `is`, any call / attribute not listed,
                   mutation of an object that is neither `self` nor the loop variable of a `.values()` loop, numpy.
"""
import ast
import os

from py2lean import Refuse

RESERVED = set("fun let in if then else do end at by from have show match with def theorem where open".split())

# the record types of the model (lean/DeapModel/Core/Logbook.lean): field order = constructor order
CLASSES = {
    "Logbook": dict(type="Logbook.LB", ctor="Logbook.LB.mk", base="list", items="items",
                    fields=[("items", ("list", "row")), ("chapters", ("dict", "obj:Logbook")), ("buffindex", "nat"),
                            ("header", "opaque"), ("log_header", "bool"), ("header_streamed", "bool")],
                    absent={"header_streamed": False}),
    "Statistics": dict(type="Stats.Statistics δ κ φ ρ", ctor="Stats.Statistics.mk", base=None, items=None,
                       fields=[("key", "fn"), ("functions", ("dict", "partial")), ("fields", ("list", "int"))], absent={}),
    "MultiStatistics": dict(type="Stats.Multi δ κ φ ρ", ctor=None, base="dict", items=None, fields=[], absent={},
                            selfkind=("dict", "obj:Statistics")),
}
BINDERS = "{δ κ φ ρ : Type}"
# signature table: mode pure|res, fuel, result (self | ret | ret_self), Lean types of parameters and of the result
METHODS = {
    ("Statistics", "register"): dict(mode="pure", result="self", params={"name": ("Logbook.Name", "int"), "function": ("φ → List κ → ρ", "fn"), "args": ("φ", "opaque")},
                                     generic=True),
    ("Statistics", "compile"): dict(mode="pure", result="ret", params={"data": ("List δ", ("list", "opaque"))}, rtype="List (Logbook.Name × ρ)", generic=True),
    ("MultiStatistics", "compile"): dict(mode="pure", result="ret", params={"data": ("List δ", ("list", "opaque"))},
                                         rtype="List (Logbook.Name × List (Logbook.Name × ρ))", generic=True),
    ("MultiStatistics", "fields"): dict(mode="pure", result="ret", params={}, rtype="List Logbook.Name", generic=True),
    ("MultiStatistics", "register"): dict(mode="pure", result="self", params={"name": ("Logbook.Name", "int"), "function": ("φ → List κ → ρ", "fn"), "args": ("φ", "opaque")},
                                          generic=True),
    ("Logbook", "select"): dict(mode="res", result="ret", params={"names": ("List Logbook.Name", ("list", "int"))}, rtype="Logbook.Sel",
                                ret_wrap={"list": "Logbook.Sel.single", "tuple": "Logbook.Sel.multi"}),
    ("Logbook", "stream"): dict(mode="pure", result="ret_self", params={}, rtype="Logbook.Text"),
    ("Logbook", "__str__"): dict(mode="pure", result="ret", params={"startindex": ("Int", "int")}, rtype="Logbook.Text"),
    ("Logbook", "pop"): dict(mode="res", fuel="rec", result="ret", params={"index": ("Int", "int")}, rtype="Logbook.Row"),
    ("Logbook", "__delitem__"): dict(mode="res", fuel="pass", result="ret", params={"key": ("Gen18.Key", "key")}, rtype="Unit"),
    ("Logbook", "__txt__"): dict(external=True),
    ("Logbook", "record"): dict(refuse="`**infos` with dict-valued items, isinstance(v, dict), del infos[key]: outside the sub-language"),
}


class V:
    def __init__(self, term, kind=None):
        self.term, self.kind = term, kind


def lname(py):
    return py + "'" if py in RESERVED else py


def pat_of(node):
    if isinstance(node, ast.Name):
        return lname(node.id)
    if isinstance(node, ast.Tuple) and all(isinstance(e, ast.Name) for e in node.elts):
        return "(" + ", ".join(lname(e.id) for e in node.elts) + ")"
    raise Refuse("loop / comprehension target is not a name or a tuple of names")


class MethodTranslator:
    def __init__(self, cname, fn):
        self.cname, self.fn = cname, fn
        self.cls = CLASSES[cname]
        self.cfg = METHODS[(cname, fn.name)]
        self.mode = self.cfg["mode"]
        self.fuel = self.cfg.get("fuel")
        self.counter = 0
        self.dirty = False
        self.noraise = 0
        self.pending = []

    def fresh(self, base="t"):
        self.counter += 1
        return "%s%d" % (base, self.counter)

    # ---- self ---------------------------------------------------------------------------
    def fields(self, cname=None):
        return [f for f, _ in CLASSES[cname or self.cname]["fields"]]

    def self_term(self, env, cname=None, var="self"):
        c = CLASSES[cname or self.cname]
        if not c["fields"]:
            return var
        return "(%s %s)" % (c["ctor"], " ".join("%s_%s" % (var, f) for f, _ in c["fields"]))

    def open_obj(self, term, body, cname=None, var="self"):
        c = CLASSES[cname or self.cname]
        if not c["fields"]:
            return "let %s := %s\n%s" % (var, term, body)
        return "(match %s with\n| .mk %s =>\n%s)" % (term, " ".join("%s_%s" % (var, f) for f, _ in c["fields"]), body)

    def field_kind(self, f, cname=None):
        for g, k in CLASSES[cname or self.cname]["fields"]:
            if g == f:
                return k
        raise Refuse("attribute `%s` is not a field of the record of %s" % (f, cname or self.cname))

    # ---- results -------------------------------------------------------------------------
    def finish(self, env, val):
        """the method returns `val` (V or None)"""
        res = self.cfg["result"]
        if res == "self":
            if val is not None:
                raise Refuse("a value is returned by a method rendered as its new self")
            out = self.self_term(env)
        else:
            if val is None:
                if self.cfg.get("rtype") != "Unit":
                    raise Refuse("falls off the end / bare return where a value is expected")
                v = "()"
            else:
                v = val.term
                wrap = self.cfg.get("ret_wrap")
                if wrap:
                    k = val.kind[0] if isinstance(val.kind, tuple) else val.kind
                    if k not in wrap:
                        raise Refuse("returned value of unknown kind (list or tuple expected)")
                    v = "(%s %s)" % (wrap[k], v)
            if self.mode == "res":
                return "Gen18.Res.ok %s %s" % (self.self_term(env), v)
            if res == "ret":
                if self.dirty:
                    raise Refuse("method rendered as its value mutates self")
                return v
            out = "(%s, %s)" % (v, self.self_term(env))
        if self.mode == "res":
            return "Gen18.Res.ok %s ()" % out
        return out

    def raise_(self, env):
        if self.mode != "res":
            raise Refuse("an exception can be raised in a method rendered as pure")
        self.raised = True
        if self.loop_raise is not None:
            return "Gen18.Res.raise %s" % self.loop_raise(env)
        return "Gen18.Res.raise %s" % self.self_term(env)

    # ---- expressions ---------------------------------------------------------------------
    def expr(self, n, env):
        if isinstance(n, ast.Constant):
            if n.value is None:
                return V("none", "none")
            if isinstance(n.value, bool):
                return V("true" if n.value else "false", "bool")
            if isinstance(n.value, int):
                return V("(%d : Int)" % n.value, "int")
            raise Refuse("literal %r" % (n.value,))
        if isinstance(n, ast.Name):
            if n.id == "self":
                if self.cls["base"] == "dict":
                    return V("self", self.cls["selfkind"])
                if self.cls["base"] == "list":
                    return V("self_" + self.cls["items"], self.field_kind(self.cls["items"]))
                raise Refuse("`self` used as a value")
            if n.id in env:
                return env[n.id]
            raise Refuse("unknown name `%s`" % n.id)
        if isinstance(n, ast.Attribute):
            if isinstance(n.value, ast.Name) and n.value.id == "self":
                if n.attr in self.cls["absent"]:
                    raise Refuse("attribute `%s` may be absent: read it with getattr" % n.attr)
                return self.read_field(n.attr)
            raise Refuse("attribute access `%s`" % ast.dump(n)[:60])
        if isinstance(n, ast.UnaryOp):
            a = self.expr(n.operand, env)
            if isinstance(n.op, ast.Not) and a.kind == "bool":
                return V("(!%s)" % a.term, "bool")
            if isinstance(n.op, ast.USub) and a.kind == "int":
                return V("(-%s)" % a.term, "int")
            raise Refuse("unary operator")
        if isinstance(n, ast.BoolOp):
            self.noraise += 1
            vs = [self.expr(v, env) for v in n.values]
            self.noraise -= 1
            if any(v.kind != "bool" for v in vs):
                raise Refuse("and / or of values that are not conditions")
            op = " && " if isinstance(n.op, ast.And) else " || "
            return V("(" + op.join(v.term for v in vs) + ")", "bool")
        if isinstance(n, ast.Compare):
            terms = [self.expr(x, env) for x in [n.left] + n.comparators]
            if any(t.kind != "int" for t in terms):
                raise Refuse("comparison of values that are not ints")
            out = []
            for a, op, b in zip(terms, n.ops, terms[1:]):
                sym = {ast.Lt: "<", ast.LtE: "≤", ast.Gt: ">", ast.GtE: "≥", ast.Eq: "=", ast.NotEq: "≠"}.get(type(op))
                if sym is None:
                    raise Refuse("comparison operator %s" % type(op).__name__)
                out.append("decide (%s %s %s)" % (a.term, sym, b.term))
            return V("(" + " && ".join(out) + ")", "bool")
        if isinstance(n, ast.BinOp):
            a, b = self.expr(n.left, env), self.expr(n.right, env)
            if a.kind == "int" and b.kind == "int" and isinstance(n.op, (ast.Add, ast.Sub)):
                return V("(%s %s %s)" % (a.term, "+" if isinstance(n.op, ast.Add) else "-", b.term), "int")
            raise Refuse("binary operator %s on %s / %s" % (type(n.op).__name__, a.kind, b.kind))
        if isinstance(n, ast.IfExp):
            self.noraise += 1
            c, a, b = self.expr(n.test, env), self.expr(n.body, env), self.expr(n.orelse, env)
            self.noraise -= 1
            if c.kind != "bool":
                raise Refuse("condition of a conditional expression is not a condition")
            return V("(if %s then %s else %s)" % (c.term, a.term, b.term), a.kind if a.kind == b.kind else None)
        if isinstance(n, ast.List):
            es = [self.expr(e, env) for e in n.elts]
            return V("[" + ", ".join(e.term for e in es) + "]", ("list", es[0].kind if es else None))
        if isinstance(n, ast.Dict) and not n.keys:
            return V("[]", ("dict", None))
        if isinstance(n, (ast.ListComp, ast.GeneratorExp)):
            t, ek = self.comprehension(n, env)
            return V(t, ("list", ek))
        if isinstance(n, ast.DictComp):
            if len(n.generators) != 1 or n.generators[0].ifs or n.generators[0].is_async:
                raise Refuse("dict comprehension with several `for`s or an `if`")
            g = n.generators[0]
            seq = self.expr(g.iter, env)
            self.noraise += 1
            env2 = self.bind_pat(g.target, seq, dict(env))
            k, v = self.expr(n.key, env2), self.expr(n.value, env2)
            self.noraise -= 1
            d = self.fresh("d")
            return V("(Gen18.forIn %s [] (fun %s %s => Gen18.dictSet %s %s %s))" % (seq.term, pat_of(g.target), d, d, k.term, v.term),
                     ("dict", v.kind))
        if isinstance(n, ast.Subscript):
            if isinstance(n.slice, ast.Slice):
                raise Refuse("slice")
            a, i = self.expr(n.value, env), self.expr(n.slice, env)
            if not (isinstance(a.kind, tuple) and a.kind[0] in ("list", "tuple")) or i.kind != "int":
                raise Refuse("subscript of something that is not a list with an int")
            if self.noraise:
                raise Refuse("a subscript (can raise) inside a conditional expression / comprehension / and-or")
            if self.mode != "res":
                raise Refuse("a subscript (can raise) in a method rendered as pure")
            t = self.fresh()
            self.pending.append((t, "Gen18.index %s %s" % (a.term, i.term)))
            return V(t, a.kind[1])
        if isinstance(n, ast.Call):
            return self.call(n, env)
        raise Refuse("expression %s" % type(n).__name__)

    def read_field(self, f):
        k = self.field_kind(f)
        if k == "nat":
            return V("(self_%s : Int)" % f, "int")
        return V("self_%s" % f, k)

    def bind_pat(self, target, seq, env):
        ek = seq.kind[1] if isinstance(seq.kind, tuple) and len(seq.kind) > 1 else None
        if isinstance(target, ast.Name):
            if isinstance(seq.kind, tuple) and seq.kind[0] == "dict":
                raise Refuse("iteration over a dict (keys) instead of .items() / .values()")
            env[target.id] = V(lname(target.id), ek)
        elif isinstance(target, ast.Tuple) and len(target.elts) == 2 and isinstance(seq.kind, tuple) and seq.kind[0] == "dict":
            pat_of(target)
            env[target.elts[0].id] = V(lname(target.elts[0].id), "int")
            env[target.elts[1].id] = V(lname(target.elts[1].id), ek)
        else:
            raise Refuse("loop target does not fit the sequence")
        return env

    def comprehension(self, n, env):
        if len(n.generators) != 1 or n.generators[0].ifs or n.generators[0].is_async:
            raise Refuse("comprehension with several `for`s or an `if`")
        g = n.generators[0]
        seq = self.expr(g.iter, env)
        if not isinstance(seq.kind, tuple):
            raise Refuse("comprehension over something that is not a list / dict view")
        env2 = self.bind_pat(g.target, seq, dict(env))
        # the element may raise (x[i]): rendered with List.mapM over Option, `none` = the exception (the comprehension
        # has no other effect, so the exception is all that is observable of a failed evaluation)
        outer, self.pending, nr, self.noraise = self.pending, [], self.noraise, 0
        try:
            e = self.expr(n.elt, env2)
            inner = self.pending
        finally:
            self.pending, self.noraise = outer, nr
        if not inner:
            return "(List.map (fun %s => %s) %s)" % (pat_of(g.target), e.term, seq.term), e.kind
        if self.noraise:
            raise Refuse("a comprehension that can raise inside a conditional expression / and-or")
        body = "some %s" % e.term
        for t, opt in reversed(inner):
            body = "(match %s with | none => none | some %s => %s)" % (opt, t, body)
        t = self.fresh()
        self.pending.append((t, "List.mapM (fun %s => %s) %s" % (pat_of(g.target), body, seq.term)))
        return t, e.kind

    def call(self, n, env):
        f = n.func
        if isinstance(f, ast.Name):
            name = f.id
            if name in env and env[name].kind == "partial":
                if len(n.args) != 1 or n.keywords:
                    raise Refuse("call of a partial with other than one argument")
                a = self.expr(n.args[0], env)
                return V("(%s.2 %s.1 %s)" % (env[name].term, env[name].term, a.term), "opaque")
            if name in env:
                raise Refuse("call of the variable `%s`" % name)
            if name == "len" and len(n.args) == 1 and not n.keywords:
                a = self.expr(n.args[0], env)
                if not isinstance(a.kind, tuple):
                    raise Refuse("len of something that is not a list / dict")
                return V("((%s).length : Int)" % a.term, "int")
            if name == "tuple" and len(n.args) == 1 and not n.keywords:
                a = self.expr(n.args[0], env)
                if not (isinstance(a.kind, tuple) and a.kind[0] in ("list", "tuple")):
                    raise Refuse("tuple() of something that is not a list")
                return V(a.term, ("tuple", a.kind[1]))
            if name == "list" and not n.args and not n.keywords:
                return V("[]", ("list", None))
            if name == "dict" and not n.args and not n.keywords:
                return V("[]", ("dict", None))
            if name == "sorted" and len(n.args) == 1:
                a = self.expr(n.args[0], env)
                if a.kind != ("list", "int"):
                    raise Refuse("sorted() of something that is not a list of names / indices")
                if not n.keywords:
                    return V("(Gen18.sorted %s)" % a.term, a.kind)
                if len(n.keywords) == 1 and n.keywords[0].arg == "reverse" and isinstance(n.keywords[0].value, ast.Constant) \
                        and n.keywords[0].value.value is True:
                    return V("(Gen18.sortedRev %s)" % a.term, a.kind)
                raise Refuse("sorted() with these keywords")
            if name == "range":
                # range(*key.indices(n)) of the slice branch
                if len(n.args) == 1 and isinstance(n.args[0], ast.Starred) and not n.keywords:
                    c = n.args[0].value
                    if isinstance(c, ast.Call) and isinstance(c.func, ast.Attribute) and c.func.attr == "indices" \
                            and isinstance(c.func.value, ast.Name) and env.get(c.func.value.id) is not None \
                            and env[c.func.value.id].kind == "slice" and len(c.args) == 1 and not c.keywords:
                        a = self.expr(c.args[0], env)
                        if a.kind != "int":
                            raise Refuse("slice.indices of a non-int")
                        return V("(%s (Int.toNat %s))" % (env[c.func.value.id].term, a.term), ("list", "int"))
                raise Refuse("range() other than range(*slice.indices(n))")
            if name == "partial":
                if len(n.args) == 2 and isinstance(n.args[0], ast.Name) and isinstance(n.args[1], ast.Starred) \
                        and isinstance(n.args[1].value, ast.Name) and n.args[1].value.id == self.vararg \
                        and len(n.keywords) == 1 and n.keywords[0].arg is None and isinstance(n.keywords[0].value, ast.Name) \
                        and n.keywords[0].value.id == self.kwarg and env.get(n.args[0].id) is not None and env[n.args[0].id].kind == "fn":
                    return V("(args, %s)" % env[n.args[0].id].term, "partial")
                raise Refuse("partial() other than partial(function, *args, **kargs)")
            if name == "getattr":
                if len(n.args) == 3 and isinstance(n.args[0], ast.Name) and n.args[0].id == "self" and isinstance(n.args[1], ast.Constant) \
                        and isinstance(n.args[2], ast.Constant) and n.args[1].value in self.cls["absent"] \
                        and self.cls["absent"][n.args[1].value] is n.args[2].value:
                    return V("self_%s" % n.args[1].value, self.field_kind(n.args[1].value))
                raise Refuse("getattr other than getattr(self, <field that may be absent>, <its table default>)")
            raise Refuse("call of `%s`" % name)
        if isinstance(f, ast.Attribute):
            # "\n".join(text)
            if isinstance(f.value, ast.Constant) and f.value.value == "\n" and f.attr == "join" and len(n.args) == 1 and not n.keywords:
                a = self.expr(n.args[0], env)
                if a.kind != "text":
                    raise Refuse("join of something that is not the text of __txt__")
                return V("(Gen18.joinLines %s)" % a.term, "text")
            # self.key(elem): a function-valued field
            if isinstance(f.value, ast.Name) and f.value.id == "self" and self.cls["fields"] and f.attr in self.fields() \
                    and self.field_kind(f.attr) == "fn":
                if len(n.args) != 1 or n.keywords:
                    raise Refuse("call of a function field with other than one argument")
                a = self.expr(n.args[0], env)
                return V("(self_%s %s)" % (f.attr, a.term), "opaque")
            # external observation self.__txt__(start[, header])
            if isinstance(f.value, ast.Name) and f.value.id == "self" and METHODS.get((self.cname, f.attr), {}).get("external"):
                if f.attr != "__txt__" or not 1 <= len(n.args) <= 2 or n.keywords:
                    raise Refuse("call of %s with these arguments" % f.attr)
                a = self.expr(n.args[0], env)
                h = self.expr(n.args[1], env) if len(n.args) == 2 else V("true", "bool")
                if a.kind != "int" or h.kind != "bool":
                    raise Refuse("__txt__(startindex, header) with other than an int and a condition")
                return V("(Logbook.txt (Int.toNat %s) %s %s)" % (a.term, h.term, self.self_term(env)), "text")
            recv = self.expr(f.value, env)
            k = recv.kind
            if isinstance(k, tuple) and k[0] == "dict":
                if f.attr == "items" and not n.args and not n.keywords:
                    return V(recv.term, k)
                if f.attr == "keys" and not n.args and not n.keywords:
                    return V("(Gen18.keys %s)" % recv.term, ("list", "int"))
                if f.attr == "values" and not n.args and not n.keywords:
                    return V("(Gen18.values %s)" % recv.term, ("list", k[1]))
            if k == "row" or (isinstance(k, tuple) and k[0] == "dict"):
                if f.attr == "get" and len(n.args) == 2 and not n.keywords and isinstance(n.args[1], ast.Constant) and n.args[1].value is None:
                    a = self.expr(n.args[0], env)
                    return V("(Gen18.dictGet %s %s)" % (recv.term, a.term), "opaque")
            # a method of an object that does not mutate and cannot raise, used as a value (stats.compile(data))
            if isinstance(k, str) and k.startswith("obj:"):
                cfg = METHODS.get((k[4:], f.attr))
                if cfg and cfg.get("mode") == "pure" and cfg.get("result") == "ret" and not n.keywords:
                    args = [self.expr(a, env) for a in n.args]
                    if len(args) != len(cfg["params"]):
                        raise Refuse("call of %s.%s with these arguments" % (k[4:], f.attr))
                    return V("(Gen.%s_%s %s)" % (k[4:], f.attr, " ".join([recv.term] + [a.term for a in args])), "opaque")
            raise Refuse("method call `.%s` on %s" % (f.attr, k))
        raise Refuse("call")

    # ---- statements ----------------------------------------------------------------------
    def with_pending(self, env, body):
        """wrap `body` in the binds of the raising sub-expressions registered since the last call"""
        pend, self.pending = self.pending, []
        for t, opt in reversed(pend):
            body = "(match %s with\n| none => %s\n| some %s =>\n%s)" % (opt, self.raise_(env), t, body)
        return body

    def block(self, stmts, env, k):
        if not stmts:
            return k(env)
        s, rest = stmts[0], stmts[1:]
        nxt = lambda e: self.block(rest, e, k)
        if isinstance(s, ast.Expr) and isinstance(s.value, ast.Constant) and isinstance(s.value.value, str):
            return nxt(env)
        if isinstance(s, ast.Pass):
            return nxt(env)
        if isinstance(s, ast.Return):
            if self.in_loop:
                raise Refuse("return inside a loop")
            if s.value is None:
                return self.finish(env, None)
            if self.is_method_call(s.value, env):
                return self.method_call(s.value, env, lambda e, v: self.finish(e, v))
            env0 = dict(env)
            v = self.expr(s.value, env)
            return self.with_pending(env0, self.finish(env, v))
        if isinstance(s, ast.Assign):
            if len(s.targets) != 1:
                raise Refuse("chained assignment")
            t = s.targets[0]
            if isinstance(t, ast.Tuple):
                if not (isinstance(s.value, ast.Tuple) and len(s.value.elts) == len(t.elts)):
                    raise Refuse("tuple assignment from something that is not a tuple display of the same length")
                env0 = dict(env)
                vals = [self.expr(e, env) for e in s.value.elts]
                tmps = [self.fresh() for _ in vals]
                out = "".join("let %s := %s\n" % (a, v.term) for a, v in zip(tmps, vals))
                env = dict(env)
                for tgt, a, v in zip(t.elts, tmps, vals):
                    out += self.store(tgt, V(a, v.kind), env)
                return self.with_pending(env0, out + nxt(env))
            if isinstance(t, ast.Name) and self.is_method_call(s.value, env):
                def after(e, v):
                    e = dict(e)
                    nm = self.fresh(lname(t.id) + "_")
                    e[t.id] = V(nm, v.kind)
                    return "let %s := %s\n%s" % (nm, v.term, nxt(e))
                return self.method_call(s.value, env, after)
            env0 = dict(env)
            v = self.expr(s.value, env)
            env = dict(env)
            out = self.store(t, v, env)
            return self.with_pending(env0, out + nxt(env))
        if isinstance(s, ast.AugAssign):
            if not isinstance(s.op, (ast.Add, ast.Sub)):
                raise Refuse("augmented assignment operator")
            load = ast.copy_location(ast.Attribute(s.target.value, s.target.attr, ast.Load()), s.target) if isinstance(s.target, ast.Attribute) \
                else ast.copy_location(ast.Name(s.target.id, ast.Load()), s.target) if isinstance(s.target, ast.Name) else None
            if load is None:
                raise Refuse("augmented assignment target")
            v = self.expr(ast.BinOp(load, s.op, s.value), env)
            env = dict(env)
            out = self.store(s.target, v, env)
            return out + nxt(env)
        if isinstance(s, ast.Expr) and isinstance(s.value, ast.Call):
            c = s.value
            f = c.func
            if isinstance(f, ast.Attribute) and f.attr == "append" and len(c.args) == 1 and not c.keywords:
                v = self.expr(c.args[0], env)
                env = dict(env)
                if isinstance(f.value, ast.Name) and f.value.id in env and isinstance(env[f.value.id].kind, tuple) and env[f.value.id].kind[0] == "list":
                    old = env[f.value.id]
                    env[f.value.id] = V(old.term, ("list", old.kind[1] if old.kind[1] is not None else v.kind))
                    return "let %s := %s ++ [%s]\n%s" % (old.term, old.term, v.term, nxt(env))
                if isinstance(f.value, ast.Attribute) and isinstance(f.value.value, ast.Name) and f.value.value.id == "self" \
                        and isinstance(self.field_kind(f.value.attr), tuple) and self.field_kind(f.value.attr)[0] == "list":
                    self.dirty = True
                    return "let self_%s := self_%s ++ [%s]\n%s" % (f.value.attr, f.value.attr, v.term, nxt(env))
                raise Refuse("append on something that is not a local list / list field")
            if self.is_method_call(c, env):
                return self.method_call(c, env, lambda e, v: nxt(e))
            raise Refuse("expression statement `%s`" % ast.dump(c)[:80])
        if isinstance(s, ast.If):
            return self.if_(s, env, nxt)
        if isinstance(s, ast.For):
            return self.for_(s, env, nxt)
        raise Refuse("statement %s" % type(s).__name__)

    def store(self, t, v, env):
        if isinstance(t, ast.Name):
            if t.id == "self":
                raise Refuse("assignment to self")
            env[t.id] = V(lname(t.id), v.kind)
            return "let %s := %s\n" % (lname(t.id), v.term)
        if isinstance(t, ast.Attribute) and isinstance(t.value, ast.Name) and t.value.id == "self":
            k = self.field_kind(t.attr)
            self.dirty = True
            if k == "nat":
                if v.kind != "int":
                    raise Refuse("store of a non-int into %s" % t.attr)
                return "let self_%s := Int.toNat %s\n" % (t.attr, v.term)
            if k == "bool" and v.kind != "bool":
                raise Refuse("store of a non-bool into %s" % t.attr)
            if k not in ("bool",):
                raise Refuse("store into the field %s" % t.attr)
            return "let self_%s := %s\n" % (t.attr, v.term)
        if isinstance(t, ast.Subscript) and not isinstance(t.slice, ast.Slice):
            key = self.expr(t.slice, env)
            if isinstance(t.value, ast.Name) and t.value.id in env and isinstance(env[t.value.id].kind, tuple) and env[t.value.id].kind[0] == "dict":
                d = env[t.value.id]
                env[t.value.id] = V(d.term, ("dict", v.kind))
                return "let %s := Gen18.dictSet %s %s %s\n" % (d.term, d.term, key.term, v.term)
            if isinstance(t.value, ast.Attribute) and isinstance(t.value.value, ast.Name) and t.value.value.id == "self" \
                    and isinstance(self.field_kind(t.value.attr), tuple) and self.field_kind(t.value.attr)[0] == "dict":
                self.dirty = True
                return "let self_%s := Gen18.dictSet self_%s %s %s\n" % (t.value.attr, t.value.attr, key.term, v.term)
        raise Refuse("assignment target %s" % type(t).__name__)

    # ---- method calls --------------------------------------------------------------------
    def callee(self, c, env):
        """(object variable or 'self', class, method name, config) of a method call on self / an object variable / super()"""
        f = c.func
        if not isinstance(f, ast.Attribute):
            return None
        if isinstance(f.value, ast.Name):
            if f.value.id == "self" and (self.cname, f.attr) in METHODS and not METHODS[(self.cname, f.attr)].get("external"):
                return ("self", self.cname, f.attr)
            v = env.get(f.value.id)
            if v is not None and isinstance(v.kind, str) and v.kind.startswith("obj:") and (v.kind[4:], f.attr) in METHODS:
                cfg = METHODS[(v.kind[4:], f.attr)]
                if cfg.get("mode") == "pure" and cfg.get("result") == "ret":
                    return None         # a value: handled by expr
                return (f.value.id, v.kind[4:], f.attr)
        if isinstance(f.value, ast.Call) and isinstance(f.value.func, ast.Name) and f.value.func.id == "super":
            a = f.value.args
            ok = len(a) == 2 and isinstance(a[1], ast.Name) and a[1].id == "self" and (
                (isinstance(a[0], ast.Name) and a[0].id == self.cname) or
                (isinstance(a[0], ast.Attribute) and a[0].attr == "__class__" and isinstance(a[0].value, ast.Name) and a[0].value.id == "self"))
            if (ok or not a) and self.cls["base"] == "list" and f.attr == "pop":
                return ("super", "list", "pop")
            raise Refuse("super() call other than list.pop of a list subclass")
        return None

    def is_method_call(self, n, env):
        return isinstance(n, ast.Call) and self.callee(n, env) is not None

    def method_call(self, c, env, k):
        """k(env, V of the returned value or None)"""
        var, cname, m = self.callee(c, env)
        if c.keywords and not (cname != "list" and METHODS[(cname, m)].get("generic") and self.is_star_forward(c)):
            raise Refuse("keyword arguments in a method call")
        if var == "super":
            if len(c.args) != 1:
                raise Refuse("list.pop without an index")
            env0 = dict(env)
            a = self.expr(c.args[0], env)
            if a.kind != "int":
                raise Refuse("list.pop of a non-int")
            self.dirty = True
            t = self.fresh()
            it = "self_" + self.cls["items"]
            body = "(match Gen18.listPop %s %s with\n| none => %s\n| some (%s, %s) =>\n%s)" % (
                it, a.term, self.raise_(env), t, it, k(env, V(t, "row")))
            return self.with_pending(env0, body)
        cfg = METHODS[(cname, m)]
        if cfg.get("refuse") or cfg.get("external"):
            raise Refuse("call of the untranslated method %s.%s" % (cname, m))
        env0 = dict(env)
        args = []
        for a in c.args:
            if isinstance(a, ast.Starred):
                if not self.is_star_forward(c):
                    raise Refuse("starred argument")
                args.append("args")
                break
            args.append(self.expr(a, env).term)
        if len(args) != len(cfg["params"]):
            raise Refuse("call of %s.%s with %d arguments" % (cname, m, len(args)))
        obj = self.self_term(env) if var == "self" else env[var].term
        fuel = ""
        if cfg.get("fuel"):
            if not self.fuel:
                raise Refuse("call of a fuel method from a method without fuel")
            fuel = "fuel "
        call = "Gen.%s_%s %s%s" % (cname, m, fuel, " ".join([obj] + args))
        if var == "self":
            self.dirty = True
            reopen = lambda body: self.open_obj("self", body)
        else:
            reopen = lambda body: body
        ov = "self" if var == "self" else env[var].term
        rk = {"Logbook.Row": "row", "Logbook.Text": "text", "Unit": None}.get(cfg.get("rtype"), "opaque")
        if cfg["mode"] == "pure":
            if cfg["result"] == "self":
                body = "let %s := %s\n%s" % (ov, call, reopen(k(env, None)))
            elif cfg["result"] == "ret_self":
                t = self.fresh()
                body = "(match %s with\n| (%s, %s) =>\n%s)" % (call, t, ov, reopen(k(env, V(t, rk))))
            else:
                raise Refuse("internal: value method in statement position")
        else:
            if self.mode != "res":
                raise Refuse("call of a raising method from a method rendered as pure")
            t = self.fresh()
            if var == "self":
                rz = reopen(self.raise_(env))
            else:
                rz = self.raise_other(var, env)
            body = "(match %s with\n| .nofuel => Gen18.Res.nofuel\n| .raise %s =>\n%s\n| .ok %s %s =>\n%s)" % (
                call, ov, rz, ov, t, reopen(k(env, V(t, rk) if cfg.get("rtype") != "Unit" else None)))
        return self.with_pending(env0, body)

    def raise_other(self, var, env):
        """an exception while the loop variable of a values-loop is being mutated"""
        if self.values_var != var:
            raise Refuse("mutation of an object that is neither self nor the variable of a .values() loop")
        self.raised = True
        return "Gen18.Res.raise %s" % env[var].term

    def is_star_forward(self, c):
        """f(a, b, *args, **kargs) forwarding exactly this method's own *args / **kargs"""
        st = [a for a in c.args if isinstance(a, ast.Starred)]
        return (len(st) == 1 and isinstance(c.args[-1], ast.Starred) and isinstance(st[0].value, ast.Name) and st[0].value.id == self.vararg
                and len(c.keywords) == 1 and c.keywords[0].arg is None and isinstance(c.keywords[0].value, ast.Name)
                and c.keywords[0].value.id == self.kwarg)

    # ---- if ------------------------------------------------------------------------------
    def if_(self, s, env, nxt):
        test, neg = s.test, False
        if isinstance(test, ast.UnaryOp) and isinstance(test.op, ast.Not) and self.is_isinstance_slice(test.operand, env):
            test, neg = test.operand, True
        if self.is_isinstance_slice(test, env):
            kv = test.args[0].id
            e_sl, e_ix = dict(env), dict(env)
            e_sl[kv] = V("%s_indices" % kv, "slice")
            e_ix[kv] = V("%s_int" % kv, "int")
            b_sl, b_ix = (s.orelse, s.body) if neg else (s.body, s.orelse)
            a = self.block(b_sl, e_sl, nxt)
            b = self.block(b_ix, e_ix, nxt)
            return "(match %s with\n| .slice %s_indices =>\n%s\n| .index %s_int =>\n%s)" % (env[kv].term, kv, a, kv, b)
        env0 = dict(env)
        c = self.expr(test, env)
        if c.kind != "bool":
            raise Refuse("`if` on something that is not a condition")
        a = self.block(s.body, env, nxt)
        b = self.block(s.orelse, env, nxt)
        return self.with_pending(env0, "(if %s then\n%s\nelse\n%s)" % (c.term, a, b))

    def is_isinstance_slice(self, n, env):
        return (isinstance(n, ast.Call) and isinstance(n.func, ast.Name) and n.func.id == "isinstance" and len(n.args) == 2
                and isinstance(n.args[0], ast.Name) and n.args[0].id in env and env[n.args[0].id].kind == "key"
                and isinstance(n.args[1], ast.Name) and n.args[1].id == "slice")

    # ---- for -----------------------------------------------------------------------------
    def assigned(self, body):
        """(names assigned / mutated, self mutated) by the statements of a loop body"""
        names, selfm = [], False
        for st in body:
            for n in ast.walk(st):
                if isinstance(n, ast.Name) and isinstance(n.ctx, ast.Store) and n.id not in names:
                    names.append(n.id)
                if isinstance(n, ast.Attribute) and isinstance(n.ctx, ast.Store):
                    selfm = True
                if isinstance(n, ast.Subscript) and isinstance(n.ctx, ast.Store):
                    if isinstance(n.value, ast.Name):
                        names.append(n.value.id)
                    else:
                        selfm = True
                if isinstance(n, ast.Call) and isinstance(n.func, ast.Attribute):
                    if isinstance(n.func.value, ast.Name) and n.func.value.id == "self" and not METHODS.get((self.cname, n.func.attr), {}).get("external"):
                        selfm = True
                    elif isinstance(n.func.value, ast.Name) and n.func.attr == "append":
                        names.append(n.func.value.id)
                    elif isinstance(n.func.value, ast.Attribute) and n.func.attr == "append":
                        selfm = True
                    elif isinstance(n.func.value, ast.Call) and isinstance(n.func.value.func, ast.Name) and n.func.value.func.id == "super":
                        selfm = True
        return names, selfm

    def for_(self, s, env, nxt):
        if s.orelse:
            raise Refuse("for … else")
        if self.in_loop:
            raise Refuse("nested loops")
        # for v in d.values(): v.method(...)
        it = s.iter
        if isinstance(s.target, ast.Name) and isinstance(it, ast.Call) and isinstance(it.func, ast.Attribute) and it.func.attr == "values" \
                and not it.args and all(isinstance(b, ast.Expr) and isinstance(b.value, ast.Call) and isinstance(b.value.func, ast.Attribute)
                                        and isinstance(b.value.func.value, ast.Name) and b.value.func.value.id == s.target.id for b in s.body):
            return self.for_values(s, env, nxt)
        seq = self.expr(it, env)
        if not isinstance(seq.kind, tuple):
            raise Refuse("loop over something that is not a list / dict view")
        names, selfm = self.assigned(s.body)
        loopvars = [n.id for n in ast.walk(s.target) if isinstance(n, ast.Name)]
        state = [n for n in names if n in env and n not in loopvars]
        local_leak = [n for n in names if n not in env and n not in loopvars]
        comps = (["self"] if selfm else []) + state
        if not comps:
            raise Refuse("a loop that assigns nothing")
        def tup(e):
            parts = ([self.self_term(e)] if selfm else []) + [e[n].term for n in state]
            return parts[0] if len(parts) == 1 else "(" + ", ".join(parts) + ")"
        def open_state(body, e):
            pats = (["self"] if selfm else []) + [e[n].term for n in state]
            p = pats[0] if len(pats) == 1 else "(" + ", ".join(pats) + ")"
            inner = self.open_obj("self", body) if selfm else body
            return p, inner
        env_b = self.bind_pat(s.target, seq, dict(env))
        self.in_loop, raised0, self.raised = True, self.raised, False
        saved_mode_finish = self.loop_raise
        self.loop_raise = tup
        final_env = {}
        def endk(e):
            final_env.update(e)
            return ("Gen18.Res.ok %s ()" % tup(e)) if self.mode == "res" else tup(e)
        body = self.block(s.body, env_b, endk)
        braised = self.raised
        self.in_loop, self.raised, self.loop_raise = False, raised0 or braised, saved_mode_finish
        if self.mode == "res" and not braised:
            # a body that cannot raise: re-render it as a pure fold
            self.mode_save, self.mode = self.mode, "pure"
            self.in_loop = True
            body = self.block(s.body, env_b, lambda e: tup(e))
            self.in_loop = False
            self.mode = self.mode_save
        env2 = dict(env)
        for n in state:
            env2[n] = V(env[n].term, final_env.get(n, env[n]).kind)
        for n in local_leak:
            env2.pop(n, None)
        p, _ = open_state("", env)
        lam = "(fun %s %s =>\n%s)" % (pat_of(s.target), "st", "(match st with\n| %s =>\n%s)" % (p, self.open_obj("self", body) if selfm else body))
        if selfm:
            self.dirty = True
        if self.mode == "res" and braised:
            st = "st"
            ok_p, ok_body = open_state(nxt(env2), env2)
            rz_p, rz_body = open_state(self.raise_(env2), env2)
            return "(match Gen18.forInE %s %s %s with\n| .nofuel => Gen18.Res.nofuel\n| .raise %s =>\n%s\n| .ok %s _ =>\n%s)" % (
                seq.term, tup(env), lam, rz_p, rz_body, ok_p, ok_body)
        ok_p, ok_body = open_state(nxt(env2), env2)
        return "(match Gen18.forIn %s %s %s with\n| %s =>\n%s)" % (seq.term, tup(env), lam, ok_p, ok_body)

    def for_values(self, s, env, nxt):
        d_node = s.iter.func.value
        if isinstance(d_node, ast.Name) and d_node.id == "self" and self.cls["base"] == "dict":
            dterm, dkind, rebind = "self", self.cls["selfkind"], "self"
        elif isinstance(d_node, ast.Attribute) and isinstance(d_node.value, ast.Name) and d_node.value.id == "self":
            dkind = self.field_kind(d_node.attr)
            dterm = rebind = "self_" + d_node.attr
        else:
            raise Refuse(".values() loop over something that is not self / a field of self")
        if not (isinstance(dkind, tuple) and dkind[0] == "dict" and isinstance(dkind[1], str) and dkind[1].startswith("obj:")):
            raise Refuse(".values() loop over a dict that does not hold objects")
        v = lname(s.target.id)
        env_b = dict(env)
        env_b[s.target.id] = V(v, dkind[1])
        self.in_loop, raised0, self.raised = True, self.raised, False
        self.values_var = s.target.id
        saved_raise, saved_self = self.loop_raise, None
        res_end = lambda e: "Gen18.Res.ok %s ()" % v
        body = self.block(s.body, env_b, res_end if self.mode == "res" else (lambda e: v))
        braised = self.raised
        if self.mode == "res" and not braised:
            self.mode_save, self.mode = self.mode, "pure"
            body = self.block(s.body, env_b, lambda e: v)
            self.mode = self.mode_save
        self.in_loop, self.raised, self.values_var = False, raised0 or braised, None
        self.dirty = True
        lam = "(fun %s =>\n%s)" % (v, body)
        if self.mode == "res" and braised:
            return "(match Gen18.forValuesE %s %s with\n| .nofuel => Gen18.Res.nofuel\n| .raise %s =>\n%s\n| .ok %s _ =>\n%s)" % (
                dterm, lam, rebind, self.raise_(env), rebind, nxt(env))
        return "let %s := Gen18.forValues %s %s\n%s" % (rebind, dterm, lam, nxt(env))

    # ---- the method ------------------------------------------------------------------------
    def translate(self):
        fn, cfg = self.fn, self.cfg
        a = fn.args
        if a.posonlyargs or a.kwonlyargs or a.kw_defaults:
            raise Refuse("positional-only / keyword-only parameters")
        if not a.args or a.args[0].arg != "self":
            raise Refuse("first parameter is not self")
        for d in a.defaults:
            if not isinstance(d, ast.Constant):
                raise Refuse("non-literal default")
        for dec in fn.decorator_list:
            if not (isinstance(dec, ast.Name) and dec.id == "property"):
                raise Refuse("decorator other than @property")
        self.vararg = a.vararg.arg if a.vararg else None
        self.kwarg = a.kwarg.arg if a.kwarg else None
        pys = [x.arg for x in a.args[1:]]
        env = {}
        if self.vararg and self.kwarg:
            pys.append("args")           # *args, **kargs together = the one value `args`
        elif self.vararg:
            pys.append(self.vararg)      # *names = a list
        elif self.kwarg:
            raise Refuse("**kwargs alone")
        if pys != list(cfg["params"].keys()):
            raise Refuse("parameters %s differ from the signature table %s" % (pys, list(cfg["params"].keys())))
        binders = []
        for p in pys:
            ty, kind = cfg["params"][p]
            binders.append("(%s : %s)" % (lname(p), ty))
            env[p] = V(lname(p), kind)
        self.in_loop, self.raised, self.loop_raise, self.values_var = False, False, None, None
        body = self.block(fn.body, env, lambda e: self.finish(e, None))
        body = self.open_obj("self", body)
        st = self.cls["type"]
        if self.mode == "res":
            rty = "Gen18.Res %s %s" % (st if " " not in st else "(%s)" % st, cfg.get("rtype", "Unit"))
        else:
            rty = {"self": st, "ret": cfg.get("rtype"), "ret_self": "%s × %s" % (cfg.get("rtype"), st)}[cfg["result"]]
        name = "%s_%s" % (self.cname, fn.name)
        gen = (BINDERS + " ") if cfg.get("generic") else ""
        ptys = [cfg["params"][p][0] for p in pys]
        if self.fuel == "rec":
            sig = "def %s : Nat → %s → %s\n" % (name, " → ".join([st] + ptys), rty)
            sig += "  | 0, %s => Gen18.Res.nofuel\n" % ", ".join(["_"] * (1 + len(pys)))
            sig += "  | fuel + 1, %s =>\n" % ", ".join(["self"] + [lname(p) for p in pys])
            return sig + indent(body, 4)
        fuel = "(fuel : Nat) " if self.fuel else ""
        return "def %s %s%s(self : %s) %s : %s :=\n%s" % (name, gen, fuel, st, " ".join(binders), rty, indent(body, 2))


def indent(text, k):
    return "\n".join(" " * k + l for l in text.split("\n"))


def translate_class_methods(path):
    """[(class, method, lean name, text or None, reason or None)] for every method of the three classes"""
    src = open(path).read()
    tree = ast.parse(src)
    out = []
    for node in tree.body:
        if isinstance(node, ast.ClassDef) and node.name in CLASSES:
            for sub in node.body:
                if not isinstance(sub, ast.FunctionDef) or sub.name == "__init__":
                    continue
                lean = "%s_%s" % (node.name, sub.name)
                cfg = METHODS.get((node.name, sub.name))
                if cfg is None:
                    out.append((node.name, sub.name, lean, None, "no entry in the signature table"))
                    continue
                if cfg.get("external") or cfg.get("refuse"):
                    out.append((node.name, sub.name, lean, None, cfg.get("refuse") or
                                "str.format / locale formatting / expandtabs / center / chain: outside the sub-language; calls are rendered as the model's observation"))
                    continue
                try:
                    out.append((node.name, sub.name, lean, MethodTranslator(node.name, sub).translate(), None))
                except Refuse as e:
                    out.append((node.name, sub.name, lean, None, str(e)))
    return out


if __name__ == "__main__":
    import sys
    for c, m, lean, text, why in translate_class_methods(os.path.join(sys.argv[1], "deap/tools/support.py")):
        print("-- %s.%s: %s" % (c, m, "refused: " + why if text is None else "translated"))
        if text:
            print(text + "\n")
