#!/venv/bin/python
"""import_seed.py <Cxx> [<srcdir> [<worktree> [<tag>]]] — confirm and import seeded changes written by a sub-agent.

For every <srcdir>/m*/ (default /tmp/mutout-Cxx) with patch.diff + demo.py: in the scratch worktree
(default /tmp/mut-Cxx, must be clean) confirm that (1) the demo passes on the unmodified tree,
(2) the patch applies, (3) the pinned baseline suite still passes (45 tests), (4) the demo fails with the
patch; then revert.  Confirmed changes are stored as /verif/seeded/Cxx-m<i>/ with meta.json."""
import json
import os
import re
import shutil
import subprocess
import sys

VERIF = os.path.dirname(os.path.dirname(os.path.abspath(__file__)))


def sh(cmd, cwd=None, env=None, timeout=1800):
    p = subprocess.run(cmd, cwd=cwd, env=env, stdout=subprocess.PIPE, stderr=subprocess.STDOUT, text=True,
                       timeout=timeout)
    return p.returncode, p.stdout


def main():
    pid = sys.argv[1]
    src = sys.argv[2] if len(sys.argv) > 2 else "/tmp/mutout-" + pid
    wt = sys.argv[3] if len(sys.argv) > 3 else "/tmp/mut-" + pid
    tag = sys.argv[4] if len(sys.argv) > 4 else ""          # e.g. "r2" -> seeded/Cxx-r2m1
    env = dict(os.environ, PYTHONPATH=wt)
    env.pop("DEAP_VERIF", None)
    rc, out = sh(["git", "-C", wt, "status", "--porcelain"])
    if out.strip():
        print("worktree not clean:", out)
        return 2
    ok_all = True
    for m in sorted(os.listdir(src)):
        d = os.path.join(src, m)
        patch, demo = os.path.join(d, "patch.diff"), os.path.join(d, "demo.py")
        if not (os.path.exists(patch) and os.path.exists(demo)):
            continue
        rep = {}
        rc, out = sh(["/venv/bin/python", demo], cwd=wt, env=env)
        rep["demo_clean_exit"] = rc
        rc2, out2 = sh(["git", "-C", wt, "apply", patch])
        rep["patch_applies"] = rc2 == 0
        try:
            if rc2 == 0:
                rc3, out3 = sh(["/venv/bin/python", "-m", "pytest", "-q", "-p", "no:cacheprovider", "--timeout=900",
                                "--continue-on-collection-errors", "tests"], cwd=wt, env=env)
                mm = re.search(r"(\d+) passed", out3)
                rep["tests_passed"] = int(mm.group(1)) if mm else 0
                rep["tests_failed"] = bool(re.search(r"\d+ (failed|error)", out3))
                rc4, out4 = sh(["/venv/bin/python", demo], cwd=wt, env=env)
                rep["demo_patched_exit"] = rc4
                rep["demo_patched_tail"] = out4.strip().splitlines()[-3:]
        finally:
            sh(["git", "-C", wt, "checkout", "--", "."])
        confirmed = (rep.get("demo_clean_exit") == 0 and rep.get("patch_applies") and rep.get("tests_passed") == 45
                     and not rep.get("tests_failed") and rep.get("demo_patched_exit") not in (0, None))
        print(pid, m, "CONFIRMED" if confirmed else "REJECTED", json.dumps(rep)[:400])
        if not confirmed:
            ok_all = False
            continue
        dst = os.path.join(VERIF, "seeded", "%s-%s%s" % (pid, tag, m))
        os.makedirs(dst, exist_ok=True)
        shutil.copy(patch, os.path.join(dst, "patch.diff"))
        shutil.copy(demo, os.path.join(dst, "demo.py"))
        notes = ""
        if os.path.exists(os.path.join(d, "notes.md")):
            shutil.copy(os.path.join(d, "notes.md"), os.path.join(dst, "notes.md"))
            notes = open(os.path.join(d, "notes.md")).read()
        meta = {
            "property": pid,
            "origin": "independent sub-agent given only the property text and a scratch worktree (nothing from /verif)",
            "needs": (notes.strip().split("\n\n")[0][:600] if notes else "see notes.md"),
            "confirmed": {"how": "harness/import_seed.py in a scratch worktree: demo on clean tree, git apply, pinned pytest "
                                 "suite, demo on patched tree, revert", **rep},
        }
        json.dump(meta, open(os.path.join(dst, "meta.json"), "w"), indent=1)
    return 0 if ok_all else 1


if __name__ == "__main__":
    sys.exit(main())
