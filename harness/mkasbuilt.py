#!/venv/bin/python
"""Regenerates the 'as built' table of DESIGN.md (section 13, between the ASBUILT markers) from harness/mkmanifest.py's
CHECKS table, the Lean sources and the evidence files of the last run on the unchanged tree."""
import json
import os
import re
import sys

HERE = os.path.dirname(os.path.abspath(__file__))
VERIF = os.path.dirname(HERE)
sys.path.insert(0, HERE)
import mkmanifest  # noqa: E402
import lib  # noqa: E402


def count_lines(paths):
    n = 0
    for p in paths:
        try:
            n += sum(1 for _ in open(p))
        except OSError:
            pass
    return n


rows = []
tot_thm = 0
for pid in sorted(mkmanifest.CHECKS):
    kind = mkmanifest.CHECKS[pid][0]
    mods = lib.lean_imports_closure("DeapModel.Props." + pid)
    core = [os.path.join(lib.LEAN, *m.split(".")) + ".lean" for m in mods if m.startswith("DeapModel.Core.")]
    proofs = [os.path.join(lib.LEAN, *m.split(".")) + ".lean" for m in mods
              if m.startswith("DeapModel.Lemmas.") or m == "DeapModel.Props." + pid]
    src = lib.strip_lean_comments(open(os.path.join(lib.LEAN, "DeapModel", "Props", pid + ".lean")).read())
    stmts = re.findall(r"^\s*def\s+([\w.']+_Statement)\b", src, re.M)
    proved = set(n.split(".", 1)[1] for n in lib.theorem_names(pid))
    stmts = [x for x in stmts if x[:-len("_Statement")] not in proved]      # a def …_Statement proved by theorem …
    partials = [n.split(".", 1)[1] for n in lib.theorem_names(pid) if n.endswith("_partial")]
    try:
        ev = json.load(open(os.path.join(VERIF, "evidence", pid + ".json")))
        cov = ev["coverage"]
        run = "%d/%d thm, %d cases, %d lines, %.0f s" % (cov["discharged"], cov["obligations"], cov["evaluations"],
                                                       cov.get("protocol_lines_compared", 0), ev["wall_s"])
        tot_thm += cov["obligations"]
    except (OSError, KeyError, ValueError):
        run = "no evidence yet"
    rows.append("| %s | %s | %d | %d | %s | %s | %s |" % (
        pid, kind, count_lines(core), count_lines(proofs), run,
        ", ".join(stmts) or "—", ", ".join(partials) or "—"))
table = "\n".join([
    "| prop | claim | model lines (Core, incl. shared) | proof lines (Lemmas+Props) | last quick run on the unchanged tree | unproved full statements kept as `def` | `_partial` theorems |",
    "|---|---|---|---|---|---|---|"] + rows)
p = os.path.join(VERIF, "DESIGN.md")
s = open(p).read()
a, b = "<!-- ASBUILT-BEGIN -->", "<!-- ASBUILT-END -->"
block = a + "\n" + table + "\n\nTotal property theorems audited per full run: %d.\n" % tot_thm + b
if a in s:
    s = s[:s.index(a)] + block + s[s.index(b) + len(b):]
else:
    print("markers missing in DESIGN.md")
    sys.exit(1)
open(p, "w").write(s)
print("as-built table: %d properties, %d theorems" % (len(rows), tot_thm))
