"""py2lean_c11 — translator of the imperative stack-machine sub-language of deap/gp.py (PrimitiveTree methods) to Lean 4.

Used by the C11 check as the TRANSLATOR TIE: the bodies of `PrimitiveTree.height / root / searchSubtree / __setitem__ /
__str__` and `graph` are re-read from $DEAP_REPO's CURRENT source on every run, rendered as Lean definitions
`Gen.<Class>_<method>` in the `Option` monad (`none` = the method raised) and the committed theorems
`Gen.<f> … = <hand-written model> …` (lean/DeapModel/GenEq/C11.lean.tmpl) are re-checked by the Lean kernel.

THIS DOCSTRING IS THE TRANSLATOR'S TRUSTED BASE (with lean/DeapModel/Core/GenPreludeC11.lean, namespace `Gen11`, which defines
the Python notions used below).  Everything that is not listed is REFUSED (`Refuse`), never guessed.

Values / types     Python int -> `Int`; a tree node (Primitive / Terminal / ephemeral instance) -> the model's node record
                   `GpTree.Prim` (`Gen11.Node`: name, args (arity = len), ret, kind, text); str -> `List Char`; list -> `List`;
                   tuple (a, b) -> `A × B`; a 2-element list `[i, n]` of ints used as a mutable pair -> `Int × Int`;
                   `slice(a, b)` (the value returned by searchSubtree / the key of __setitem__) -> the pair `(a, b) : Int × Int`;
                   `self` / a PrimitiveTree / `expr` -> `List Node` (a PrimitiveTree is a list subclass; numpy views are
                   outside this rendering).  An exception of any class -> `none`; every definition has type `Option R`.
Declared types     parameter and local variable types come from the table SIG in harness/props/c11_translate.py
                   (an ASSUMPTION of the tie, like the parameter table of py2lean.py); every local gets its declared type at
                   its first assignment, so that a source edit changing a value's type fails to elaborate.
Expressions
  int literal n    `(n : Int)`;  `""` -> the empty `Str`;  `[]` / `list()` -> `[]` at the declared type.
  names            parameters and locals that are assigned before use (otherwise refused).
  a + b, a - b     on ints -> Int `+` / `-`;   `[e] * n` -> `Gen11.rep [e] n` (n ≤ 0 gives `[]`);  max(a, b) -> `max a b`.
  x.arity          node x -> `Gen11.arity x` = `(x.args.length : Int)` (Primitive.__init__ gp.py:203, Terminal.arity = 0).
  len(x)           `Gen11.len x` = `(x.length : Int)`.
  x[e]             x a list: `← Gen11.index x e` (Python index: negative counts from the end once, `none` = IndexError);
                   x a tuple / mutable pair and e the literal 0 or 1: `.1` / `.2`.
  x[k:]            literal k ≥ 0, no upper bound, no step: `List.drop k x` (a copy, as list slices are).
  comparisons      one operator of < > <= >= == != on ints -> `decide (…)` (`a > b` is rendered `b < a`).
  x (as condition) a list: `!x.isEmpty`.     `a and b` -> short circuit: b is only evaluated (and can only raise) when a holds.
  p.format(*args)  `← Gen11.format p args`: a Primitive's `seq.format(*args)` = name + "(" + ", ".join(args) + ")" when
                   len(args) ≥ arity uses the first `arity` arguments (str.format ignores surplus positional arguments) and is
                   IndexError (`none`) when fewer; a Terminal's format() takes no argument (TypeError -> `none` otherwise) and
                   returns the node's `text` (= conv_fct(value), transported by the correspondence run).
  slice(a, b)      `(a, b)`;   key.start / key.stop -> `.1` / `.2`.
  isinstance(key, slice)   decided by the declared type of `key` (SIG declares it a slice: the `if` takes its first branch and
                   the `elif` / `else` branches are not rendered).
  enumerate(x)     `Gen11.enumerate x : List (Int × α)` (only as the sequence of a `for i, v in`).
  a if c else b    `if c then a else b` when no part can raise and both branches have one type.
  (a, b, c)        tuple display -> Lean tuple.     list(range(n)) -> `Gen11.range n`.     dict() -> the empty `Gen11.Dict`.
  isinstance(x, Primitive)   `Gen11.isPrimitive x` (the node record's kind; Terminal / ephemeral instances are the other kinds).
  x.name           node x: the record's `name` (a Primitive's name).     x.value (node x): the record's `text` — the value of a
                   terminal is transported as the text the model prints for it (labels are compared as text by the correspondence).
Statements         docstring; `d[k] = v` for a declared `Gen11.Dict` d -> `Gen11.dictSet d k v`; `v = e`; `v += e`, `v -= e` (ints); `a, b = x.pop()`; `v = x.pop()`; `x.pop()` (`← Gen11.pop x`:
                   last element and the rest, `none` on an empty list); `x.append(e)` -> `x ++ [e]`; `x.extend(e)` -> `x ++ e`;
                   `x[-1][1].append(e)` -> `← Gen11.modLast x (fun (p, a) => (p, a ++ [e]))` (the list inside the top frame is
                   mutated in place; `none` when x is empty); `x[-1][1] -= k` -> `← Gen11.modLast x (fun (i, n) => (i, n - k))`;
                   `list.__setitem__(self, key, val)` with key a slice -> `Gen11.setSlice self key val` (CPython's bound clipping,
                   `stop < start` inserts at `start`); `raise …` -> `none`; `return e` -> `pure e` (only as the last statement of the
                   function);
                   `if c: <block ending in raise / break>` without else -> `if c then <block> else <rest of the enclosing block>`;
                   `if c: A [else: B]` otherwise -> both branches return the variables they assign that are live before the `if`;
                   `for t in seq: body` -> `← Gen11.forM seq state (fun t state => do body; pure state)`: a left fold that stops at
                   the first exception; state = the variables the body assigns that exist before the loop (a variable first
                   assigned inside a loop is local to one iteration; using it after the loop is refused);
                   `while c: body` -> `← Gen11.whileM fuel state (fun state => c) (fun state => do body; pure (true, state))`,
                   `break` -> `pure (false, state)`.  `fuel` is the loop bound declared in SIG (a Lean term over the variables at
                   loop entry); RUNNING OUT OF FUEL IS RENDERED AS `none` — that the real loop never makes more iterations than the
                   declared bound is an assumption of the tie (searchSubtree: every iteration reads a further element of self
                   and there are at most 3·len+2 reads before IndexError; __str__ / graph: every iteration pops one frame).
In-place mutation  a method that mutates `self` (here __setitem__) returns the new contents of `self` (state passing, copy
                   semantics of list slices).
REFUSED, e.g.      try, with, nested def / lambda / class, global, keyword arguments, starred arguments other than
                   `.format(*args)`, comprehensions, chained comparisons, `or` / `not`, floats, any call, attribute or statement
                   form not listed above, `return` that is not the last statement, `continue`, `else` of a loop.
"""
import ast
import re


class Refuse(Exception):
    pass


def elem_type(t):
    if t.startswith("List "):
        r = t[5:]
        return r[1:-1] if r.startswith("(") and r.endswith(")") and balanced(r[1:-1]) else r
    raise Refuse("not a list type: %s" % t)


def balanced(s):
    d = 0
    for c in s:
        d += c == "("
        d -= c == ")"
        if d < 0:
            return False
    return d == 0


def pair_types(t):
    """'A × B' -> (A, B)"""
    d = 0
    for k, c in enumerate(t):
        d += c == "("
        d -= c == ")"
        if c == "×" and d == 0:
            a, b = t[:k].strip(), t[k + 1:].strip()
            strip = lambda s: s[1:-1] if s.startswith("(") and s.endswith(")") and balanced(s[1:-1]) else s
            return strip(a), strip(b)
    raise Refuse("not a pair type: %s" % t)


def tup(names):
    names = list(names)
    if not names:
        return "()"
    return names[0] if len(names) == 1 else "(" + ", ".join(names) + ")"


def assigned(stmts):
    """names (re)bound or mutated in place by the statements, in first-occurrence order"""
    out = []

    def add(n):
        if n not in out:
            out.append(n)

    def base(e):
        while isinstance(e, (ast.Subscript, ast.Attribute)):
            e = e.value
        return e.id if isinstance(e, ast.Name) else None

    for s in stmts:
        for n in ast.walk(s):
            if isinstance(n, (ast.Assign, ast.AugAssign)):
                for t in (n.targets if isinstance(n, ast.Assign) else [n.target]):
                    for m in ([t] if not isinstance(t, ast.Tuple) else t.elts):
                        b = base(m)
                        if b:
                            add(b)
            elif isinstance(n, ast.Call) and isinstance(n.func, ast.Attribute) and n.func.attr in ("append", "extend", "pop", "insert"):
                b = base(n.func.value)
                if b:
                    add(b)
            elif isinstance(n, ast.Call) and isinstance(n.func, ast.Attribute) and n.func.attr == "__setitem__" and n.args:
                b = base(n.args[0])
                if b:
                    add(b)
            elif isinstance(n, ast.For):
                for m in ast.walk(n.target):
                    if isinstance(m, ast.Name):
                        add(m.id)
    return out


class Fn:
    def __init__(self, name, params, locals_, result, fuels):
        self.name, self.params, self.locals, self.result, self.fuels = name, params, dict(locals_), result, list(fuels)
        self.k = 0

    def fresh(self):
        self.k += 1
        return "t%d" % self.k

    # ---------------------------------------------------------------- expressions: returns (pre lines, term, type)
    def ex(self, e, env):
        if isinstance(e, ast.Constant):
            if isinstance(e.value, bool) or e.value is None:
                raise Refuse("constant %r" % (e.value,))
            if isinstance(e.value, int):
                return [], "(%d : Int)" % e.value, "Int"
            if e.value == "":
                return [], "([] : Gen11.Str)", "Gen11.Str"
            raise Refuse("constant %r" % (e.value,))
        if isinstance(e, ast.Name):
            if e.id not in env:
                raise Refuse("name %s read before assignment / unknown" % e.id)
            return [], e.id, env[e.id]
        if isinstance(e, ast.BinOp):
            if isinstance(e.op, ast.Mult) and isinstance(e.left, ast.List) and len(e.left.elts) == 1:
                p1, a, ta = self.ex(e.left.elts[0], env)
                p2, b, tb = self.ex(e.right, env)
                if tb != "Int":
                    raise Refuse("list * non-int")
                return p1 + p2, "(Gen11.rep [%s] %s)" % (a, b), "List " + atom(ta)
            p1, a, ta = self.ex(e.left, env)
            p2, b, tb = self.ex(e.right, env)
            if ta == tb == "Int" and isinstance(e.op, (ast.Add, ast.Sub)):
                return p1 + p2, "(%s %s %s)" % (a, "+" if isinstance(e.op, ast.Add) else "-", b), "Int"
            raise Refuse("binary operator %s on %s, %s" % (type(e.op).__name__, ta, tb))
        if isinstance(e, ast.Attribute):
            p, a, ta = self.ex(e.value, env)
            if e.attr == "arity" and ta == "Gen11.Node":
                return p, "(Gen11.arity %s)" % a, "Int"
            if e.attr in ("start", "stop") and ta == "Gen11.Slice":
                return p, "%s.%d" % (a, 1 if e.attr == "start" else 2), "Int"
            if e.attr == "name" and ta == "Gen11.Node":
                return p, "%s.name" % a, "String"
            if e.attr == "value" and ta == "Gen11.Node":
                return p, "%s.text" % a, "String"
            raise Refuse("attribute .%s of %s" % (e.attr, ta))
        if isinstance(e, ast.Subscript):
            p, a, ta = self.ex(e.value, env)
            if isinstance(e.slice, ast.Slice):
                s = e.slice
                if s.upper is None and s.step is None and isinstance(s.lower, ast.Constant) and isinstance(s.lower.value, int) \
                        and not isinstance(s.lower.value, bool) and s.lower.value >= 0 and ta.startswith("List "):
                    return p, "(List.drop %d %s)" % (s.lower.value, a), ta
                raise Refuse("slice form")
            if ta.startswith("List "):
                p2, i, ti = self.ex(e.slice, env)
                if ti != "Int":
                    raise Refuse("index of type %s" % ti)
                t = self.fresh()
                return p + p2 + ["let %s ← Gen11.index %s %s" % (t, a, i)], t, elem_type(ta)
            if "×" in ta or ta == "Gen11.Slice":
                if isinstance(e.slice, ast.Constant) and e.slice.value in (0, 1) and not isinstance(e.slice.value, bool):
                    ts = pair_types("Int × Int" if ta == "Gen11.Slice" else ta)
                    return p, "%s.%d" % (a, e.slice.value + 1), ts[e.slice.value]
                raise Refuse("tuple index")
            raise Refuse("subscript of %s" % ta)
        if isinstance(e, ast.Compare):
            if len(e.ops) != 1:
                raise Refuse("chained comparison")
            p1, a, ta = self.ex(e.left, env)
            p2, b, tb = self.ex(e.comparators[0], env)
            if not (ta == tb == "Int"):
                raise Refuse("comparison of %s with %s" % (ta, tb))
            op = e.ops[0]
            form = {ast.Lt: "%s < %s", ast.LtE: "%s ≤ %s", ast.Eq: "%s = %s", ast.NotEq: "%s ≠ %s"}
            if type(op) in form:
                r = form[type(op)] % (a, b)
            elif isinstance(op, ast.Gt):
                r = "%s < %s" % (b, a)
            elif isinstance(op, ast.GtE):
                r = "%s ≤ %s" % (b, a)
            else:
                raise Refuse("comparison operator")
            return p1 + p2, "(decide (%s))" % r, "Bool"
        if isinstance(e, ast.IfExp):
            p0, c = self.cond(e.test, env)
            p1, a, ta = self.ex(e.body, env)
            p2, b, tb = self.ex(e.orelse, env)
            if p0 or p1 or p2 or ta != tb:
                raise Refuse("conditional expression with raising parts / different types")
            return [], "(if %s then %s else %s)" % (c, a, b), ta
        if isinstance(e, ast.BoolOp):
            if not isinstance(e.op, ast.And) or len(e.values) != 2:
                raise Refuse("boolean operator")
            p1, a = self.cond(e.values[0], env)
            p2, b = self.cond(e.values[1], env)
            if not p2:
                return p1, "(%s && %s)" % (a, b), "Bool"
            t = self.fresh()
            lines = ["let %s ← (if %s then (do" % (t, a)] + ["    " + l for l in p2] + ["    pure %s) else pure false)" % b]
            return p1 + lines, t, "Bool"
        if isinstance(e, ast.Tuple) and len(e.elts) >= 2:
            parts = [self.ex(x, env) for x in e.elts]
            return sum((x[0] for x in parts), []), "(%s)" % ", ".join(x[1] for x in parts), " × ".join(atom(x[2]) for x in parts)
        if isinstance(e, ast.List):
            if not e.elts:
                return [], "[]", "List ?"
            parts = [self.ex(x, env) for x in e.elts]
            if len(parts) == 2 and parts[0][2] == parts[1][2] == "Int":      # the mutable pair [i, n]
                return parts[0][0] + parts[1][0], "(%s, %s)" % (parts[0][1], parts[1][1]), "Int × Int"
            if len({x[2] for x in parts}) != 1:
                raise Refuse("heterogeneous list display")
            return sum((x[0] for x in parts), []), "[%s]" % ", ".join(x[1] for x in parts), "List " + atom(parts[0][2])
        if isinstance(e, ast.Call):
            if e.keywords:
                raise Refuse("keyword arguments")
            f = e.func
            if isinstance(f, ast.Name) and f.id not in env:
                if f.id == "len" and len(e.args) == 1:
                    p, a, ta = self.ex(e.args[0], env)
                    if not ta.startswith("List "):
                        raise Refuse("len of %s" % ta)
                    return p, "(Gen11.len %s)" % a, "Int"
                if f.id == "max" and len(e.args) == 2:
                    p1, a, ta = self.ex(e.args[0], env)
                    p2, b, tb = self.ex(e.args[1], env)
                    if not (ta == tb == "Int"):
                        raise Refuse("max of %s, %s" % (ta, tb))
                    return p1 + p2, "(max %s %s)" % (a, b), "Int"
                if f.id == "slice" and len(e.args) == 2:
                    p1, a, ta = self.ex(e.args[0], env)
                    p2, b, tb = self.ex(e.args[1], env)
                    if not (ta == tb == "Int"):
                        raise Refuse("slice of %s, %s" % (ta, tb))
                    return p1 + p2, "((%s, %s) : Gen11.Slice)" % (a, b), "Gen11.Slice"
                if f.id == "list" and not e.args:
                    return [], "[]", "List ?"
                if f.id == "dict" and not e.args:
                    return [], "([] : Gen11.Dict)", "Gen11.Dict"
                if f.id == "list" and len(e.args) == 1 and isinstance(e.args[0], ast.Call) and isinstance(e.args[0].func, ast.Name) \
                        and e.args[0].func.id == "range" and e.args[0].func.id not in env and len(e.args[0].args) == 1 and not e.args[0].keywords:
                    p, a, ta = self.ex(e.args[0].args[0], env)
                    if ta != "Int":
                        raise Refuse("range of %s" % ta)
                    return p, "(Gen11.range %s)" % a, "List Int"
                if f.id == "isinstance" and len(e.args) == 2 and isinstance(e.args[1], ast.Name) and e.args[1].id == "Primitive":
                    p, a, ta = self.ex(e.args[0], env)
                    if ta == "Gen11.Node":
                        return p, "(Gen11.isPrimitive %s)" % a, "Bool"
                    raise Refuse("isinstance(%s, Primitive)" % ta)
                if f.id == "isinstance" and len(e.args) == 2 and isinstance(e.args[1], ast.Name) and e.args[1].id == "slice":
                    p, a, ta = self.ex(e.args[0], env)
                    if ta == "Gen11.Slice" and not p:
                        return [], "true", "Bool"
                    raise Refuse("isinstance(%s, slice)" % ta)
                raise Refuse("call of %s" % f.id)
            if isinstance(f, ast.Attribute) and f.attr == "format" and len(e.args) <= 1 and \
                    (not e.args or isinstance(e.args[0], ast.Starred)):
                p, a, ta = self.ex(f.value, env)
                if ta != "Gen11.Node":
                    raise Refuse("format of %s" % ta)
                if e.args:
                    p2, b, tb = self.ex(e.args[0].value, env)
                    if tb != "List Gen11.Str":
                        raise Refuse("format(*%s)" % tb)
                else:
                    p2, b = [], "[]"
                t = self.fresh()
                return p + p2 + ["let %s ← Gen11.format %s %s" % (t, a, b)], t, "Gen11.Str"
            raise Refuse("call form")
        raise Refuse("expression %s" % type(e).__name__)

    def cond(self, e, env):
        p, a, ta = self.ex(e, env)
        if ta == "Bool":
            return p, a
        if ta.startswith("List "):
            return p, "(!(List.isEmpty %s))" % a
        raise Refuse("condition of type %s" % ta)

    def typed(self, term, ty, want):
        if ty == "List ?":
            if not want.startswith("List "):
                raise Refuse("empty list for %s" % want)
            return "([] : %s)" % want
        if ty != want:
            raise Refuse("value of type %s for a variable declared %s" % (ty, want))
        return term

    def bind_var(self, name, term, ty, env, monadic=False):
        want = self.locals.get(name) or dict(self.params).get(name)
        if want is None:
            raise Refuse("local %s has no declared type" % name)
        term = self.typed(term, ty, want)
        env[name] = want
        return "let %s : %s %s %s" % (name, want, "←" if monadic else ":=", term)

    # ---------------------------------------------------------------- statements
    def is_terminal(self, stmts):
        return bool(stmts) and isinstance(stmts[-1], (ast.Raise, ast.Break))

    def block(self, stmts, env, tail, in_loop_state=None, top=False):
        """lines of a do block; `tail` = the final line(s) when the block falls off its end"""
        out = []
        for k, s in enumerate(stmts):
            rest = stmts[k + 1:]
            if isinstance(s, ast.Expr) and isinstance(s.value, ast.Constant) and isinstance(s.value.value, str):
                continue
            if isinstance(s, ast.Raise):
                if rest:
                    raise Refuse("statements after raise")
                return out + ["none"]
            if isinstance(s, ast.Break):
                if rest or in_loop_state is None:
                    raise Refuse("break position")
                return out + ["pure (false, %s)" % tup(in_loop_state)]
            if isinstance(s, ast.Return):
                if rest or not top or s.value is None:
                    raise Refuse("return position")
                p, a, ta = self.ex(s.value, env)
                if ta != self.result and not (self.result == "Gen11.Slice" and ta == "Int × Int"):
                    raise Refuse("returns %s, declared %s" % (ta, self.result))
                return out + p + ["pure %s" % a]
            if isinstance(s, ast.If):
                p, c = self.cond(s.test, env)
                if c == "true" and not p:                              # isinstance decided by the declared type
                    return out + self.block(list(s.body) + list(rest), env, tail, in_loop_state, top)
                if self.is_terminal(s.body) and not s.orelse:
                    body = self.block(s.body, dict(env), None, in_loop_state, False)
                    cont = self.block(rest, env, tail, in_loop_state, top)
                    return out + p + ["if %s then (do" % c] + ["    " + l for l in body] + ["  ) else (do"] + \
                        ["    " + l for l in cont] + ["  )"]
                vs = [v for v in assigned(list(s.body) + list(s.orelse)) if v in env]
                e1, e2 = dict(env), dict(env)
                b1 = self.block(s.body, e1, ["pure %s" % tup(vs)], in_loop_state, False)
                b2 = self.block(s.orelse, e2, ["pure %s" % tup(vs)], in_loop_state, False)
                out += p + ["let %s ← (if %s then (do" % (tup(vs), c)] + ["    " + l for l in b1] + ["  ) else (do"] + \
                    ["    " + l for l in b2] + ["  ))"]
                continue
            if isinstance(s, ast.For):
                if s.orelse:
                    raise Refuse("for-else")
                seq = s.iter
                if isinstance(seq, ast.Call) and isinstance(seq.func, ast.Name) and seq.func.id == "enumerate" \
                        and len(seq.args) == 1 and not seq.keywords and isinstance(s.target, ast.Tuple) and len(s.target.elts) == 2 \
                        and all(isinstance(x, ast.Name) for x in s.target.elts):
                    p, a, ta = self.ex(seq.args[0], env)
                    pat, tys = "(%s, %s)" % (s.target.elts[0].id, s.target.elts[1].id), \
                        {s.target.elts[0].id: "Int", s.target.elts[1].id: elem_type(ta)}
                    a = "(Gen11.enumerate %s)" % a
                elif isinstance(s.target, ast.Name):
                    p, a, ta = self.ex(seq, env)
                    pat, tys = s.target.id, {s.target.id: elem_type(ta)}
                    a = atom(a)
                else:
                    raise Refuse("for target")
                for n in tys:
                    if n in env:
                        raise Refuse("loop variable %s re-uses a name" % n)
                vs = [v for v in assigned(s.body) if v in env]
                inner = dict(env)
                inner.update(tys)
                body = self.block(s.body, inner, ["pure %s" % tup(vs)], None, False)
                out += p + ["let %s ← Gen11.forM %s %s (fun %s %s => do" % (tup(vs), a, tup(vs), pat, tup(vs))] + \
                    ["    " + l for l in body] + ["  )"]
                continue
            if isinstance(s, ast.While):
                if s.orelse:
                    raise Refuse("while-else")
                if not self.fuels:
                    raise Refuse("while loop without a declared bound")
                fuel = self.fuels.pop(0)
                vs = [v for v in assigned(s.body) if v in env]
                ce = dict(env)
                p, c = self.cond(s.test, ce)
                body = self.block(s.body, dict(env), ["pure (true, %s)" % tup(vs)], vs, False)
                out += ["let %s ← Gen11.whileM (%s) %s (fun %s => do" % (tup(vs), fuel, tup(vs), tup(vs))] + \
                    ["    " + l for l in p] + ["    pure %s" % c, "  ) (fun %s => do" % tup(vs)] + ["    " + l for l in body] + ["  )"]
                continue
            if isinstance(s, ast.Assign):
                if len(s.targets) != 1:
                    raise Refuse("multiple assignment")
                t = s.targets[0]
                v = s.value
                ispop = isinstance(v, ast.Call) and isinstance(v.func, ast.Attribute) and v.func.attr == "pop" and not v.args \
                    and not v.keywords and isinstance(v.func.value, ast.Name)
                if ispop:
                    x = v.func.value.id
                    if x not in env or not env[x].startswith("List "):
                        raise Refuse("pop of %s" % x)
                    et = elem_type(env[x])
                    if isinstance(t, ast.Tuple) and len(t.elts) == 2 and all(isinstance(m, ast.Name) for m in t.elts):
                        ta, tb = pair_types(et)
                        a, b = t.elts[0].id, t.elts[1].id
                        for n, ty in ((a, ta), (b, tb)):
                            if self.locals.get(n) != ty:
                                raise Refuse("local %s: declared %s, gets %s" % (n, self.locals.get(n), ty))
                            env[n] = ty
                        out.append("let ((%s, %s), %s) ← Gen11.pop %s" % (a, b, x, x))
                    elif isinstance(t, ast.Name):
                        if self.locals.get(t.id) != et:
                            raise Refuse("local %s: declared %s, gets %s" % (t.id, self.locals.get(t.id), et))
                        env[t.id] = et
                        out.append("let (%s, %s) ← Gen11.pop %s" % (t.id, x, x))
                    else:
                        raise Refuse("pop target")
                    continue
                if isinstance(t, ast.Subscript) and isinstance(t.value, ast.Name) and env.get(t.value.id) == "Gen11.Dict" \
                        and not isinstance(t.slice, ast.Slice):
                    p1, k, tk = self.ex(t.slice, env)
                    p2, a, ta = self.ex(v, env)
                    if tk != "Int" or ta != "String":
                        raise Refuse("dict item of types %s: %s" % (tk, ta))
                    out += p1 + p2 + ["let %s : Gen11.Dict := Gen11.dictSet %s %s %s" % (t.value.id, t.value.id, k, a)]
                    continue
                if not isinstance(t, ast.Name):
                    raise Refuse("assignment target %s" % type(t).__name__)
                p, a, ta = self.ex(v, env)
                out += p + [self.bind_var(t.id, a, ta, env)]
                continue
            if isinstance(s, ast.AugAssign):
                if not isinstance(s.op, (ast.Add, ast.Sub)):
                    raise Refuse("augmented operator")
                sym = "+" if isinstance(s.op, ast.Add) else "-"
                if isinstance(s.target, ast.Name):
                    if env.get(s.target.id) != "Int":
                        raise Refuse("augmented assignment to %s" % env.get(s.target.id))
                    p, a, ta = self.ex(s.value, env)
                    if ta != "Int":
                        raise Refuse("augmented assignment of %s" % ta)
                    out += p + ["let %s : Int := (%s %s %s)" % (s.target.id, s.target.id, sym, a)]
                    continue
                x = self.top_field(s.target, env)
                if x and pair_types(elem_type(env[x]))[1] == "Int":
                    p, a, ta = self.ex(s.value, env)
                    if ta != "Int":
                        raise Refuse("augmented assignment of %s" % ta)
                    out += p + ["let %s ← Gen11.modLast %s (fun (i, n) => (i, (n %s %s)))" % (x, x, sym, a)]
                    continue
                raise Refuse("augmented assignment target")
            if isinstance(s, ast.Expr) and isinstance(s.value, ast.Call) and isinstance(s.value.func, ast.Attribute) \
                    and not s.value.keywords:
                c = s.value
                m, obj = c.func.attr, c.func.value
                if isinstance(obj, ast.Name) and obj.id in env and env[obj.id].startswith("List "):
                    x, tx = obj.id, env[obj.id]
                    if m == "append" and len(c.args) == 1:
                        p, a, ta = self.ex(c.args[0], env)
                        if "List ?" in ta:                 # an empty list inside the display: Lean checks it at the declared type
                            a, ta = "(%s : %s)" % (a, elem_type(tx)), elem_type(tx)
                        if ta != elem_type(tx):
                            raise Refuse("append of %s to %s" % (ta, tx))
                        out += p + ["let %s : %s := %s ++ [%s]" % (x, tx, x, a)]
                        continue
                    if m == "extend" and len(c.args) == 1:
                        p, a, ta = self.ex(c.args[0], env)
                        if ta != tx:
                            raise Refuse("extend of %s by %s" % (tx, ta))
                        out += p + ["let %s : %s := %s ++ %s" % (x, tx, x, a)]
                        continue
                    if m == "pop" and not c.args:
                        out.append("let (_, %s) ← Gen11.pop %s" % (x, x))
                        continue
                if m == "append" and len(c.args) == 1:
                    x = self.top_field(obj, env)
                    if x:
                        tb = pair_types(elem_type(env[x]))[1]
                        p, a, ta = self.ex(c.args[0], env)
                        if not tb.startswith("List ") or ta != elem_type(tb):
                            raise Refuse("append of %s to %s" % (ta, tb))
                        out += p + ["let %s ← Gen11.modLast %s (fun (p, a) => (p, a ++ [%s]))" % (x, x, a)]
                        continue
                if m == "__setitem__" and isinstance(obj, ast.Name) and obj.id == "list" and len(c.args) == 3 \
                        and all(isinstance(a, ast.Name) for a in c.args):
                    x, k, v = (a.id for a in c.args)
                    if env.get(x, "").startswith("List ") and env.get(k) == "Gen11.Slice" and env.get(v) == env.get(x):
                        out.append("let %s : %s := Gen11.setSlice %s %s %s" % (x, env[x], x, k, v))
                        continue
                raise Refuse("call statement .%s" % m)
            raise Refuse("statement %s" % type(s).__name__)
        if tail is None:
            raise Refuse("block falls off its end where it must raise / break")
        return out + list(tail)

    def top_field(self, e, env):
        """`x[-1][1]` for a list x of pairs -> x"""
        if isinstance(e, ast.Subscript) and isinstance(e.slice, ast.Constant) and e.slice.value == 1 \
                and isinstance(e.value, ast.Subscript) and isinstance(e.value.value, ast.Name):
            i = e.value.slice
            if isinstance(i, ast.UnaryOp) and isinstance(i.op, ast.USub) and isinstance(i.operand, ast.Constant) and i.operand.value == 1:
                x = e.value.value.id
                if x in env and env[x].startswith("List ") and "×" in env[x]:
                    return x
        return None


def atom(s):
    return s if (" " not in s or (s.startswith("(") and s.endswith(")") and balanced(s[1:-1]))) else "(%s)" % s


def ex_const_neg(e):
    return isinstance(e, ast.UnaryOp) and isinstance(e.op, ast.USub) and isinstance(e.operand, ast.Constant)


_orig_ex = Fn.ex


def _ex(self, e, env):
    if ex_const_neg(e) and isinstance(e.operand.value, int) and not isinstance(e.operand.value, bool):
        return [], "(-%d : Int)" % e.operand.value, "Int"
    return _orig_ex(self, e, env)


Fn.ex = _ex


LEAN_KEYWORDS = {"end", "at", "from", "have", "show", "fun", "let", "do", "then", "match", "with", "open", "in", "by", "def",
                 "theorem", "namespace", "section", "variable", "instance", "structure", "where", "if", "else", "Type", "Prop"}


def translate_function(fdef, lean_name, params, locals_, result, fuels, returns_self=False):
    """fdef: ast.FunctionDef.  params: [(python name, Lean type)] in order.  -> Lean text of `def Gen.<lean_name>`."""
    a = fdef.args
    if a.vararg or a.kwarg or a.kwonlyargs or a.defaults or a.posonlyargs:
        raise Refuse("parameter list form")
    names = [x.arg for x in a.args]
    if names != [p for p, _ in params]:
        raise Refuse("parameters are %s, the signature table declares %s" % (names, [p for p, _ in params]))
    for d in fdef.decorator_list:
        if not (isinstance(d, ast.Name) and d.id == "property"):
            raise Refuse("decorator")
    for n in ast.walk(fdef):                       # a Python name that is a Lean keyword gets a trailing underscore
        if isinstance(n, ast.Name) and n.id in LEAN_KEYWORDS:
            n.id += "_"
    locals_ = {(k + "_" if k in LEAN_KEYWORDS else k): v for k, v in dict(locals_).items()}
    fn = Fn(lean_name, params, locals_, result, fuels)
    env = dict(params)
    tail = ["pure self"] if returns_self else None
    body = fn.block(fdef.body, env, tail, None, True)
    if fn.fuels:
        raise Refuse("declared loop bounds left over")
    head = "def %s %s : Option %s := do" % (lean_name, " ".join("(%s : %s)" % (p, t) for p, t in params), atom(result))
    return "\n".join([head] + ["  " + l for l in body])
