"""py2lean_c07 — translator from a small IMPERATIVE Python sub-language to Lean 4 definitions (C07 translator tie).

The bodies of `_partition`, `_randomizedPartition`, `_randomizedSelect`, `gen_refs_recursive` (nested in
`uniform_reference_points`) and of marked statement ranges of `selSPEA2` (deap/tools/emo.py) are re-read from
$DEAP_REPO's current source on every run, rendered as Lean definitions `Gen.<f>` and the committed theorems of
lean/DeapModel/GenEq/C07.lean.tmpl (`Gen.<f>` agrees with the hand-written model of Core/Spea2.lean / Core/Nsga3.lean)
are re-checked by the Lean kernel.  harness/py2lean.py (C20) renders a FUNCTIONAL sub-language and refuses `while`,
mutation, recursion and randomness; this module renders exactly those, in state-passing style.

THIS DOCSTRING IS THE TRANSLATOR'S TRUSTED BASE: the sub-language and the rendering rules.  Everything that is not
listed is REFUSED (`Refuse`), never guessed.  The Lean helpers the rendering uses are
lean/DeapModel/Core/GenPreludeC07.lean (namespace G7, import-free).

Value types      int -> Int.   float -> an abstract scalar `α` with `<` (decidable), `+ - * /`; the embedding of the
                 ints `ofInt : Int → α` and the true division of two ints `divI : Int → Int → α` are PARAMETERS of every
                 generated definition (the theorems instantiate them; float rounding is not rendered — the models are
                 over exact scalars, the differential correspondence covers the floats).
                 list / numpy 1-d array used through `x[i]`, `x[i] = v`, `len`, `.copy()` only -> List (VALUE semantics).
                 An individual -> its position (Int) in `individuals`; `individuals` -> the list of positions.
                 A raised exception (IndexError, ZeroDivisionError of an int divisor, ValueError of randint on an empty
                 range), an exhausted tape and an exhausted loop / recursion FUEL -> `none`: every definition has result
                 type `Option R`.
Parameter types  and the types of locals initialised with `[]` come from the caller-supplied tables (an assumption
                 of the tie, like the ASSUMPTIONS of the check).
Result           a function that assigns into a list parameter (`p[i] = v`, or passes `p` to such a function) returns the
                 NEW CONTENTS of every such parameter (state-passing): result = (mutated parameters in order, the rest of
                 the tape if the function draws, the returned value) as a right-nested tuple.  Copy semantics of list
                 values; numpy VIEWS (slices that alias) are outside the rendering — refused; the Buffer model and
                 the correspondence cover them.
Randomness       `random.randint(a, b)` reads the next raw draw `d` of the explicit `tape : List Nat` and yields
                 `a + d mod (b - a + 1)` (`G7.randint`, the interface of `Spea2.randomizedPartition`); a function that
                 draws (directly or through a callee) takes `tape` as its last parameter and returns the rest.
                 Every other `random.*` call is refused.
Expressions      int literal; float literal with an integral value n.0 -> `ofInt n` (others refused); names;
                 + - * on ints (Int) and on floats (α), int coerced by `ofInt` when it meets a float; unary minus on ints;
                 int / int -> `divI a b` guarded: b = 0 -> none; float / float -> `/` (float ZeroDivisionError NOT
                 rendered); comparisons, one operator: < > on ints and floats (`a > b` is `b < a`), <= >= == != on ints only;
                 `and` / `or` / `not` / `True` with Python's short-circuit order (an operand that can raise is only
                 evaluated when Python evaluates it); `x[i]` -> `G7.index` (negative index counts from the end, IndexError
                 = none); `x[i][j]`; `len(x)`; `range(a)` / `range(a, b)`; `reversed(l)`; `sorted(l)` of ints
                 (`G7.sortedI`); `sorted(l, reverse=True)` of ints (= the reversed ascending sort: equal ints are indistinguishable); `x.copy()` -> the value x; `[]` (typed by the table); `[c] * n` -> List.replicate;
                 `enumerate(l)` / `enumerate(l, k)`; `l[k:]` (a copy); `a.fitness.dominates(b.fitness)` for positions
                 a, b -> `dom a b = true` with `dom : Int → Int → Bool` a parameter of the definition;
                 a call of a translated function of the module (or of the enclosing recursive nested def): its result
                 tuple is bound, every mutated argument that is a variable is re-bound to its new contents, a mutated
                 argument that is a fresh copy (`x.copy()`) is dropped; a list argument that the callee STORES (appends
                 to a list it returns) must be a fresh copy, else refused (aliasing is not rendered).
Statements       docstring; `v = e`; `x[i] = e`, `x[i][j] = e` (RHS first, then the index, IndexError = none);
                 `a[i], a[j] = a[j], a[i]` and every tuple assignment: all right-hand sides first, then the targets left to
                 right; `v op= e`, `x[i] op= e` (+ - *); `l.append(e)`, `l.extend(e)`; `del l[i]`; `return e`;
                 `if / elif / else` (the rest of the block is duplicated into both branches);
                 `while c:` without break/return inside -> `G7.whileO fuel cond body state`;
                 `while True:` whose only exits are `return`s -> `G7.loopO fuel body state`;
                 `for v in seq:` -> `G7.forO` (no break) / `G7.forB` (with `break`; `continue` = end of the body);
                 the STATE of a loop is the tuple of the variables its body assigns that exist before the loop; a
                 variable first assigned inside a loop body is local to one round (its use after the loop is refused).
                 FUEL: the bound of every `while` is taken from the caller-supplied table (Lean term over the variables
                 in scope, e.g. `len(array) + 1`): an assumption of the tie — "the loop runs at most that often"; the
                 hand-written model states the same bound.  A recursive function gets a leading parameter `fuel : Nat`,
                 every recursive call passes `fuel - 1`, `fuel = 0` is `none`.
Segments         `segment(fn, pick, reads, writes)`: consecutive statements of one block of a large function (selected by a
                 structural predicate, e.g. "the one `for` statement of selSPEA2 whose body is a `del`"; not found or
                 ambiguous = refused) rendered as a definition from the variables they read (typed by the table) to the
                 tuple of the variables they write.  How the segments compose is NOT rendered.
REFUSED, e.g.    try, with, classes, global/nonlocal, *args/**kwargs, keyword arguments, attribute access other than the
                 ones listed, strings / None, `is`, `in`, chained comparisons, comprehensions, slices other than `l[k:]`,
                 numpy calls, break outside `for`, return inside `for`, a loop variable used after its loop, float `<=`,
                 non-integral float literals, any call not listed.
"""
import ast

from py2lean import Refuse

I = ("I",)
F = ("F",)
TAPE = ("TAPE",)


def L(t):
    return ("L", t)


def P(a, b):
    return ("P", a, b)


def lean_type(t):
    if t == I:
        return "Int"
    if t == F:
        return "α"
    if t == TAPE:
        return "List Nat"
    if t[0] == "L":
        return "List %s" % atom(t[1])
    if t[0] == "P":
        return "%s × %s" % (atom(t[1]), atom(t[2]))
    raise Refuse("no Lean type for %r" % (t,))


def atom(t):
    s = lean_type(t)
    return s if " " not in s else "(%s)" % s


def tuple_type(ts):
    return " × ".join(atom(t) for t in ts)


class Val:
    def __init__(self, term, ty):
        self.term, self.ty = term, ty


LEAKED = ("LEAKED",)
PRELUDE_ARGS = "ofInt divI dom"
BINDERS = ("{α : Type} [LT α] [DecidableLT α] [Add α] [Sub α] [Mul α] [Div α] "
           "(ofInt : Int → α) (divI : Int → Int → α) (dom : Int → Int → Bool)")


class FunInfo:
    """what a caller needs to know about a translated function"""
    def __init__(self, lean, params, ptypes, mutated, draws, recursive, ret_ty, stores):
        self.lean, self.params, self.ptypes, self.mutated = lean, params, ptypes, mutated
        self.draws, self.recursive, self.ret_ty, self.stores = draws, recursive, ret_ty, stores


class Ctx:
    def __init__(self, ret, fall, brk=None):
        self.ret, self.fall, self.brk = ret, fall, brk


def assigned_names(stmts):
    """names a statement list (re)binds: assignment targets, subscript-assigned / appended lists, mutated call args are
    added by the caller"""
    out = []

    def add(n):
        if n not in out:
            out.append(n)

    def target(t):
        if isinstance(t, ast.Name):
            add(t.id)
        elif isinstance(t, ast.Subscript):
            b = t.value
            while isinstance(b, ast.Subscript):
                b = b.value
            if not isinstance(b, ast.Name):
                raise Refuse("assignment into %s" % type(b).__name__)
            add(b.id)
        elif isinstance(t, ast.Tuple):
            for x in t.elts:
                target(x)
        else:
            raise Refuse("assignment target %s" % type(t).__name__)
    for st in stmts:
        for node in ast.walk(st):
            if isinstance(node, ast.Assign):
                for t in node.targets:
                    target(t)
            elif isinstance(node, ast.AugAssign):
                target(node.target)
            elif isinstance(node, ast.Delete):
                for t in node.targets:
                    target(t)
            elif isinstance(node, ast.For):
                target(node.target)
            elif isinstance(node, ast.Call) and isinstance(node.func, ast.Attribute) \
                    and node.func.attr in ("append", "extend"):
                target(ast.Subscript(value=node.func.value, slice=None) if isinstance(node.func.value, ast.Subscript)
                       else node.func.value)
    return out


class Translator:
    def __init__(self, module_src, fuel, local_types):
        self.src = module_src
        self.tree = ast.parse(module_src)
        self.funcs = {n.name: n for n in self.tree.body if isinstance(n, ast.FunctionDef)}
        self.fuel, self.local_types = fuel, local_types
        self.info = {}          # python name -> FunInfo of the functions translated so far
        self.counter = 0

    # ---------------------------------------------------------------------------------------
    def fresh(self, base="t"):
        self.counter += 1
        return "%s%d" % (base, self.counter)

    def find(self, name, inside=None):
        if inside is None:
            fn = self.funcs.get(name)
        else:
            outer = self.funcs.get(inside)
            fn = None
            if outer is not None:
                for n in outer.body:
                    if isinstance(n, ast.FunctionDef) and n.name == name:
                        fn = n
        if fn is None:
            raise Refuse("no function %s%s" % (name, " inside %s" % inside if inside else ""))
        return fn

    # -- analysis ---------------------------------------------------------------------------
    def analyse(self, fn, params):
        """(mutated params, draws, recursive, stored params) by a syntactic scan of the body"""
        mutated, stores = [], []
        draws = recursive = False
        names = assigned_names(fn.body)
        for node in ast.walk(fn):
            if isinstance(node, ast.Call):
                f = node.func
                if isinstance(f, ast.Attribute) and isinstance(f.value, ast.Name) and f.value.id == "random":
                    draws = True
                if isinstance(f, ast.Name) and f.id == fn.name:
                    recursive = True
                if isinstance(f, ast.Name) and f.id in self.info:
                    ci = self.info[f.id]
                    draws = draws or ci.draws
                    for p, a in zip(ci.params, node.args):
                        if p in ci.mutated and isinstance(a, ast.Name) and a.id in params and a.id not in mutated:
                            mutated.append(a.id)
                if isinstance(f, ast.Attribute) and f.attr in ("append", "extend"):
                    for a in node.args:
                        if isinstance(a, ast.Name) and a.id in params and a.id not in stores:
                            stores.append(a.id)
        for p in params:
            # a parameter that is only re-bound (`v = e`) is not mutated; one that is subscript-assigned is
            for node in ast.walk(fn):
                tg = []
                if isinstance(node, ast.Assign):
                    tg = node.targets
                elif isinstance(node, ast.AugAssign):
                    tg = [node.target]
                elif isinstance(node, ast.Delete):
                    tg = node.targets
                for t in tg:
                    for x in ([t] if not isinstance(t, ast.Tuple) else t.elts):
                        b = x
                        sub = False
                        while isinstance(b, ast.Subscript):
                            b, sub = b.value, True
                        if sub and isinstance(b, ast.Name) and b.id == p and p not in mutated:
                            mutated.append(p)
        mutated = [p for p in params if p in mutated]
        return mutated, draws, recursive, stores

    # -- entry points -----------------------------------------------------------------------
    def function(self, pyname, lean, sig, inside=None):
        fn = self.find(pyname, inside)
        if fn.decorator_list or fn.args.vararg or fn.args.kwarg or fn.args.kwonlyargs or fn.args.defaults:
            raise Refuse("decorators / *args / defaults")
        params = [a.arg for a in fn.args.args]
        for p in params:
            if p not in sig:
                raise Refuse("no declared type for parameter %s" % p)
        mutated, draws, recursive, stores = self.analyse(fn, params)
        self.cur = FunInfo(lean, params, [sig[p] for p in params], mutated, draws, recursive, sig.get("return"), stores)
        self.cur_py, self.loop_no = pyname, 0
        env = {p: sig[p] for p in params}
        if draws:
            env["%tape"] = TAPE

        def ret(v, env_):
            if self.cur.ret_ty is None:
                self.cur.ret_ty = v.ty
            elif self.cur.ret_ty != v.ty:
                raise Refuse("returns of different types")
            return "some (%s)" % ", ".join(["v_" + m for m in mutated] + (["tape"] if draws else []) + [v.term])

        def fall(env_):
            raise Refuse("a path reaches the end of the function without `return`")
        body = self.block(list(fn.body), env, Ctx(ret, fall))
        rty = tuple_type([sig[m] for m in mutated] + ([TAPE] if draws else []) + [self.cur.ret_ty])
        binders = " ".join("(v_%s : %s)" % (p, lean_type(sig[p])) for p in params) + (" (tape : List Nat)" if draws else "")
        self.info[pyname] = self.cur
        if recursive:
            lam = " ".join("v_" + p for p in params) + (" tape" if draws else "")
            tys = " → ".join([atom(sig[p]) for p in params] + (["List Nat"] if draws else []))
            return ("def %s %s : Nat → %s → Option (%s)\n  | 0, %s => none\n  | fuel + 1, %s =>\n  %s"
                    % (lean, BINDERS, tys, rty, ", ".join("_" for _ in lam.split()), ", ".join(lam.split()), body))
        return "def %s %s %s : Option (%s) :=\n  %s" % (lean, BINDERS, binders, rty, body)

    def segment(self, pyname, lean, pick, reads, writes):
        """the consecutive statements `pick(fn) -> [stmts]` of function `pyname` as a definition from the variables
        `reads` ({name: type}) to the tuple of the variables `writes` ([names])"""
        fn = self.find(pyname)
        stmts = list(pick(fn))
        if not stmts:
            raise Refuse("segment %s not found in %s" % (lean, pyname))
        self.cur = FunInfo(lean, list(reads), list(reads.values()), [], False, False, None, [])
        self.cur_py, self.loop_no = lean, 0
        env = dict(reads)

        def ret(v, env_):
            raise Refuse("return inside a segment")

        def fall(env_):
            for w in writes:
                if w not in env_ or env_[w] == LEAKED:
                    raise Refuse("segment does not define %s" % w)
            self.seg_ty = [env_[w] for w in writes]
            return "some (%s)" % ", ".join("v_" + w for w in writes)
        body = self.block(stmts, env, Ctx(ret, fall))
        binders = " ".join("(v_%s : %s)" % (p, lean_type(t)) for p, t in reads.items())
        return "def %s %s %s : Option (%s) :=\n  %s" % (lean, BINDERS, binders, tuple_type(self.seg_ty), body), \
            (stmts[0].lineno, stmts[-1].end_lineno)

    # -- state tuples -----------------------------------------------------------------------
    def pack(self, names):
        return "(%s)" % ", ".join("v_" + n if n != "%tape" else "tape" for n in names) if names else "()"

    def unpack(self, names, s):
        if not names:
            return ""
        if len(names) == 1:
            return "let %s := %s; " % (self.ln(names[0]), s)
        out = []
        for k, n in enumerate(names):
            proj = s + ".2" * k + (".1" if k < len(names) - 1 else "")
            out.append("let %s := %s; " % (self.ln(n), proj))
        return "".join(out)

    def ln(self, n):
        return "tape" if n == "%tape" else "v_" + n

    def state_type(self, names, env):
        return tuple_type([env[n] for n in names]) if names else "Unit"

    def loop_state(self, body, env, extra=()):
        names = assigned_names(body)
        # arguments re-bound by calls of mutating functions, and the tape
        for node in ast.walk(ast.Module(body=body, type_ignores=[])):
            if isinstance(node, ast.Call) and isinstance(node.func, ast.Name):
                ci = self.info.get(node.func.id) or (self.cur if node.func.id == self.cur_py else None)
                if ci is not None:
                    for p, a in zip(ci.params, node.args):
                        if p in ci.mutated and isinstance(a, ast.Name) and a.id not in names:
                            names.append(a.id)
                    if ci.draws and "%tape" not in names:
                        names.append("%tape")
            if isinstance(node, ast.Call) and isinstance(node.func, ast.Attribute) and isinstance(node.func.value, ast.Name) \
                    and node.func.value.id == "random" and "%tape" not in names:
                names.append("%tape")
        state = [n for n in names if n in env and env[n] != LEAKED and n not in extra]
        local = [n for n in names if n not in state and n not in extra]
        return state, local

    # -- statements -------------------------------------------------------------------------
    def block(self, stmts, env, ctx):
        if not stmts:
            return ctx.fall(env)
        st, rest = stmts[0], stmts[1:]
        if isinstance(st, ast.Expr) and isinstance(st.value, ast.Constant) and isinstance(st.value.value, str):
            return self.block(rest, env, ctx)
        if isinstance(st, ast.Return):
            if st.value is None:
                raise Refuse("bare return")
            return self.expr(st.value, env, lambda v: ctx.ret(v, env))
        if isinstance(st, (ast.Continue, ast.Pass)):
            if isinstance(st, ast.Pass):
                return self.block(rest, env, ctx)
            if ctx.brk is None:
                raise Refuse("continue outside for")
            return ctx.fall(env)
        if isinstance(st, ast.Break):
            if ctx.brk is None:
                raise Refuse("break outside for")
            return ctx.brk(env)
        if isinstance(st, ast.If):
            return self.cond(st.test, env, lambda: self.block(list(st.body) + rest, dict(env), ctx),
                             lambda: self.block(list(st.orelse) + rest, dict(env), ctx))
        if isinstance(st, ast.Assign):
            if len(st.targets) != 1:
                raise Refuse("chained assignment")
            t = st.targets[0]
            if isinstance(t, ast.Tuple):
                if not isinstance(st.value, ast.Tuple) or len(st.value.elts) != len(t.elts):
                    raise Refuse("tuple assignment from a non-tuple")
                return self.eval_list(list(st.value.elts), env, lambda vs: self.store_all(list(t.elts), vs, env,
                                                                                          lambda e2: self.block(rest, e2, ctx)))
            return self.expr(st.value, env, lambda v: self.store(t, v, env, lambda e2: self.block(rest, e2, ctx)),
                             hint=t.id if isinstance(t, ast.Name) else None)
        if isinstance(st, ast.AugAssign):
            if not isinstance(st.op, (ast.Add, ast.Sub, ast.Mult)):
                raise Refuse("augmented operator")
            load = ast.copy_location(ast.Name(id=st.target.id, ctx=ast.Load()), st) if isinstance(st.target, ast.Name) \
                else ast.copy_location(ast.Subscript(value=st.target.value, slice=st.target.slice, ctx=ast.Load()), st)
            fake = ast.copy_location(ast.BinOp(left=load, op=st.op, right=st.value), st)
            return self.expr(fake, env, lambda v: self.store(st.target, v, env, lambda e2: self.block(rest, e2, ctx)))
        if isinstance(st, ast.Delete):
            if len(st.targets) != 1 or not isinstance(st.targets[0], ast.Subscript) \
                    or not isinstance(st.targets[0].value, ast.Name) or isinstance(st.targets[0].slice, ast.Slice):
                raise Refuse("del of something else than l[i]")
            name = st.targets[0].value.id
            lt = self.var(name, env)
            return self.expr(st.targets[0].slice, env, lambda i: self.need(i, I) and
                             "Option.bind (G7.delIdx v_%s %s) fun v_%s =>\n  %s" % (name, i.term, name, self.block(rest, env, ctx)))
        if isinstance(st, ast.Expr) and isinstance(st.value, ast.Call) and isinstance(st.value.func, ast.Attribute) \
                and st.value.func.attr in ("append", "extend") and len(st.value.args) == 1 and not st.value.keywords:
            recv = st.value.func.value
            arg = st.value.args[0]
            ext = st.value.func.attr == "extend"

            def k(v):
                def k2(cur):
                    if cur.ty[0] != "L" or (v.ty != cur.ty if ext else v.ty != cur.ty[1]):
                        raise Refuse("%s of %r to %r" % (st.value.func.attr, v.ty, cur.ty))
                    new = Val("(%s ++ %s)" % (cur.term, v.term if ext else "[%s]" % v.term), cur.ty)
                    return self.store(recv, new, env, lambda e2: self.block(rest, e2, ctx))
                return self.expr(recv, env, k2)
            return self.expr(arg, env, k)
        if isinstance(st, ast.While):
            return self.while_loop(st, rest, env, ctx)
        if isinstance(st, ast.For):
            return self.for_loop(st, rest, env, ctx)
        raise Refuse("statement %s (line %d)" % (type(st).__name__, st.lineno))

    def need(self, v, ty):
        if v.ty != ty:
            raise Refuse("a %r where %r is needed" % (v.ty, ty))
        return True

    def var(self, name, env):
        t = env.get(name)
        if t is None:
            raise Refuse("name %s" % name)
        if t == LEAKED:
            raise Refuse("use of the loop-local variable %s after its loop" % name)
        return t

    def store(self, target, v, env, k):
        """target = v, then k(env')"""
        if isinstance(target, ast.Name):
            old = env.get(target.id)
            if old not in (None, LEAKED) and old != v.ty:
                if old == F and v.ty == I:
                    v = Val("(ofInt %s)" % v.term, F)
                else:
                    raise Refuse("variable %s changes type (%r -> %r)" % (target.id, old, v.ty))
            e2 = dict(env)
            e2[target.id] = v.ty
            return "let v_%s := %s;\n  %s" % (target.id, v.term, k(e2))
        if isinstance(target, ast.Subscript) and not isinstance(target.slice, ast.Slice):
            base = target.value
            if isinstance(base, ast.Name):
                lt = self.var(base.id, env)
                if lt[0] != "L":
                    raise Refuse("subscript assignment into %r" % (lt,))
                if lt[1] == F and v.ty == I:
                    v = Val("(ofInt %s)" % v.term, F)
                self.need(v, lt[1])
                return self.expr(target.slice, env, lambda i: self.need(i, I) and
                                 "Option.bind (G7.setIdx v_%s %s %s) fun v_%s =>\n  %s" % (base.id, i.term, v.term, base.id, k(env)))
            if isinstance(base, ast.Subscript) and isinstance(base.value, ast.Name) and not isinstance(base.slice, ast.Slice):
                # x[i][j] = v : the row object x[i] is fetched, changed, and (value semantics) written back
                name = base.value.id
                lt = self.var(name, env)
                if lt[0] != "L" or lt[1][0] != "L":
                    raise Refuse("x[i][j] = v on %r" % (lt,))
                if lt[1][1] == F and v.ty == I:
                    v = Val("(ofInt %s)" % v.term, F)
                self.need(v, lt[1][1])
                r, r2 = self.fresh("row"), self.fresh("row")

                def k1(i):
                    self.need(i, I)
                    return "Option.bind (G7.index v_%s %s) fun %s =>\n  %s" % (name, i.term, r, self.expr(
                        target.slice, env, lambda j: self.need(j, I) and
                        "Option.bind (G7.setIdx %s %s %s) fun %s =>\n  Option.bind (G7.setIdx v_%s %s %s) fun v_%s =>\n  %s"
                        % (r, j.term, v.term, r2, name, i.term, r2, name, k(env))))
                return self.expr(base.slice, env, k1)
        raise Refuse("assignment target (line %d)" % target.lineno)

    def store_all(self, targets, vals, env, k):
        if not targets:
            return k(env)
        return self.store(targets[0], vals[0], env, lambda e2: self.store_all(targets[1:], vals[1:], e2, k))

    def eval_list(self, exprs, env, k, acc=None):
        acc = acc or []
        if not exprs:
            return k(acc)

        def k1(v):
            n = self.fresh("u")
            return "let %s := %s;\n  %s" % (n, v.term, self.eval_list(exprs[1:], env, k, acc + [Val(n, v.ty)]))
        return self.expr(exprs[0], env, k1)

    # -- loops ------------------------------------------------------------------------------
    def fuel_of(self):
        key = (self.cur_py, self.loop_no)
        self.loop_no += 1
        if key not in self.fuel:
            raise Refuse("no fuel declared for while loop #%d of %s" % (key[1], key[0]))
        return self.fuel[key]

    def has(self, body, kinds, stop_at_loops=True):
        def walk(n):
            if isinstance(n, kinds):
                return True
            if stop_at_loops and isinstance(n, (ast.For, ast.While)):
                return False
            return any(walk(c) for c in ast.iter_child_nodes(n))
        return any(walk(s) for s in body)

    def while_loop(self, st, rest, env, ctx):
        if st.orelse:
            raise Refuse("while/else")
        fuel = self.fuel_of()
        state, local = self.loop_state(st.body, env)
        sty = self.state_type(state, env)
        s = self.fresh("s")
        if isinstance(st.test, ast.Constant) and st.test.value is True:
            if self.has(st.body, (ast.Break,)) or not self.has(st.body, (ast.Return,), stop_at_loops=False):
                raise Refuse("`while True` must leave through `return` only")
            if self.has(st.body, (ast.Return,)) is False:
                raise Refuse("`while True` with a return inside a nested loop")
            if rest:
                raise Refuse("statements after `while True`")
            if ctx.brk is not None:
                raise Refuse("`while True` inside a for loop")
            inner = Ctx(lambda v, e: "some (G7.Ctl.ret %s)" % ctx.ret(v, e)[len("some "):],
                        lambda e: "some (G7.Ctl.cont %s)" % self.pack(state))
            body = self.block(list(st.body), dict(env), inner)
            return "G7.loopO %s (fun (%s : %s) => %s%s) %s" % (fuel, s, sty, self.unpack(state, s), body, self.pack(state))
        if self.has(st.body, (ast.Break, ast.Continue)) or self.has(st.body, (ast.Return,), stop_at_loops=False):
            raise Refuse("break / continue / return inside `while c`")
        c = self.cond(st.test, env, lambda: "some true", lambda: "some false")
        inner = Ctx(None, lambda e: "some %s" % self.pack(state))
        body = self.block(list(st.body), dict(env), inner)
        e2 = dict(env)
        for n in local:
            e2[n] = LEAKED
        s2 = self.fresh("s")
        return ("Option.bind (G7.whileO %s (fun (%s : %s) => %s%s) (fun (%s : %s) => %s%s) %s) fun %s =>\n  %s%s"
                % (fuel, s, sty, self.unpack(state, s), c, s, sty, self.unpack(state, s), body, self.pack(state),
                   s2, self.unpack(state, s2), self.block(rest, e2, ctx)))

    def for_loop(self, st, rest, env, ctx):
        if st.orelse:
            raise Refuse("for/else")
        if self.has(st.body, (ast.Return,), stop_at_loops=False):
            raise Refuse("return inside a for loop")
        tnames = [x.id for x in ast.walk(st.target) if isinstance(x, ast.Name)]
        for tn in tnames:
            if tn in env and env[tn] != LEAKED:
                raise Refuse("loop variable %s re-uses the name of a variable" % tn)
        state, local = self.loop_state(st.body, env, extra=tnames)
        sty = self.state_type(state, env)
        s, p = self.fresh("s"), self.fresh("p")
        brk = self.has(st.body, (ast.Break,))

        def k(seq):
            if seq.ty[0] != "L":
                raise Refuse("iteration over %r" % (seq.ty,))
            inner_env = dict(env)
            if isinstance(st.target, ast.Name):
                inner_env[st.target.id] = seq.ty[1]
                bindp = "let v_%s := %s; " % (st.target.id, p)
            elif isinstance(st.target, ast.Tuple) and len(st.target.elts) == 2 and seq.ty[1][0] == "P" \
                    and all(isinstance(x, ast.Name) for x in st.target.elts):
                a, b = st.target.elts
                inner_env[a.id], inner_env[b.id] = seq.ty[1][1], seq.ty[1][2]
                bindp = "let v_%s := %s.1; let v_%s := %s.2; " % (a.id, p, b.id, p)
            else:
                raise Refuse("loop target")
            if brk:
                inner = Ctx(None, lambda e: "some (%s, false)" % self.pack(state), lambda e: "some (%s, true)" % self.pack(state))
            else:
                inner = Ctx(None, lambda e: "some %s" % self.pack(state), None)
                inner.brk = None
                # `continue` in a loop without break: end of the body
                inner = Ctx(None, inner.fall, None)
                inner.cont_ok = True
            body = self.block(list(st.body), inner_env, inner)
            e2 = dict(env)
            for n in local + tnames:
                e2[n] = LEAKED
            s2 = self.fresh("s")
            return ("Option.bind (G7.%s %s (fun (%s : %s) (%s : %s) => %s%s%s) %s) fun %s =>\n  %s%s"
                    % ("forB" if brk else "forO", seq.term, p, lean_type(seq.ty[1]), s, sty, bindp, self.unpack(state, s),
                       body, self.pack(state), s2, self.unpack(state, s2), self.block(rest, e2, ctx)))
        return self.expr(st.iter, env, k)

    # -- conditions -------------------------------------------------------------------------
    def cond(self, e, env, kt, kf):
        if isinstance(e, ast.Constant) and isinstance(e.value, bool):
            return kt() if e.value else kf()
        if isinstance(e, ast.UnaryOp) and isinstance(e.op, ast.Not):
            return self.cond(e.operand, env, kf, kt)
        if isinstance(e, ast.BoolOp):
            vs = list(e.values)
            if len(vs) > 2:
                e2 = ast.copy_location(ast.BoolOp(op=e.op, values=vs[1:]), e)
            else:
                e2 = vs[1]
            if isinstance(e.op, ast.And):
                return self.cond(vs[0], env, lambda: self.cond(e2, env, kt, kf), kf)
            return self.cond(vs[0], env, kt, lambda: self.cond(e2, env, kt, kf))
        if isinstance(e, ast.Call) and isinstance(e.func, ast.Attribute) and e.func.attr == "dominates" and len(e.args) == 1:
            a, b = e.func.value, e.args[0]
            for x in (a, b):
                if not (isinstance(x, ast.Attribute) and x.attr == "fitness"):
                    raise Refuse("dominates on something else than <individual>.fitness")
            return self.expr(a.value, env, lambda x: self.expr(b.value, env, lambda y: self.need(x, I) and self.need(y, I) and
                             "(if dom %s %s = true then %s else %s)" % (x.term, y.term, kt(), kf())))
        if isinstance(e, ast.Compare):
            if len(e.ops) != 1:
                raise Refuse("chained comparison")
            op = e.ops[0]

            def k(a, b):
                if {a.ty, b.ty} == {F, I}:
                    a = a if a.ty == F else Val("(ofInt %s)" % a.term, F)
                    b = b if b.ty == F else Val("(ofInt %s)" % b.term, F)
                if a.ty != b.ty or a.ty not in (I, F):
                    raise Refuse("comparison of %r and %r" % (a.ty, b.ty))
                if isinstance(op, ast.Lt):
                    c = "%s < %s" % (a.term, b.term)
                elif isinstance(op, ast.Gt):
                    c = "%s < %s" % (b.term, a.term)
                elif a.ty == F:
                    raise Refuse("float comparison other than < >")
                elif isinstance(op, ast.LtE):
                    c = "%s ≤ %s" % (a.term, b.term)
                elif isinstance(op, ast.GtE):
                    c = "%s ≤ %s" % (b.term, a.term)
                elif isinstance(op, ast.Eq):
                    c = "%s = %s" % (a.term, b.term)
                elif isinstance(op, ast.NotEq):
                    c = "%s ≠ %s" % (a.term, b.term)
                else:
                    raise Refuse("comparison %s" % type(op).__name__)
                return "(if %s then %s else %s)" % (c, kt(), kf())
            return self.expr(e.left, env, lambda a: self.expr(e.comparators[0], env, lambda b: k(a, b)))
        raise Refuse("condition %s (line %d)" % (type(e).__name__, e.lineno))

    # -- expressions ------------------------------------------------------------------------
    def expr(self, e, env, k, hint=None):
        if isinstance(e, ast.Constant):
            v = e.value
            if isinstance(v, bool) or not isinstance(v, (int, float)):
                raise Refuse("constant %r" % (v,))
            if isinstance(v, int):
                return k(Val("(%d : Int)" % v, I))
            if v != int(v) or abs(v) > 2 ** 53:
                raise Refuse("non-integral float literal %r" % v)
            return k(Val("(ofInt %d)" % int(v), F))
        if isinstance(e, ast.Name):
            return k(Val("v_" + e.id, self.var(e.id, env)))
        if isinstance(e, ast.UnaryOp) and isinstance(e.op, ast.USub):
            return self.expr(e.operand, env, lambda v: self.need(v, I) and k(Val("(-%s)" % v.term, I)))
        if isinstance(e, ast.BinOp):
            return self.expr(e.left, env, lambda a: self.expr(e.right, env, lambda b: self.binop(e, a, b, k)))
        if isinstance(e, ast.List) and e.elts:
            def kl(vs):
                if len({v.ty for v in vs}) != 1:
                    raise Refuse("list display of mixed types")
                return k(Val("[%s]" % ", ".join(v.term for v in vs), L(vs[0].ty)))
            return self.eval_list(list(e.elts), env, kl)
        if isinstance(e, ast.List) and not e.elts:
            if hint is None or (self.cur_py, hint) not in self.local_types:
                raise Refuse("`[]` without a declared type (line %d)" % e.lineno)
            ty = self.local_types[(self.cur_py, hint)]
            return k(Val("([] : %s)" % lean_type(ty), ty))
        if isinstance(e, ast.Subscript):
            if isinstance(e.slice, ast.Slice):
                sl = e.slice
                if sl.upper is not None or sl.step is not None or sl.lower is None:
                    raise Refuse("slice other than l[k:]")
                return self.expr(e.value, env, lambda l: self.expr(sl.lower, env, lambda a: self.need(a, I) and self.islist(l) and
                                 k(Val("(G7.dropI %s %s)" % (l.term, a.term), l.ty))))

            def k1(l, i):
                self.need(i, I)
                self.islist(l)
                t = self.fresh("t")
                return "Option.bind (G7.index %s %s) fun %s =>\n  %s" % (l.term, i.term, t, k(Val(t, l.ty[1])))
            return self.expr(e.value, env, lambda l: self.expr(e.slice, env, lambda i: k1(l, i)))
        if isinstance(e, ast.Call):
            return self.call(e, env, k)
        raise Refuse("expression %s (line %d)" % (type(e).__name__, getattr(e, "lineno", 0)))

    def islist(self, v):
        if v.ty[0] != "L":
            raise Refuse("a %r where a list is needed" % (v.ty,))
        return True

    def binop(self, e, a, b, k):
        op = e.op
        if isinstance(op, ast.Mult) and a.ty[0] == "L" and b.ty == I:
            return k(Val("(List.flatten (List.replicate (Int.toNat %s) %s))" % (b.term, a.term), a.ty))
        if isinstance(op, (ast.Add, ast.Sub, ast.Mult)):
            if a.ty not in (I, F) or b.ty not in (I, F):
                raise Refuse("arithmetic on %r, %r (line %d)" % (a.ty, b.ty, e.lineno))
            if a.ty != b.ty:
                a = a if a.ty == F else Val("(ofInt %s)" % a.term, F)
                b = b if b.ty == F else Val("(ofInt %s)" % b.term, F)
            sym = {ast.Add: "+", ast.Sub: "-", ast.Mult: "*"}[type(op)]
            return k(Val("(%s %s %s)" % (a.term, sym, b.term), a.ty))
        if isinstance(op, ast.Div):
            if a.ty == I and b.ty == I:
                return "(if %s = 0 then none else %s)" % (b.term, k(Val("(divI %s %s)" % (a.term, b.term), F)))
            if a.ty == F and b.ty == F:
                return k(Val("(%s / %s)" % (a.term, b.term), F))
            raise Refuse("division of %r by %r" % (a.ty, b.ty))
        raise Refuse("operator %s" % type(op).__name__)

    def call(self, e, env, k):
        if isinstance(e.func, ast.Name) and e.func.id == "sorted" and "sorted" not in env and len(e.args) == 1 \
                and len(e.keywords) == 1 and e.keywords[0].arg == "reverse" and isinstance(e.keywords[0].value, ast.Constant) \
                and e.keywords[0].value.value is True:
            # descending sort of ints: equal ints are indistinguishable, so this is the reversed ascending sort
            return self.expr(e.args[0], env, lambda l: self.need(l, L(I)) and k(Val("(List.reverse (G7.sortedI %s))" % l.term, l.ty)))
        if e.keywords or any(isinstance(a, ast.Starred) for a in e.args):
            raise Refuse("keyword / starred arguments (line %d)" % e.lineno)
        f, n = e.func, len(e.args)
        if isinstance(f, ast.Attribute):
            if isinstance(f.value, ast.Name) and f.value.id == "random" and "random" not in env:
                if f.attr == "randint" and n == 2:
                    r = self.fresh("r")
                    return self.expr(e.args[0], env, lambda a: self.expr(e.args[1], env, lambda b: self.need(a, I) and self.need(b, I) and
                                     "Option.bind (G7.randint tape %s %s) fun %s =>\n  let tape := %s.2;\n  %s"
                                     % (a.term, b.term, r, r, k(Val("%s.1" % r, I)))))
                raise Refuse("random.%s" % f.attr)
            if f.attr == "copy" and n == 0:
                return self.expr(f.value, env, lambda v: self.islist(v) and k(v))
            raise Refuse("method call .%s (line %d)" % (f.attr, e.lineno))
        if not isinstance(f, ast.Name) or f.id in env:
            raise Refuse("call of a value (line %d)" % e.lineno)
        name = f.id
        ci = self.cur if name == self.cur_py else self.info.get(name)
        if ci is not None:
            if n != len(ci.params):
                raise Refuse("call of %s with %d arguments" % (name, n))
            for p, a in zip(ci.params, e.args):
                fresh_copy = isinstance(a, ast.Call) and isinstance(a.func, ast.Attribute) and a.func.attr == "copy"
                if p in ci.stores and not fresh_copy:
                    raise Refuse("%s stores its argument %s: the caller must pass a fresh copy" % (name, p))
                if p in ci.mutated and not (isinstance(a, ast.Name) or fresh_copy):
                    raise Refuse("mutated argument %s of %s is neither a variable nor a fresh copy" % (p, name))

            def k1(vals):
                for v, t, p in zip(vals, ci.ptypes, ci.params):
                    if v.ty != t:
                        raise Refuse("argument %s of %s has type %r, declared %r" % (p, name, v.ty, t))
                r = self.fresh("r")
                comps = [("arg", p, a) for p, a in zip(ci.params, e.args) if p in ci.mutated] + \
                    ([("tape", None, None)] if ci.draws else []) + [("res", None, None)]
                lets = []
                for idx, (kind, p, a) in enumerate(comps):
                    proj = r + ".2" * idx + (".1" if idx < len(comps) - 1 else "")
                    if kind == "arg" and isinstance(a, ast.Name):
                        lets.append("let v_%s := %s;\n  " % (a.id, proj))
                    elif kind == "tape":
                        lets.append("let tape := %s;\n  " % proj)
                    elif kind == "res":
                        res = proj
                rty = ci.ret_ty
                if rty is None:
                    raise Refuse("result type of the recursive function %s must be declared" % name)
                callee = "%s %s%s %s%s" % (ci.lean, PRELUDE_ARGS, " fuel" if ci.recursive else "",
                                           " ".join(v.term for v in vals), " tape" if ci.draws else "")
                return "Option.bind (%s) fun %s =>\n  %s%s" % (callee, r, "".join(lets), k(Val(res, rty)))
            return self.eval_list(list(e.args), env, k1)
        if name == "len" and n == 1:
            return self.expr(e.args[0], env, lambda l: self.islist(l) and k(Val("(%s.length : Int)" % l.term, I)))
        if name == "range" and n in (1, 2):
            if n == 1:
                return self.expr(e.args[0], env, lambda b: self.need(b, I) and k(Val("(G7.range 0 %s)" % b.term, L(I))))
            return self.expr(e.args[0], env, lambda a: self.expr(e.args[1], env, lambda b: self.need(a, I) and self.need(b, I) and
                             k(Val("(G7.range %s %s)" % (a.term, b.term), L(I)))))
        if name == "reversed" and n == 1:
            return self.expr(e.args[0], env, lambda l: self.islist(l) and k(Val("(List.reverse %s)" % l.term, l.ty)))
        if name == "sorted" and n == 1:
            return self.expr(e.args[0], env, lambda l: self.need(l, L(I)) and k(Val("(G7.sortedI %s)" % l.term, l.ty)))
        if name == "enumerate" and n in (1, 2):
            if n == 1:
                return self.expr(e.args[0], env, lambda l: self.islist(l) and
                                 k(Val("(G7.enumFrom 0 %s)" % l.term, L(P(I, l.ty[1])))))
            return self.expr(e.args[0], env, lambda l: self.expr(e.args[1], env, lambda a: self.islist(l) and self.need(a, I) and
                             k(Val("(G7.enumFrom %s %s)" % (a.term, l.term), L(P(I, l.ty[1]))))))
        raise Refuse("call of %s/%d (line %d)" % (name, n, e.lineno))
