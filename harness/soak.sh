#!/bin/sh
# soak.sh — robustness run on the unchanged tree: every quick check with several seeds, then every thorough check.
# Meant for `vp run --with-repo -- sh harness/soak.sh` (uses the /repo snapshot in $VP_RUN_REPO when set).
[ -n "$VP_RUN_REPO" ] && export DEAP_REPO="$VP_RUN_REPO"
cd "$(dirname "$0")/.." || exit 2
(cd lean && lake build 2>&1 | tail -1)
fail=0
for seed in 1 2 3 4; do
  for p in C01 C02 C03 C04 C05 C06 C07 C08 C09 C10 C11 C12 C13 C14 C15 C16 C17 C18 C19 C20; do
    out=$(VERIF_SEED=$seed /venv/bin/python harness/vcheck.py $p --tier quick 2>&1); rc=$?
    echo "quick seed=$seed rc=$rc $(echo "$out" | grep -v KNOWN-FINDING | tail -1)"
    [ $rc -ne 0 ] && { fail=1; echo "$out" | tail -5; }
  done
done
for p in C01 C02 C03 C04 C05 C06 C07 C08 C09 C10 C11 C12 C13 C14 C15 C16 C17 C18 C19 C20; do
  out=$(VERIF_SEED=0 /venv/bin/python harness/vcheck.py $p --tier thorough 2>&1); rc=$?
  echo "thorough rc=$rc $(echo "$out" | grep -v KNOWN-FINDING | tail -1)"
  [ $rc -ne 0 ] && { fail=1; echo "$out" | tail -5; }
done
echo "SOAK fail=$fail"
exit $fail
