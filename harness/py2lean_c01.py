"""py2lean_c01 — translator from the object sub-language of deap/base.py (classes Fitness / ConstrainedFitness) and of the
two wrapper bodies of deap/tools/constraint.py to Lean 4 definitions.  Companion of harness/py2lean.py (C20, numeric
functions; its `Refuse` and `Module` — the resolution of a module's imports — are re-used); nothing there is changed.

Used by the C01 and C19 checks as the TRANSLATOR TIE: on every run the method bodies are re-read from $DEAP_REPO's current
source, rendered as Lean definitions `Gen01.<Class>_<method>` / `Gen19.<Class>_wrapper`, and the committed theorems of
lean/DeapModel/GenEq/C01.lean.tmpl / C19.lean.tmpl (`generated definition = hand-written model of Core/Fitness.lean,
Core/FitClass.lean, Core/Penalty.lean`) are re-checked by the Lean kernel (harness/lib.py::_translated_obligations).

THIS DOCSTRING IS THE TRANSLATOR'S TRUSTED BASE: the sub-language and the rendering rules.  Everything not listed is
REFUSED (`Refuse`), never guessed.  Lean helpers used by the rendering: lean/DeapModel/Core/Py.lean (tuple comparison,
`Py.slice`) and lean/DeapModel/Core/GenPreludeC01.lean (slice objects, `forRet`, `isum`, `zip3`).

WHAT IS RENDERED: PROPERTY-LEVEL QUANTITIES ONLY.  A method is rendered as a function of the FIELDS of the objects it is
given; there is no metaclass, no `property` OBJECT, no descriptor protocol, no instance `__dict__`, no object identity in
the rendering.  Concretely the following is trusted, not rendered:
  * attribute lookup: `obj.name` finds (1) a `property` of the object's class along its (single inheritance) MRO, (2) a
    declared instance field, (3) a class-body assignment along the MRO, (4) a method; the caller-supplied table of
    declared state says which instance fields and class attributes an object has and of which type (for C01:
    `wvalues : tuple of float`, `constraint_violation : None | list of int`, class attribute `weights : tuple of float`).
    An attribute that is not in the table (a cache, a new field) is REFUSED.  The table and the parameter types
    (`other`: an object of the same class, `values`: a sequence of floats, `obj`: a slice object, …) are assumptions of
    the tie, like the ASSUMPTIONS of the check.  A parameter the table does not name (a helper the source introduces)
    takes the type of the argument of the first translated call.
  * `name = property(g, s, d, doc)` in a class body binds reading / assigning / deleting `obj.name` to the FUNCTIONS g / s / d
    of that class body (captured at class creation, not looked up again); `@property def name` is a getter-only property;
    `@K.name.deleter def name` (also .setter / .getter) in a derived class is K's property with that one accessor replaced.
  * `self.m(...)` resolves `m` along the MRO of the class the definition is generated FOR (dynamic dispatch);
    `super(K, self).m(...)` along the MRO after K; `K.m(self, ...)` is K's function.  `self.__class__()` creates an object of
    the class the definition is generated for.  Every (class generated for, defining class, method) triple is its own Lean
    definition: `<D>_<m>`, or `<D>_super_<K>_<m>` when reached through `super`/`K.m`.  Calls between translated definitions
    are calls between the Lean definitions (no inlining); recursion is refused.
  * a new object `C()`: its instance fields start UNSET (reading one before it is assigned falls back to the class-body
    default along the MRO, e.g. `wvalues = ()`; if there is none the read is REFUSED), its class attributes are those of the
    creating object's class; then `__init__` (found along the MRO) runs with the given arguments, missing ones taking the
    `def`'s default expressions.
Value types     float -> α (any type with < ≤ = * / and, for C19, 0 1 - ; the theorems hold AT EVERY SUCH SCALAR, so the
                operation order of the source is pinned);  int -> Int;  bool -> Bool;  tuple / list / map / zip / generator
                -> List;  None | T -> Option T;  slice object -> Gen01.PySlice;  the result of `hash` -> an abstract type H.
                A raised exception (failed `assert`, `raise`) -> `none`: a definition that can raise has result type `Option R`,
                one that cannot has result type `R` (so adding or removing a way to raise changes the type and breaks the theorem).
Definitions     one Lean `def` per method.  Binders: for an object parameter, one binder `<param>_<attr>` per attribute the
                body (transitively) reads, in the order class attributes, instance fields; every other parameter one binder
                (an opaque parameter such as `memo` none); `pyhash` when `hash` is used.
                A method without a valued `return` is a MUTATOR: it returns the new contents of ALL instance fields of `self`
                (state passing; one field -> that value, several -> a tuple in declared order).  A method that returns an
                object returns that object's fields the same way.  A method may not both return a value and change `self`,
                and may change only `self` or an object it created.
Expressions
  (a, b)          a pair / triple of bools and numbers -> a Lean tuple; `x, y = e` for such an e binds its components.
  constants       None, True, False, int literals, integral float literals (`1.0` -> `(1 : α)`; an int literal meeting a
                  float is `(n : α)`), the empty tuple `()`.
  obj.attr        as above.  `x is None` / `x is not None`: for x of a declared non-optional type the constant False / True
                  (dead branches are dropped); for an optional x `x.isNone` / `x.isSome`, and where x is a variable or an
                  attribute the test NARROWS it: `if x is None: A else: B` -> `match x with | none => A | some x' => B[x']`,
                  `x is not None and REST` -> `match x with | none => false | some x' => REST[x']` (Python's short circuit).
  not / and / or  on bools: `!`, `&&`, `||` (operands after the first must not raise).
  comparisons     one operator.  numbers: `<  <=  ==  !=`, `a > b` -> `b < a`, `a >= b` -> `b ≤ a`;
                  tuples of floats: `<  <=  ==  !=` -> Py.tupleLt / tupleLe / tupleEq (Core/Py.lean: CPython's tuple comparison).
  calls           len; tuple / list (identity on List); map(mul | truediv | sub, a, b) -> List.zipWith; zip of 2 or 3;
                  sum of ints -> Gen01.isum; hash(x) -> `pyhash x` (an uninterpreted function parameter);
                  isinstance(x, Sequence) -> True for a declared sequence; slice(None) -> PySlice.all;
                  deepcopy(x, memo) / copy.deepcopy(x) of a number / tuple / list / None value -> x (values have no identity);
                  bool(b); methods and module functions of the same file as above.
  x[obj]          obj a slice object: Gen01.sliceObj obj x (CPython's slice.indices; step 0 is NOT RENDERED).
  a if c else b ; generator expression / tuple(... for t in seq) with one `for`, no `if` -> List.map (element must not raise).
Statements      docstring; pass; `v = e`; `obj.field = e` (declared field of self / a created object); `obj.prop = e`,
                `del obj.prop` (the property's setter / deleter); `assert c, msg` -> `if c then … else none`; `raise …` -> none;
                `if / elif / else` (the rest of the block is duplicated into both branches); `return e`;
                a call statement of a mutator;
                `try: BODY except E: … raise …` (every handler ends in `raise`, no else / finally) -> BODY: the handlers
                only change WHICH exception propagates and every exception is the one `none`;
                `for t in seq: BODY` -> Gen01.forRet: BODY may assign already defined bool / number locals (the loop
                state), use if / elif / else, `continue` and `return e`; it must not raise, create locals or touch objects.
REFUSED, e.g.   while, with, break, nested def / lambda (except the C19 wrapper shape below), global / nonlocal, *args / **kwargs
                (except in the C19 wrapper shape), keyword arguments, undeclared attributes, getattr / setattr / __dict__,
                strings (so __str__ / __repr__), chained comparisons, `in`, augmented assignment,
                comprehension `if`s, numpy, any call not listed.
C19 wrapper shape (constraint.py): `def __call__(self, func): @wraps(func) def wrapper(individual, *args, **kwargs): BODY;
                return wrapper` is rendered as ONE definition of BODY with `self`'s attributes (closure parameters
                fbty_fct, delta, dist_fct, fbl_fct, alpha) and `func` as parameters.  `*args, **kwargs` may only be forwarded
                unchanged (`f(x, *args, **kwargs)`) and are one abstract value `a : A`.  A call of a function-valued
                parameter `g(x, …)` is `g x …` and — for `func` — is recorded in the CALL LOG: the definition returns the
                structure `Penalty.Out` (result, calls of `func` in order) exactly as Core/Penalty.lean does.
                A value that is "a number or a vector" (delta, the distance function's result) is `Penalty.SV α`;
                `_is_vector(v)` is the test `v matches SV.seq`, `repeat(c)` in a `zip` is `SV.upTo n (scalar c)` where n is the
                length of the shortest finite operand (zip never reads further), `individual.fitness.weights` is the
                parameter `weights individual`.
"""
import ast
import copy as _copy
import re

from py2lean import Refuse, Module  # noqa: F401  (Module: import resolution of a source file)

F = ("F",)
I = ("I",)
B = ("B",)
SL = ("SLICE",)
OPAQUE = ("OPAQUE",)
NONE = ("NONE",)
HASH = ("H",)
EMPTY = ("L", None)


def L(t):
    return ("L", t)


def OPT(t):
    return ("OPT", t)


def OBJ(c):
    return ("OBJ", c)


def TUP(*ts):
    return ("T",) + tuple(ts)


def lean_type(t):
    if t == F:
        return "α"
    if t == I:
        return "Int"
    if t == B:
        return "Bool"
    if t == SL:
        return "Gen01.PySlice"
    if t == HASH:
        return "H"
    if t == ("UNIT",):
        return "Unit"
    if t[0] == "L":
        if t[1] is None:
            raise Refuse("empty tuple whose element type is unknown")
        return "List %s" % atom(t[1])
    if t[0] == "OPT":
        return "Option %s" % atom(t[1])
    if t[0] == "T":
        return " × ".join(atom(x) for x in t[1:])
    raise Refuse("no Lean type for %r" % (t,))


def atom(t):
    s = lean_type(t)
    return s if " " not in s else "(%s)" % s


class Val:
    def __init__(self, term, ty, prop=None, const=None, lit=None, place=None, alias=None):
        self.term, self.ty, self.prop, self.const, self.lit, self.place = term, ty, prop, const, lit, place
        self.alias = alias      # a local variable that holds the (optional) value just read from an object attribute


class ObjRef:
    def __init__(self, oid):
        self.oid = oid


class Rec:
    """an object at translation time: its class, the current Lean term of every attribute, where it came from"""
    def __init__(self, cls, fields, origin):
        self.cls, self.fields, self.origin = cls, fields, origin
        self.initial = dict(fields)
        self.label = "obj"


UNSET = object()
LEAKED = object()


class Bound:
    """a method bound to an object: (object, class generated for, defining class, FunctionDef, via_super)"""
    def __init__(self, obj, K, fn, via):
        self.obj, self.K, self.fn, self.via = obj, K, fn, via


class SuperRef:
    def __init__(self, obj, after):
        self.obj, self.after = obj, after


class ClassRef:
    def __init__(self, name, obj=None):
        self.name, self.obj = name, obj


class Env:
    def __init__(self):
        self.vars, self.heap = {}, {}

    def copy(self):
        e = Env()
        e.vars = dict(self.vars)
        for k, r in self.heap.items():
            r2 = Rec(r.cls, dict(r.fields), r.origin)
            r2.initial = r.initial
            r2.label = r.label
            e.heap[k] = r2
        return e


class ClassInfo:
    def __init__(self, node):
        self.name = node.name
        self.bases = [b.id for b in node.bases if isinstance(b, ast.Name)]
        self.methods, self.props, self.attrs, self.problem = {}, {}, {}, None
        if len(self.bases) != len(node.bases) or len(self.bases) != 1 or node.keywords or node.decorator_list:
            self.problem = "class statement of %s (one named base class, no keywords, no decorators)" % node.name

    def fill(self, node, classes):
        for st in node.body:
            if isinstance(st, ast.Expr) and isinstance(st.value, ast.Constant) and isinstance(st.value.value, str):
                continue
            if isinstance(st, ast.Assign) and len(st.targets) == 1 and isinstance(st.targets[0], ast.Name):
                nm, v = st.targets[0].id, st.value
                if isinstance(v, ast.Call) and isinstance(v.func, ast.Name) and v.func.id == "property":
                    fs = []
                    for a in v.args[:3]:
                        if isinstance(a, ast.Name) and a.id in self.methods:
                            fs.append((self.name, self.methods[a.id]))
                        elif isinstance(a, ast.Constant) and a.value is None:
                            fs.append(None)
                        else:
                            self.problem = "property(...) of %s.%s with an argument that is not a function of the class body" % (self.name, nm)
                            return
                    if v.keywords:
                        self.problem = "property(...) with keywords"
                        return
                    fs += [None] * (3 - len(fs))
                    self.props[nm] = dict(get=fs[0], set=fs[1], delete=fs[2])
                else:
                    self.attrs[nm] = v
                continue
            if isinstance(st, ast.FunctionDef):
                decs = st.decorator_list
                if not decs:
                    self.methods[st.name] = st
                    continue
                if len(decs) == 1 and isinstance(decs[0], ast.Name) and decs[0].id == "property":
                    self.props[st.name] = dict(get=(self.name, st), set=None, delete=None)
                    continue
                d = decs[0]
                if len(decs) == 1 and isinstance(d, ast.Attribute) and d.attr in ("getter", "setter", "deleter") \
                        and isinstance(d.value, ast.Attribute) and isinstance(d.value.value, ast.Name) \
                        and d.value.value.id in classes and d.value.attr == st.name \
                        and st.name in classes[d.value.value.id].props:
                    p = dict(classes[d.value.value.id].props[st.name])
                    p[{"getter": "get", "setter": "set", "deleter": "delete"}[d.attr]] = (self.name, st)
                    self.props[st.name] = p
                    continue
                self.problem = "decorated method %s.%s" % (self.name, st.name)
                return
            if isinstance(st, ast.Pass):
                continue
            self.problem = "statement %s in the body of class %s (line %d)" % (type(st).__name__, self.name, st.lineno)
            return


class Def:
    def __init__(self, name):
        self.name = name
        self.binders = []       # ("attr", param, attr, ty) | ("param", param, ty) | ("hash",)
        self.partial = False
        self.kind = None        # value | state | object
        self.mutated = None     # state kind: [(field, ty)] some path assigns, in declared order
        self.ret_ty = None
        self.obj_cls = None
        self.text = None
        self.params = []
        self.fn = None
        self.lineno = 0


class Translator:
    """cfg: dict(ns, short={class: short name}, fields={class: [(attr, ty)]}, class_attrs={class: [(attr, ty)]},
    sigs={(class|None, function): {param: ty}}, default_sig={param: ty}, attr_types={(class, function): {attr: ty}})"""

    def __init__(self, module, cfg):
        self.m, self.cfg = module, cfg
        self.classes = {}
        for nm, g in module.globals.items():
            if g[0] == "class":
                self.classes[nm] = ClassInfo(g[1])
        for nm, g in module.globals.items():
            if g[0] == "class":
                self.classes[nm].fill(g[1], self.classes)
        self.defs, self.order, self.stack = {}, [], []
        self.hints = {}
        self.counter = 0
        # `Sequence` imported from collections(.abc), also inside a module-level try / except ImportError
        self.sequence_names = set()
        for node in ast.walk(module.tree):
            if isinstance(node, ast.ImportFrom) and node.module in ("collections.abc", "collections"):
                for a in node.names:
                    if a.name == "Sequence":
                        self.sequence_names.add(a.asname or a.name)

    # ---- classes ---------------------------------------------------------------------------
    def mro(self, D):
        out = []
        while D in self.classes:
            ci = self.classes[D]
            if ci.problem:
                raise Refuse(ci.problem)
            out.append(D)
            D = ci.bases[0]
        if D != "object":
            raise Refuse("base class %s is not a class of the module" % D)
        return out

    def resolve(self, D, name, after=None):
        ks = self.mro(D)
        if after is not None:
            if after not in ks:
                raise Refuse("super(%s, …) on an object of class %s" % (after, D))
            ks = ks[ks.index(after) + 1:]
        for K in ks:
            ci = self.classes[K]
            if name in ci.props:
                return ("prop", K, ci.props[name])
            if name in ci.methods:
                return ("method", K, ci.methods[name])
            if name in ci.attrs:
                return ("attr", K, ci.attrs[name])
        return None

    def declared(self, D):
        """[(attr, ty, is_class_attr)] of an object of class D"""
        out = []
        for K in reversed(self.mro(D)):
            for a, t in self.cfg["class_attrs"].get(K, []):
                if a not in [x[0] for x in out]:
                    out.append((a, t, True))
        for K in reversed(self.mro(D)):
            for a, t in self.cfg["fields"].get(K, []):
                if a not in [x[0] for x in out]:
                    out.append((a, t, False))
        return out

    def fields(self, D):
        return [(a, t) for a, t, c in self.declared(D) if not c]

    def state_type(self, D):
        fs = self.fields(D)
        return fs[0][1] if len(fs) == 1 else TUP(*[t for _, t in fs])

    # ---- helpers ---------------------------------------------------------------------------
    def fresh(self, base):
        self.counter += 1
        return "%s_%d" % (base, self.counter)

    def coerce(self, v, ty):
        if isinstance(v, ObjRef) or not isinstance(v, Val):
            raise Refuse("an object / function where a value of type %r is needed" % (ty,))
        if v.ty == ty:
            return v
        if v.ty == EMPTY and ty[0] == "L":
            return Val("([] : %s)" % lean_type(ty), ty)
        if v.ty == NONE and ty[0] == "OPT":
            return Val("(none : %s)" % lean_type(ty), ty)
        if ty[0] == "OPT" and v.ty != NONE:
            inner = self.coerce(v, ty[1])
            return Val("(some %s)" % inner.term, ty)
        if ty == F and v.ty == I and v.lit is not None:
            return Val("(%d : α)" % v.lit if v.lit >= 0 else "(-%d : α)" % (-v.lit), F, lit=v.lit)
        raise Refuse("a value of type %r where %r is needed" % (v.ty, ty))

    def unify(self, a, b):
        if a.ty == b.ty:
            return a, b
        for x, y, sw in ((a, b, False), (b, a, True)):
            try:
                x2 = self.coerce(x, y.ty)
                return (y, x2) if sw else (x2, y)
            except Refuse:
                pass
        raise Refuse("operands of types %r and %r" % (a.ty, b.ty))

    def cond_prop(self, v):
        if v.ty != B:
            raise Refuse("a condition that is not a bool (truth value of %r)" % (v.ty,))
        return v.prop if v.prop is not None else "%s = true" % v.term

    def mkbool(self, prop):
        return Val("(decide (%s))" % prop, B, prop=prop)

    def const(self, b):
        return Val("true" if b else "false", B, const=b)

    # ---- expressions -------------------------------------------------------------------------
    def expr(self, e, env, pre):
        meth = getattr(self, "e_" + type(e).__name__, None)
        if meth is None:
            raise Refuse("expression %s (line %d)" % (type(e).__name__, getattr(e, "lineno", 0)))
        return meth(e, env, pre)

    def value(self, e, env, pre):
        v = self.expr(e, env, pre)
        if not isinstance(v, Val):
            raise Refuse("an object / function used as a value (line %d)" % getattr(e, "lineno", 0))
        return v

    def e_Constant(self, e, env, pre):
        v = e.value
        if v is None:
            return Val("none", NONE)
        if v is True or v is False:
            return self.const(v)
        if isinstance(v, int):
            return Val("(%d : Int)" % v, I, lit=v)
        if isinstance(v, float) and v == int(v) and abs(v) < 2 ** 53:
            n = int(v)
            return Val("(%d : α)" % n if n >= 0 else "(-%d : α)" % (-n), F, lit=n)
        raise Refuse("constant %r (line %d)" % (v, e.lineno))

    def e_Tuple(self, e, env, pre):
        if not e.elts:
            return Val("[]", EMPTY)
        vs = [self.value(x, env, pre) for x in e.elts]
        if len(vs) < 2 or any(v.ty not in (B, F, I) for v in vs):
            raise Refuse("tuple display (line %d): only a pair / triple of bools and numbers is rendered" % e.lineno)
        return Val("(%s)" % ", ".join(v.term for v in vs), TUP(*[v.ty for v in vs]))

    def e_Name(self, e, env, pre):
        if e.id in env.vars:
            b = env.vars[e.id]
            if b is LEAKED:
                raise Refuse("use of the loop variable %s after its loop" % e.id)
            return b
        g = self.m.globals.get(e.id)
        if g is not None and g[0] == "class" and e.id in self.classes:
            return ClassRef(e.id)
        raise Refuse("name %s (line %d)" % (e.id, e.lineno))

    def read_attr(self, ref, attr, env, pre, lineno=0):
        rec = env.heap[ref.oid]
        if attr == "__class__":
            return ClassRef(rec.cls, ref)
        r = self.resolve(rec.cls, attr)
        if r is not None and r[0] == "prop":
            g = r[2]["get"]
            if g is None:
                raise Refuse("property %s without a getter" % attr)
            return self.call_def(rec.cls, g[0], g[1], ref, [], env, pre, via=None)
        decl = {a: (t, c) for a, t, c in self.declared(rec.cls)}
        if attr in decl:
            v = rec.fields.get(attr, UNSET)
            if v is UNSET:
                if r is not None and r[0] == "attr":
                    sub = []
                    d = self.coerce(self.value(r[2], Env(), sub), decl[attr][0])
                    if sub:
                        raise Refuse("class-body default of %s needs evaluation" % attr)
                    return d
                raise Refuse("read of the attribute .%s before it is assigned (AttributeError)" % attr)
            return Val(v.term, v.ty, prop=v.prop, const=v.const, lit=v.lit, place=("attr", ref.oid, attr))
        if r is not None and r[0] == "method":
            return Bound(ref, r[1], r[2], None)
        raise Refuse("attribute .%s is outside the declared state of %s (line %d)" % (attr, rec.cls, lineno))

    def e_Attribute(self, e, env, pre):
        recv = e.value
        if isinstance(recv, ast.Call) and isinstance(recv.func, ast.Name) and recv.func.id == "super":
            if len(recv.args) != 2 or not isinstance(recv.args[0], ast.Name) or recv.keywords:
                raise Refuse("super() without (Class, self)")
            o = self.expr(recv.args[1], env, pre)
            if not isinstance(o, ObjRef):
                raise Refuse("super(K, x) with x not an object")
            D = env.heap[o.oid].cls
            r = self.resolve(D, e.attr, after=recv.args[0].id)
            if r is None or r[0] != "method":
                raise Refuse("super(%s, …).%s is not a method" % (recv.args[0].id, e.attr))
            return Bound(o, r[1], r[2], r[1])
        x = self.expr(recv, env, pre)
        if isinstance(x, ObjRef):
            return self.read_attr(x, e.attr, env, pre, e.lineno)
        if isinstance(x, ClassRef) and x.obj is None:
            ci = self.classes[x.name]
            if e.attr in ci.methods:
                return Bound(None, x.name, ci.methods[e.attr], x.name)
        return self.attr_other(x, e, env, pre)

    def attr_other(self, x, e, env, pre):
        raise Refuse("attribute .%s (line %d)" % (e.attr, e.lineno))

    def e_UnaryOp(self, e, env, pre):
        if isinstance(e.op, ast.Not):
            v = self.value(e.operand, env, pre)
            if v.ty != B:
                raise Refuse("not of a non-bool (%r)" % (v.ty,))
            if v.const is not None:
                return self.const(not v.const)
            if v.prop is not None:
                return Val("(!%s)" % v.term, B, prop="¬ (%s)" % v.prop)
            return Val("(!%s)" % v.term, B)
        if isinstance(e.op, ast.USub):
            v = self.value(e.operand, env, pre)
            if v.lit is not None and v.ty in (I, F):
                n = -v.lit
                if v.ty == I:
                    return Val("(%d : Int)" % n, I, lit=n)
                return Val("(%d : α)" % n if n >= 0 else "(-%d : α)" % (-n), F, lit=n)
            if v.ty in (I, F):
                return Val("(-%s)" % v.term, v.ty)
        raise Refuse("unary operator %s (line %d)" % (type(e.op).__name__, e.lineno))

    def e_BinOp(self, e, env, pre):
        a = self.value(e.left, env, pre)
        b = self.value(e.right, env, pre)
        sym = {ast.Add: "+", ast.Sub: "-", ast.Mult: "*", ast.Div: "/"}.get(type(e.op))
        if sym is None or a.ty not in (F, I) or b.ty not in (F, I):
            raise Refuse("operator %s on %r, %r (line %d)" % (type(e.op).__name__, a.ty, b.ty, e.lineno))
        a, b = self.unify(a, b)
        if sym == "/" and a.ty == I:
            raise Refuse("int / int")
        return Val("(%s %s %s)" % (a.term, sym, b.term), a.ty)

    def is_none_test(self, e):
        """(operand, positive) for `x is None` / `x is not None`"""
        if isinstance(e, ast.Compare) and len(e.ops) == 1 and isinstance(e.ops[0], (ast.Is, ast.IsNot)) \
                and isinstance(e.comparators[0], ast.Constant) and e.comparators[0].value is None:
            return e.left, isinstance(e.ops[0], ast.Is)
        return None

    def e_Compare(self, e, env, pre):
        if len(e.ops) != 1:
            raise Refuse("chained comparison (line %d)" % e.lineno)
        t = self.is_none_test(e)
        if t is not None:
            x = self.expr(t[0], env, pre)
            if not isinstance(x, Val):
                return self.const(not t[1])
            if x.ty == NONE:
                return self.const(t[1])
            if x.ty[0] != "OPT":
                return self.const(not t[1])
            return Val("(%s.%s)" % (x.term, "isNone" if t[1] else "isSome"), B)
        op = e.ops[0]
        a = self.value(e.left, env, pre)
        b = self.value(e.comparators[0], env, pre)
        a, b = self.unify(a, b)
        if a.ty in (F, I):
            if isinstance(op, ast.Lt):
                return self.mkbool("%s < %s" % (a.term, b.term))
            if isinstance(op, ast.Gt):
                return self.mkbool("%s < %s" % (b.term, a.term))
            if isinstance(op, ast.LtE):
                return self.mkbool("%s ≤ %s" % (a.term, b.term))
            if isinstance(op, ast.GtE):
                return self.mkbool("%s ≤ %s" % (b.term, a.term))
            if isinstance(op, ast.Eq):
                return self.mkbool("%s = %s" % (a.term, b.term))
            if isinstance(op, ast.NotEq):
                return self.mkbool("%s ≠ %s" % (a.term, b.term))
        if a.ty == L(F):
            if isinstance(op, ast.Lt):
                return Val("(Py.tupleLt %s %s)" % (a.term, b.term), B)
            if isinstance(op, ast.LtE):
                return Val("(Py.tupleLe %s %s)" % (a.term, b.term), B)
            if isinstance(op, ast.Eq):
                return Val("(Py.tupleEq %s %s)" % (a.term, b.term), B)
            if isinstance(op, ast.NotEq):
                return Val("(!Py.tupleEq %s %s)" % (a.term, b.term), B)
        raise Refuse("comparison %s of %r (line %d)" % (type(op).__name__, a.ty, e.lineno))

    def narrow(self, env, place, val):
        if place[0] == "var":
            old = env.vars.get(place[1])
            env.vars[place[1]] = val
            # `v = obj.attr` … `v is None`: the attribute holds the same value as long as it was not re-assigned
            if isinstance(old, Val) and old.alias is not None:
                cur = env.heap[old.alias[1]].fields.get(old.alias[2], UNSET)
                if isinstance(cur, Val) and cur.term == old.term:
                    env.heap[old.alias[1]].fields[old.alias[2]] = val
        else:
            env.heap[place[1]].fields[place[2]] = val

    def place_of(self, e, env):
        """a variable or an object attribute holding an optional value: (place, current Val) or None"""
        sub = []
        try:
            v = self.expr(e, env, sub)
        except Refuse:
            return None
        if sub or not isinstance(v, Val) or v.ty[0] != "OPT":
            return None
        if isinstance(e, ast.Name):
            return ("var", e.id), v
        if v.place is not None:
            return v.place, v
        return None

    def e_BoolOp(self, e, env, pre):
        return self.boolop(list(e.values), isinstance(e.op, ast.And), env, pre, True)

    def boolop(self, values, is_and, env, pre, first):
        head = values[0]
        sub = pre if first else []
        if is_and and len(values) > 1:
            t = self.is_none_test(head)
            if t is not None and not t[1]:
                pl = self.place_of(t[0], env)
                if pl is not None:
                    n = self.fresh("nn")
                    env2 = env.copy()
                    self.narrow(env2, pl[0], Val(n, pl[1].ty[1]))
                    rest = self.boolop(values[1:], is_and, env2, pre, False)
                    return Val("(match %s with | none => false | some %s => %s)" % (pl[1].term, n, rest.term), B)
        v = self.value(head, env, sub)
        if not first and sub:
            raise Refuse("and / or with a later operand that needs evaluation order")
        if v.ty != B:
            raise Refuse("and / or on a non-bool operand (%r)" % (v.ty,))
        if len(values) == 1:
            return v
        rest = self.boolop(values[1:], is_and, env, pre, False)
        if v.const is not None:
            if is_and:
                return rest if v.const else self.const(False)
            return self.const(True) if v.const else rest
        return Val("(%s %s %s)" % (v.term, "&&" if is_and else "||", rest.term), B)

    def e_IfExp(self, e, env, pre):
        c = self.value(e.test, env, pre)
        sa, sb = [], []
        a = self.value(e.body, env, sa)
        b = self.value(e.orelse, env, sb)
        if sa or sb:
            raise Refuse("conditional expression whose branches need evaluation order")
        a, b = self.unify(a, b)
        if c.const is not None:
            return a if c.const else b
        return Val("(if %s then %s else %s)" % (self.cond_prop(c), a.term, b.term), a.ty)

    def e_Subscript(self, e, env, pre):
        v = self.value(e.value, env, pre)
        if isinstance(e.slice, ast.Slice):
            raise Refuse("literal slice (line %d)" % e.lineno)
        i = self.value(e.slice, env, pre)
        if v.ty[0] == "L" and v.ty[1] is not None and i.ty == SL:
            return Val("(Gen01.sliceObj %s %s)" % (i.term, v.term), v.ty)
        raise Refuse("subscript of %r by %r (line %d)" % (v.ty, i.ty, e.lineno))

    def bind_target(self, target, term, ty, env):
        names = []
        if isinstance(target, ast.Name):
            env.vars[target.id] = Val(term, ty)
            return [target.id]
        if isinstance(target, ast.Tuple) and ty[0] == "T" and len(target.elts) == len(ty) - 1 \
                and all(isinstance(x, ast.Name) for x in target.elts):
            n = len(target.elts)
            for k, x in enumerate(target.elts):
                proj = term + "".join([".2"] * k) + (".1" if k < n - 1 else "")
                env.vars[x.id] = Val(proj, ty[1 + k])
                names.append(x.id)
            return names
        raise Refuse("loop target (line %d)" % target.lineno)

    def comprehension(self, e, env, pre):
        if len(e.generators) != 1 or e.generators[0].ifs or e.generators[0].is_async:
            raise Refuse("comprehension with several `for`s or an `if` (line %d)" % e.lineno)
        g = e.generators[0]
        src = self.iterable(g.iter, env, pre)
        p = self.fresh("p")
        inner = env.copy()
        self.bind_target(g.target, p, src.ty[1], inner)
        sub = []
        body = self.value(e.elt, inner, sub)
        if sub:
            raise Refuse("comprehension element that needs evaluation order / can raise")
        if body.ty[0] in ("L", "OPT", "NONE") or body.ty == B:
            raise Refuse("comprehension of %r" % (body.ty,))
        return Val("(List.map (fun (%s : %s) => %s) %s)" % (p, lean_type(src.ty[1]), body.term, src.term), L(body.ty))

    e_GeneratorExp = comprehension
    e_ListComp = comprehension

    def iterable(self, e, env, pre):
        v = self.value(e, env, pre)
        if v.ty[0] != "L" or v.ty[1] is None:
            raise Refuse("iteration over %r (line %d)" % (v.ty, e.lineno))
        return v

    BINFUN = {("operator", "mul"): "*", ("operator", "truediv"): "/", ("operator", "sub"): "-"}

    def global_fun(self, name):
        g = self.m.globals.get(name)
        if g is None:
            return None
        if g == ("op", "mul"):
            return ("operator", "mul")
        if g[0] == "other":
            return (g[1], g[2])
        return g

    def e_Call(self, e, env, pre):
        if e.keywords:
            return self.call_special(e, env, pre)
        if any(isinstance(a, ast.Starred) for a in e.args):
            return self.call_special(e, env, pre)
        f = e.func
        n = len(e.args)
        if isinstance(f, ast.Name) and f.id not in env.vars:
            g = self.global_fun(f.id)
            name = f.id
            if g is None:
                if name == "len" and n == 1:
                    a = self.value(e.args[0], env, pre)
                    if a.ty[0] != "L":
                        raise Refuse("len of %r" % (a.ty,))
                    if a.ty == EMPTY:
                        return Val("(0 : Int)", I, lit=0)
                    return Val("(%s.length : Int)" % a.term, I)
                if name in ("tuple", "list") and n == 1:
                    a = self.value(e.args[0], env, pre)
                    if a.ty[0] != "L":
                        raise Refuse("%s of %r" % (name, a.ty))
                    return a
                if name == "map" and n == 3 and isinstance(e.args[0], ast.Name) and e.args[0].id not in env.vars \
                        and self.global_fun(e.args[0].id) in self.BINFUN:
                    sym = self.BINFUN[self.global_fun(e.args[0].id)]
                    a = self.iterable(e.args[1], env, pre)
                    b = self.iterable(e.args[2], env, pre)
                    if a.ty != L(F) or b.ty != L(F):
                        raise Refuse("map(%s) over %r, %r" % (e.args[0].id, a.ty, b.ty))
                    return Val("(List.zipWith (fun a b => a %s b) %s %s)" % (sym, a.term, b.term), L(F))
                if name == "zip" and n in (2, 3):
                    return self.zip_call(e, env, pre)
                if name == "sum" and n == 1:
                    a = self.value(e.args[0], env, pre)
                    if a.ty == L(I):
                        return Val("(Gen01.isum %s)" % a.term, I)
                    raise Refuse("sum of %r (line %d)" % (a.ty, e.lineno))
                if name == "hash" and n == 1:
                    a = self.value(e.args[0], env, pre)
                    if a.ty != L(F):
                        raise Refuse("hash of %r" % (a.ty,))
                    return Val("(pyhash %s)" % a.term, HASH)
                if name == "bool" and n == 1:
                    a = self.value(e.args[0], env, pre)
                    if a.ty != B:
                        raise Refuse("bool of %r" % (a.ty,))
                    return a
                if name == "isinstance" and n == 2 and isinstance(e.args[1], ast.Name) \
                        and e.args[1].id in self.sequence_names and e.args[1].id not in env.vars:
                    a = self.value(e.args[0], env, pre)
                    if a.ty[0] == "L":
                        return self.const(True)
                    raise Refuse("isinstance(x, Sequence) for x of type %r" % (a.ty,))
                if name == "slice" and n == 1 and isinstance(e.args[0], ast.Constant) and e.args[0].value is None:
                    return Val("Gen01.PySlice.all", SL)
                return self.call_special(e, env, pre)
            if g in (("copy", "deepcopy"),) and n in (1, 2):
                a = self.value(e.args[0], env, pre)
                if n == 2:
                    mm = self.value(e.args[1], env, pre)
                    if mm.ty != OPAQUE:
                        raise Refuse("deepcopy with a memo that is not the opaque parameter")
                return a
            if g[0] == "func":
                args = [self.expr(a, env, pre) for a in e.args]
                return self.call_def(None, None, g[1], None, args, env, pre, via=None)
            if g[0] == "class" and f.id in self.classes:
                raise Refuse("instantiation of the named class %s (only self.__class__() is rendered)" % f.id)
            return self.call_special(e, env, pre)
        callee = self.expr(f, env, pre)
        if isinstance(callee, Bound):
            args = [self.expr(a, env, pre) for a in e.args]
            obj = callee.obj
            if obj is None:
                if not args or not isinstance(args[0], ObjRef):
                    raise Refuse("K.m(x, …) with x not an object")
                obj, args = args[0], args[1:]
            D = env.heap[obj.oid].cls
            if callee.K not in self.mro(D):
                raise Refuse("%s.%s on an object of class %s" % (callee.K, callee.fn.name, D))
            return self.call_def(D, callee.K, callee.fn, obj, args, env, pre, via=callee.via)
        if isinstance(callee, ClassRef) and callee.obj is not None:
            args = [self.expr(a, env, pre) for a in e.args]
            return self.instantiate(callee.name, callee.obj, args, env, pre)
        return self.call_value(callee, e, env, pre)

    def call_special(self, e, env, pre):
        raise Refuse("call %s (line %d)" % (ast.dump(e.func)[:50], e.lineno))

    def call_value(self, callee, e, env, pre):
        raise Refuse("call of a value (line %d)" % e.lineno)

    def zip_call(self, e, env, pre):
        vs = [self.iterable(a, env, pre) for a in e.args]
        if len(vs) == 2:
            return Val("(List.zip %s %s)" % (vs[0].term, vs[1].term), L(TUP(vs[0].ty[1], vs[1].ty[1])))
        return Val("(Gen01.zip3 %s %s %s)" % tuple(v.term for v in vs), L(TUP(*[v.ty[1] for v in vs])))

    # ---- objects and calls between definitions ---------------------------------------------------
    def instantiate(self, D, creator, args, env, pre):
        crec = env.heap[creator.oid]
        fields = {}
        for a, t, c in self.declared(D):
            fields[a] = crec.fields.get(a, UNSET) if c else UNSET
        oid = self.fresh("obj")
        env.heap[oid] = Rec(D, fields, "local")
        env.heap[oid].initial = {}
        ref = ObjRef(oid)
        r = self.resolve(D, "__init__")
        if r is None:
            if args:
                raise Refuse("arguments for a class without __init__")
            return ref
        if r[0] != "method":
            raise Refuse("__init__ is not a method")
        self.call_def(D, r[1], r[2], ref, args, env, pre, via=None, creating=True)
        return ref

    def def_key(self, D, K, fn, via):
        return (D, K, fn.name, via)

    def def_name(self, D, K, fn, via):
        short = self.cfg["short"]
        if D is None:
            return fn.name
        if via is not None:
            r = self.resolve(D, fn.name)
            if not (r is not None and r[0] == "method" and r[1] == K):
                return "%s_super_%s_%s" % (short.get(D, D), short.get(K, K), fn.name)
        return "%s_%s" % (short.get(D, D), fn.name)

    def get_def(self, D, K, fn, via):
        key = (D, K, fn.name, self.def_name(D, K, fn, via))
        if key in self.defs:
            d = self.defs[key]
            if d is None:
                raise Refuse("recursion through %s" % fn.name)
            if isinstance(d, Refuse):
                raise d
            return d
        self.defs[key] = None
        saved, self.counter = self.counter, 0
        try:
            d = self.translate_def(D, K, fn, key[3])
        except Refuse as r:
            self.defs[key] = Refuse("%s: %s" % (key[3], r)) if not str(r).startswith(key[3]) else r
            raise self.defs[key]
        finally:
            self.counter = saved
        self.defs[key] = d
        self.order.append(d)
        return d

    def call_def(self, D, K, fn, selfobj, args, env, pre, via, creating=False):
        # a parameter without a declared type takes the type of the argument of the first call that is translated
        names = [a.arg for a in fn.args.args][(1 if selfobj is not None else 0):]
        hint = self.hints.setdefault((K, fn.name), {})
        for pn, a in zip(names, args):
            if pn not in hint:
                if isinstance(a, ObjRef):
                    hint[pn] = OBJ(env.heap[a.oid].cls)
                elif isinstance(a, Val) and a.ty not in (NONE, EMPTY):
                    hint[pn] = a.ty
        d = self.get_def(D, K, fn, via)
        params = d.params
        actual = {}
        pos = list(args)
        if selfobj is not None:
            actual[params[0]] = selfobj
            rest = params[1:]
        else:
            rest = params
        if len(pos) > len(rest):
            raise Refuse("too many arguments for %s" % d.name)
        for p, a in zip(rest, pos):
            actual[p] = a
        ndef = len(fn.args.defaults)
        dflt = dict(zip(params[len(params) - ndef:], fn.args.defaults))
        for p in rest[len(pos):]:
            if p not in dflt:
                raise Refuse("missing argument %s of %s" % (p, d.name))
            sub = []
            actual[p] = self.value(dflt[p], Env(), sub)
            if sub:
                raise Refuse("default that needs evaluation")
        terms = []
        for b in d.binders:
            if b[0] == "hash":
                terms.append("pyhash")
            elif b[0] == "param":
                terms.append(self.coerce(actual[b[1]], b[2]).term)
            else:
                o = actual[b[1]]
                if not isinstance(o, ObjRef):
                    raise Refuse("argument %s of %s must be an object" % (b[1], d.name))
                v = self.read_attr(o, b[2], env, pre)
                terms.append(self.coerce(v, b[3]).term)
        for p in params:
            t = d.ptypes[p]
            if t[0] == "OBJ":
                o = actual[p]
                if not isinstance(o, ObjRef) or t[1] not in self.mro(env.heap[o.oid].cls):
                    raise Refuse("argument %s of %s is not an object of class %s" % (p, d.name, t[1]))
        term = "(%s.%s%s)" % (self.cfg["ns"], d.name, "".join(" " + t for t in terms))
        if d.kind == "value":
            if d.partial:
                n = self.fresh("r")
                pre.append(("bind", n, term))
                return Val(n, d.ret_ty)
            return Val(term, d.ret_ty, prop=None)
        n = self.fresh("st")
        if d.kind == "state" and not d.mutated and not d.partial:
            return Val("none", NONE)
        pre.append(("bind" if d.partial else "let", n, term))
        if d.kind == "state":
            rec = env.heap[selfobj.oid]
            if rec.origin not in ("self", "local"):
                raise Refuse("%s changes an object that is neither self nor created here" % d.name)
            self.load_state(rec, D, n, d.mutated)
            return Val("none", NONE)
        oid = self.fresh("obj")
        src = env.heap[selfobj.oid] if selfobj is not None else None
        fields = {}
        for a, t, c in self.declared(d.obj_cls):
            fields[a] = src.fields.get(a, UNSET) if (c and src is not None) else UNSET
        env.heap[oid] = Rec(d.obj_cls, fields, "local")
        self.load_state(env.heap[oid], d.obj_cls, n)
        return ObjRef(oid)

    def load_state(self, rec, D, n, fs=None):
        fs = self.fields(D) if fs is None else fs
        for k, (a, t) in enumerate(fs):
            if len(fs) == 1:
                rec.fields[a] = Val(n, t)
            else:
                rec.fields[a] = Val(n + "".join([".2"] * k) + (".1" if k < len(fs) - 1 else ""), t)

    def state_term(self, rec, env, fs=None):
        out = []
        for a, t in (self.fields(rec.cls) if fs is None else fs):
            v = rec.fields.get(a, UNSET)
            if v is UNSET:
                r = self.resolve(rec.cls, a)
                if r is None or r[0] != "attr":
                    raise Refuse("the field .%s of the resulting object is never assigned" % a)
                v = self.value(r[2], Env(), [])
            out.append(self.coerce(v, t).term)
        if not out:
            return "()"
        return out[0] if len(out) == 1 else "(%s)" % ", ".join(out)

    # ---- statements ----------------------------------------------------------------------------
    def wrap(self, pre, ir):
        for kind, n, t in reversed(pre):
            ir = (kind, n, t, ir)
        return ir

    def fall_off(self, env, ctx):
        if ctx.get("loop") is not None:
            return ("next", self.loop_state(env, ctx))
        return self.do_return(None, env, ctx)

    def loop_state(self, env, ctx):
        ts = []
        for nm, ty in ctx["loop"]:
            v = env.vars.get(nm)
            if not isinstance(v, Val):
                raise Refuse("loop variable %s lost" % nm)
            ts.append(self.coerce(v, ty).term)
        if not ts:
            return "()"
        return ts[0] if len(ts) == 1 else "(%s)" % ", ".join(ts)

    def do_return(self, v, env, ctx):
        d = ctx["def"]
        selfrec = env.heap.get("self")
        if v is None or (isinstance(v, Val) and v.ty == NONE and ctx["kind_hint"] == "state"):
            if ctx["kind_hint"] != "state":
                raise Refuse("a path returns None in a function that returns a value")
            if selfrec is None:
                raise Refuse("a function without self that returns nothing")
            changed = [a for a, t in self.fields(selfrec.cls) if selfrec.fields.get(a, UNSET) is not selfrec.initial.get(a, UNSET)]
            if d.mutated is None:           # first pass: collect the fields some path assigns
                for a in changed:
                    ctx["collect"].add(a)
                d.kind = "state"
                return ("ret", "()")
            fs = d.mutated
            ty = ("UNIT",) if not fs else (fs[0][1] if len(fs) == 1 else TUP(*[t for _, t in fs]))
            self.set_kind(d, "state", ty, None)
            return ("ret", self.state_term(selfrec, env, fs))
        if selfrec is not None:
            for a, val in selfrec.fields.items():
                if selfrec.initial.get(a) is not val:
                    raise Refuse("returns a value and changes self.%s" % a)
        if isinstance(v, ObjRef):
            rec = env.heap[v.oid]
            self.set_kind(d, "object", self.state_type(rec.cls), rec.cls)
            return ("ret", self.state_term(rec, env))
        if not isinstance(v, Val):
            raise Refuse("returns a function / class")
        if v.ty in (NONE, EMPTY, OPAQUE):
            raise Refuse("returns a value of type %r" % (v.ty,))
        if d.ret_ty is not None and d.kind == "value" and d.ret_ty != v.ty:
            v = self.coerce(v, d.ret_ty)
        self.set_kind(d, "value", v.ty, None)
        return ("ret", v.term)

    def set_kind(self, d, kind, ty, cls):
        if d.kind is None:
            d.kind, d.ret_ty, d.obj_cls = kind, ty, cls
        elif (d.kind, d.ret_ty, d.obj_cls) != (kind, ty, cls):
            raise Refuse("the returns of %s have different types (%r / %r)" % (d.name, d.ret_ty, ty))

    def block(self, stmts, env, ctx):
        if not stmts:
            return self.fall_off(env, ctx)
        st, rest = stmts[0], list(stmts[1:])
        pre = []
        inloop = ctx.get("loop") is not None
        if isinstance(st, ast.Pass) or (isinstance(st, ast.Expr) and isinstance(st.value, ast.Constant)
                                        and isinstance(st.value.value, str)):
            return self.block(rest, env, ctx)
        if isinstance(st, ast.Return):
            v = None if st.value is None else self.expr(st.value, env, pre)
            return self.wrap(pre, self.do_return(v, env, ctx))
        if isinstance(st, ast.Raise):
            return ("raise",)
        if isinstance(st, ast.Continue) and inloop:
            return ("next", self.loop_state(env, ctx))
        if isinstance(st, ast.Assert):
            c = self.value(st.test, env, pre)
            if c.const is True:
                return self.wrap(pre, self.block(rest, env, ctx))
            if c.const is False:
                return self.wrap(pre, ("raise",))
            return self.wrap(pre, ("if", self.cond_prop(c), self.block(rest, env, ctx), ("raise",)))
        if isinstance(st, ast.If):
            t = self.is_none_test(st.test)
            if t is not None:
                pl = self.place_of(t[0], env)
                if pl is not None:
                    n = self.fresh("nn")
                    e_none, e_some = env.copy(), env.copy()
                    self.narrow(e_none, pl[0], Val("none", NONE))
                    self.narrow(e_some, pl[0], Val(n, pl[1].ty[1]))
                    b_none, b_some = (st.body, st.orelse) if t[1] else (st.orelse, st.body)
                    a = self.block(list(b_none) + rest, e_none, ctx)
                    b = self.block(list(b_some) + rest, e_some, ctx)
                    return ("matchopt", pl[1].term, n, a, b)
            c = self.value(st.test, env, pre)
            if c.const is not None:
                return self.wrap(pre, self.block(list(st.body if c.const else st.orelse) + rest, env, ctx))
            a = self.block(list(st.body) + rest, env.copy(), ctx)
            b = self.block(list(st.orelse) + rest, env.copy(), ctx)
            return self.wrap(pre, ("if", self.cond_prop(c), a, b))
        if isinstance(st, ast.Try):
            if st.orelse or st.finalbody or not st.handlers:
                raise Refuse("try with else / finally (line %d)" % st.lineno)
            for h in st.handlers:
                if not h.body or not isinstance(h.body[-1], ast.Raise):
                    raise Refuse("an except handler that does not end in raise (line %d)" % h.lineno)
                for x in h.body[:-1]:
                    if not (isinstance(x, ast.Assign) and all(isinstance(n, ast.Name) for t in x.targets for n in ast.walk(t)
                                                              if isinstance(n, (ast.Name, ast.Attribute, ast.Subscript)))):
                        raise Refuse("an except handler with a statement other than a local assignment (line %d)" % x.lineno)
            return self.block(list(st.body) + rest, env, ctx)
        if isinstance(st, ast.For):
            return self.for_loop(st, rest, env, ctx)
        if inloop and not isinstance(st, ast.Assign):
            raise Refuse("statement %s in a loop body (line %d)" % (type(st).__name__, st.lineno))
        if isinstance(st, ast.Assign):
            if len(st.targets) != 1:
                raise Refuse("chained assignment (line %d)" % st.lineno)
            tg = st.targets[0]
            if isinstance(tg, ast.Name):
                v = self.expr(st.value, env, pre)
                if inloop:
                    names = [n for n, _ in ctx["loop"]]
                    if tg.id not in names or not isinstance(v, Val):
                        raise Refuse("a loop body may only assign its declared state (line %d)" % st.lineno)
                    ty = dict(ctx["loop"])[tg.id]
                    v = self.coerce(v, ty)
                if isinstance(v, Val):
                    if v.ty == OPAQUE:
                        raise Refuse("assignment of the opaque parameter")
                    if v.ty[0] == "OPT" and v.place is not None and v.place[0] == "attr" and not inloop:
                        env.vars[tg.id] = Val(v.term, v.ty, alias=v.place)
                    elif v.ty in (NONE, EMPTY) or v.const is not None or v.lit is not None:
                        env.vars[tg.id] = v
                    else:
                        n = self.fresh("v_" + tg.id)
                        pre.append(("let", n, v.term))
                        env.vars[tg.id] = Val(n, v.ty)
                else:
                    if not isinstance(v, ObjRef):
                        raise Refuse("a function / class stored in a variable (line %d)" % st.lineno)
                    env.vars[tg.id] = v
                return self.wrap(pre, self.block(rest, env, ctx))
            if isinstance(tg, ast.Attribute):
                o = self.expr(tg.value, env, pre)
                if not isinstance(o, ObjRef):
                    raise Refuse("attribute assignment on a non-object (line %d)" % st.lineno)
                rec = env.heap[o.oid]
                if rec.origin not in ("self", "local"):
                    raise Refuse("assignment to an attribute of an object that is neither self nor created here")
                r = self.resolve(rec.cls, tg.attr)
                if r is not None and r[0] == "prop":
                    s = r[2]["set"]
                    if s is None:
                        raise Refuse("property %s has no setter" % tg.attr)
                    v = self.expr(st.value, env, pre)
                    self.call_def(rec.cls, s[0], s[1], o, [v], env, pre, via=None)
                    return self.wrap(pre, self.block(rest, env, ctx))
                decl = {a: t for a, t in self.fields(rec.cls)}
                if tg.attr not in decl:
                    raise Refuse("assignment to .%s, which is outside the declared state of %s (line %d)"
                                 % (tg.attr, rec.cls, st.lineno))
                v = self.coerce(self.value(st.value, env, pre), decl[tg.attr])
                n = self.fresh("%s_%s" % (rec.label, tg.attr))
                pre.append(("let", n, v.term))
                rec.fields[tg.attr] = Val(n, v.ty)
                return self.wrap(pre, self.block(rest, env, ctx))
            if isinstance(tg, ast.Tuple) and all(isinstance(x, ast.Name) for x in tg.elts) and not inloop:
                v = self.value(st.value, env, pre)
                if v.ty[0] != "T" or len(v.ty) - 1 != len(tg.elts):
                    raise Refuse("tuple assignment from %r (line %d)" % (v.ty, st.lineno))
                n = self.fresh("v_t")
                pre.append(("let", n, v.term))
                self.bind_target(tg, n, v.ty, env)
                return self.wrap(pre, self.block(rest, env, ctx))
            raise Refuse("assignment target (line %d)" % st.lineno)
        if isinstance(st, ast.Delete):
            if len(st.targets) == 1 and isinstance(st.targets[0], ast.Attribute):
                tg = st.targets[0]
                o = self.expr(tg.value, env, pre)
                if isinstance(o, ObjRef):
                    rec = env.heap[o.oid]
                    r = self.resolve(rec.cls, tg.attr)
                    if r is not None and r[0] == "prop" and r[2]["delete"] is not None:
                        dl = r[2]["delete"]
                        self.call_def(rec.cls, dl[0], dl[1], o, [], env, pre, via=None)
                        return self.wrap(pre, self.block(rest, env, ctx))
            raise Refuse("del (line %d)" % st.lineno)
        if isinstance(st, ast.Expr) and isinstance(st.value, ast.Call):
            v = self.expr(st.value, env, pre)
            if not (isinstance(v, Val) and v.ty == NONE):
                raise Refuse("a call statement whose result is dropped (line %d)" % st.lineno)
            return self.wrap(pre, self.block(rest, env, ctx))
        raise Refuse("statement %s (line %d)" % (type(st).__name__, st.lineno))

    def for_loop(self, st, rest, env, ctx):
        if st.orelse:
            raise Refuse("for / else")
        if ctx.get("loop") is not None:
            raise Refuse("nested loop")
        pre = []
        src = self.iterable(st.iter, env, pre)
        assigned = []
        for node in ast.walk(ast.Module(body=st.body, type_ignores=[])):
            if isinstance(node, (ast.For, ast.While, ast.Break, ast.Try, ast.With, ast.FunctionDef, ast.Lambda, ast.Raise,
                                 ast.Assert, ast.Delete, ast.AugAssign)):
                raise Refuse("%s inside a loop body" % type(node).__name__)
            if isinstance(node, ast.Assign):
                for t in node.targets:
                    if not isinstance(t, ast.Name):
                        raise Refuse("a loop body that assigns something other than a local variable")
                    if t.id not in assigned:
                        assigned.append(t.id)
        state = []
        for nm in assigned:
            v = env.vars.get(nm)
            if not isinstance(v, Val) or v.ty not in (B, F, I):
                raise Refuse("the loop body assigns %s, which is not a bool / number defined before the loop" % nm)
            state.append((nm, v.ty))
        init = []
        for nm, ty in state:
            init.append(self.coerce(env.vars[nm], ty).term)
        sty = TUP(*[t for _, t in state]) if len(state) != 1 else state[0][1]
        s_in, s_out, p = self.fresh("s"), self.fresh("s"), self.fresh("p")
        inner = env.copy()
        tnames = self.bind_target(st.target, p, src.ty[1], inner)
        for tn in tnames:
            if tn in env.vars:
                raise Refuse("loop variable %s re-uses the name of a variable" % tn)

        def proj(base, k, n):
            if n == 1:
                return base
            return base + "".join([".2"] * k) + (".1" if k < n - 1 else "")
        for k, (nm, ty) in enumerate(state):
            inner.vars[nm] = Val(proj(s_in, k, len(state)), ty)
        lctx = dict(ctx)
        lctx["loop"] = state
        body = self.block(list(st.body), inner, lctx)
        if self.ir_partial(body):
            raise Refuse("a loop body that can raise")
        for k, (nm, ty) in enumerate(state):
            env.vars[nm] = Val(proj(s_out, k, len(state)), ty)
        for tn in tnames:
            env.vars[tn] = LEAKED
        after = self.block(rest, env, ctx)
        sty_s = "Unit" if not state else lean_type(sty)
        init_s = "()" if not state else (init[0] if len(init) == 1 else "(%s)" % ", ".join(init))
        return self.wrap(pre, ("for", src.term, lean_type(src.ty[1]), p, sty_s, init_s, s_in, s_out, body, after))

    # ---- IR ------------------------------------------------------------------------------------
    def ir_partial(self, ir):
        k = ir[0]
        if k in ("raise", "bind"):
            return True
        if k in ("ret", "next"):
            return False
        if k == "if":
            return self.ir_partial(ir[2]) or self.ir_partial(ir[3])
        if k == "matchopt":
            return self.ir_partial(ir[3]) or self.ir_partial(ir[4])
        if k == "let":
            return self.ir_partial(ir[3])
        if k == "for":
            return self.ir_partial(ir[8]) or self.ir_partial(ir[9])
        raise AssertionError(k)

    def render(self, ir, partial, loop_sty=None, ind=1):
        pad = "  " * ind
        k = ir[0]
        if k == "ret":
            if loop_sty is not None:
                return "(Sum.inl %s : Sum (@@RET@@) %s)" % (ir[1], atom_s(loop_sty))
            return "some %s" % ir[1] if partial else ir[1]
        if k == "next":
            return "(Sum.inr %s : Sum (@@RET@@) %s)" % (ir[1], atom_s(loop_sty))
        if k == "raise":
            return "none"
        if k == "if":
            return "(if %s then\n%s  %s\n%selse\n%s  %s)" % (ir[1], pad, self.render(ir[2], partial, loop_sty, ind + 1), pad, pad,
                                                          self.render(ir[3], partial, loop_sty, ind + 1))
        if k == "matchopt":
            return "(match %s with\n%s| none => %s\n%s| some %s => %s)" % (
                ir[1], pad, self.render(ir[3], partial, loop_sty, ind + 1), pad, ir[2],
                self.render(ir[4], partial, loop_sty, ind + 1))
        if k == "let":
            return "(let %s := %s;\n%s%s)" % (ir[1], ir[2], pad, self.render(ir[3], partial, loop_sty, ind))
        if k == "bind":
            return "(Option.bind %s fun %s =>\n%s%s)" % (ir[2], ir[1], pad, self.render(ir[3], partial, loop_sty, ind))
        if k == "for":
            _, src, ety, p, sty, init, s_in, s_out, body, after = ir
            b = self.render(body, False, sty, ind + 2)
            r = self.fresh("r")
            return ("(Sum.elim (fun %s => %s)\n%s  (fun %s => %s)\n%s  (Gen01.forRet (fun (%s : %s) (%s : %s) =>\n%s    %s)\n%s  %s %s))"
                    % (r, ("some %s" % r) if partial else r, pad, s_out, self.render(after, partial, loop_sty, ind + 1), pad,
                       s_in, sty, p, ety, pad, b, pad, src, init))
        raise AssertionError(k)

    # ---- definitions ---------------------------------------------------------------------------
    def param_type(self, K, fn, p):
        sig = self.cfg["sigs"].get((K, fn.name), {})
        if p in sig:
            return sig[p]
        if p in self.cfg["default_sig"]:
            return self.cfg["default_sig"][p]
        if p in self.hints.get((K, fn.name), {}):
            return self.hints[(K, fn.name)][p]
        raise Refuse("no declared type for parameter %s of %s" % (p, fn.name))

    def translate_def(self, D, K, fn, name):
        if fn.args.vararg or fn.args.kwarg or fn.args.kwonlyargs or fn.args.posonlyargs:
            raise Refuse("*args / keyword-only parameters")
        for node in ast.walk(fn):
            if node is not fn and isinstance(node, (ast.FunctionDef, ast.Lambda, ast.While, ast.With, ast.Global,
                                                    ast.Nonlocal, ast.Yield, ast.YieldFrom, ast.Await)):
                raise Refuse("%s (line %d)" % (type(node).__name__, node.lineno))
        d = Def(name)
        d.fn, d.lineno = fn, fn.lineno
        d.params = [a.arg for a in fn.args.args]
        d.ptypes = {}
        valued = [n for n in ast.walk(fn) if isinstance(n, ast.Return) and n.value is not None
                  and not (isinstance(n.value, ast.Constant) and n.value.value is None)]

        def setup():
            env = Env()
            cands = []      # (binder name, entry)
            for k, p in enumerate(d.params):
                if k == 0 and D is not None:
                    ty = OBJ(D)
                else:
                    ty = self.param_type(K, fn, p)
                    if ty == ("OBJ", "SELF"):
                        ty = OBJ(D)
                d.ptypes[p] = ty
                if ty[0] == "OBJ":
                    fields = {}
                    over = self.cfg["attr_types"].get((K, fn.name), {}) if (k == 0 and D is not None) else {}
                    for a, t, c in self.declared(ty[1]):
                        t = over.get(a, t)
                        bn = "%s_%s" % (p, self.cfg.get("attr_short", {}).get(a, a))
                        fields[a] = Val(bn, t)
                        cands.append((bn, ("attr", p, a, t)))
                    oid = "self" if (k == 0 and D is not None) else "obj_param_%d" % k
                    rec = Rec(ty[1], fields, "self" if oid == "self" else "param")
                    rec.label = p
                    env.heap[oid] = rec
                    env.vars[p] = ObjRef(oid)
                elif ty == OPAQUE:
                    env.vars[p] = Val("<opaque %s>" % p, OPAQUE)
                else:
                    env.vars[p] = Val(p + "_", ty)
                    cands.append((p + "_", ("param", p, ty)))
            return env, cands

        ctx = dict(kind_hint="value" if valued else "state", loop=None, collect=set())
        ctx["def"] = d
        if not valued:
            env, cands = setup()
            self.counter = 0
            self.block(list(fn.body), env, ctx)
            d.mutated = [(a, t) for a, t in self.fields(D) if a in ctx["collect"]]
            d.kind = None
        env, cands = setup()
        self.counter = 0
        ir = self.block(list(fn.body), env, ctx)
        d.partial = self.ir_partial(ir)
        body = self.render(ir, d.partial)
        if "<opaque" in body:
            raise Refuse("the opaque parameter is used as a value")
        rt = lean_type(d.ret_ty)
        body = body.replace("@@RET@@", rt)
        d.binders = []
        bs = []
        if re.search(r"(?<![\w.])pyhash(?![\w])", body):
            d.binders.append(("hash",))
            bs.append("{H : Type} (pyhash : List α → H)")
        for bn, ent in cands:
            used = re.search(r"(?<![\w.])%s(?![\w'])" % re.escape(bn), body) is not None
            if ent[0] == "param" or used:
                d.binders.append(ent)
                bs.append("(%s : %s)" % (bn, lean_type(ent[2] if ent[0] == "param" else ent[3])))
        d.text = "def %s %s : %s :=\n  %s" % (name, " ".join(bs), ("Option %s" % atom(d.ret_ty)) if d.partial else rt, body)
        return d


def atom_s(s):
    return s if " " not in s else "(%s)" % s
