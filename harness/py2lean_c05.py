"""py2lean_c05 — translator from the imperative Python sub-language of deap/tools/emo.py (NSGA-II part) to Lean 4.

Used by the C04 / C05 checks as the TRANSLATOR TIE: the bodies of isDominated, median, splitA, splitB,
assignCrowdingDist and selNSGA2 are re-read from $DEAP_REPO's current source on every run, rendered as Lean
definitions `Gen.<f>` and the committed theorems of lean/DeapModel/GenEq/C05.lean.tmpl (`Gen.<f> … = <Model>.<f> …`)
are re-checked by the Lean kernel.  Re-uses `Module` / `Refuse` of harness/py2lean.py; the rendering itself is
different (state passing instead of the Option monad) and lives here.

THIS DOCSTRING IS THE TRANSLATOR'S TRUSTED BASE: the sub-language and the rendering rules.  Everything that is not
listed is REFUSED (`Refuse`), never guessed.  The Lean helpers are lean/DeapModel/Core/GenPreludeC05.lean (`Gen5.*`),
`Gen.slice` of Core/GenPrelude.lean and the Python built-ins already modelled in Core/NDSort.lean / Core/Crowding.lean
(`NDSort.pySortedBy` = sorted/list.sort with a key, `Crowding.Dist` = a float that may be +inf, `Crowding.values`).

Value types   float -> the scalar `α` of the models (an ORDERED-FIELD scalar: nan and ±inf are OUTSIDE the rendering,
                       so `x != x` is false and no operation overflows; the one place where the source stores
                       float("inf") is typed E below);
              E     -> `Crowding.Dist α` = `Option α`, `none` = float("inf"); `E += float` is `Dist.add` (inf + x = inf),
                       `E < E` is `Dist.lt`;  a local is E only when the caller's table says so;
              len(), range() counters, enumerate() indices, non-negative int literals -> `Nat` (type N);
              other ints (parameters declared int, every subtraction, negative literals) -> `Int` (type I); N is coerced
              to I where they meet; a float meets an N as `((n : Nat) : α)`;
              True / False -> `Bool`; comparisons -> decidable `Prop` (only as conditions);  str -> `String` (only ==);
              list / tuple-used-as-sequence -> `List`;  a fixed-arity tuple (zip / enumerate / display element, tuple
              return) -> right-nested product, `t[k]` with a literal k -> projection;
              a function-valued parameter (`key`) / itemgetter(n) / attrgetter / lambda -> Lean function;
              an element of unknown type (median's `seq`) -> an abstract inhabited type `β`.
Parameter and local types come from the caller's signature table (an assumption of the tie, like ASSUMPTIONS).
Objects       an INDIVIDUAL is rendered by what the function reads and writes of it:
              * in assignCrowdingDist the list `individuals` is the list of the individuals' `fitness.values`
                (`List (List α)`; `ind.fitness.values` -> the element itself) and the attribute WRITE
                `individuals[i].fitness.crowding_dist = v` is the update of slot i of the vector `a_cd` of that attribute by
                POSITION in the list (`a_cd.set i v`); the function takes the vector before the call and returns it after
                the call (state passing).  Assumption: the individuals of the list are distinct objects.
              * in selNSGA2 an individual is `NDSort.Ind α` (identity + weighted values), `fitness.values` is
                `Crowding.values weights ind` (weights: extra parameter, the class attribute), and the attribute
                `fitness.crowding_dist` of all individuals is a store `Gen5.Store α` keyed by the individual, later writes
                override earlier ones; the statement call `assignCrowdingDist(front)` is
                `a_cd := Gen5.storeAttr a_cd front (Gen.assignCrowdingDist (front.map values) (front.map (loadAttr a_cd)))`
                i.e. the callee's positional writes replayed on the store in order; attrgetter("fitness.crowding_dist") is
                `Gen5.loadAttr a_cd` read at the time of the sort.
Randomness    none of the translated functions draws (a call into `random` is refused).
Mutation      `x[i] = v` -> `x := x.set i v`; `x[i] += v`; `x.append(v)` -> `x ++ [v]`; `x.extend(y)` -> `x ++ y`;
              `x.sort(key=f)` -> `x := NDSort.pySortedBy f x`; only on LOCAL lists (a mutated parameter list is refused;
              numpy views are outside the rendering).
Statements    `v = e`; `a, b = e1, e2`; `v op= e`; `if/elif/else` (the rest of the block is duplicated into both branches);
              `return e` / `return a, b` / bare `return` / falling off the end (functions with an attribute store return the
              store, `return chosen` + store -> the pair); `raise …` -> `none` (then the result type is `Option _`);
              `continue` (ends the loop body with the current loop-carried variables);
              `for t in seq: body` -> `List.foldl (fun st p => body) st0 seq`, `st` = the tuple of the outer variables the
              body assigns or mutates in ALPHABETICAL order of their names (a single variable is not tupled), target tuples
              are projections of `p`; a body containing `return` -> `Gen5.forE` (`Step.ret r` / `Step.next st`), the code
              after the loop runs on `next`.  A loop variable re-using a live name, `break`, `while`, `for/else` are refused.
Expressions   + - * on N/I/F (N - x is computed in Int), `/` on floats (ZeroDivisionError not rendered: the field's
              x / 0), `//` and `%` by a positive literal (`Int./`, `Nat./`, `%`: floor = Euclidean there), unary -,
              comparisons < > <= >= == != (one operator; `a > b` is `b < a`), `a if c else b`, `not c`,
              x[i] (N index -> `getD i default`, I index -> `Gen5.item`; IndexError NOT rendered: `default`),
              x[lo:hi] -> `Gen.slice` (CPython's bound adjustment), [e] * n -> `List.replicate`,
              [e for t in seq] -> `List.map`, [x for a in seq for x in a] and list(chain(*seq)) -> `List.flatten`,
              (a, b) display -> product, len, abs (of an int -> `Int.natAbs`), float(x) of a float -> x,
              float("inf") -> `none : Dist`, zip (2 / 3 arguments), enumerate, range(n), list(x),
              sorted(x, key=f) -> `NDSort.pySortedBy f x`, sorted(x, key=f, reverse=True) -> `Gen5.sortedByDesc`
              (stable: equal keys keep their order), key(x) of a function parameter, a call of a translated function of
              the same module -> `Gen.<g> args` (NOT inlined; a default argument `key=identity` is filled in), a call of a
              function given as a parameter by the table (the two sorters of selNSGA2, result `Option`: bound).
REFUSED, e.g. while, try, with, del, break, classes, decorators, global, *args, dict / set / defaultdict operations, bisect,
              iter / next, recursion, list.insert, slices with a step, string operations other than ==, any call not listed.
"""
import ast

from py2lean import Module, Refuse  # noqa: F401  (Module re-exported)

F, E, N, I, BOOL, P, S, IND, X = "F", "E", "N", "I", "BOOL", "P", "S", "IND", "X"


def L(t):
    return ("L", t)


def TUP(*ts):
    return ("T",) + tuple(ts)


def FN(a, r):
    return ("FN", a, r)


def lean_type(t):
    if t == F:
        return "α"
    if t == E:
        return "Crowding.Dist α"
    if t == N:
        return "Nat"
    if t == I:
        return "Int"
    if t == BOOL:
        return "Bool"
    if t == S:
        return "String"
    if t == IND:
        return "NDSort.Ind α"
    if t == X:
        return "β"
    if t[0] == "L":
        return "List (%s)" % lean_type(t[1])
    if t[0] == "T":
        return " × ".join("(%s)" % lean_type(x) for x in t[1:])
    if t[0] == "FN":
        return "(%s) → (%s)" % (lean_type(t[1]), lean_type(t[2]))
    if t[0] == "OPT":
        return "Option (%s)" % lean_type(t[1])
    if t[0] == "ASSOC":
        return "Gen5.Store α"
    raise Refuse("no Lean type for %r" % (t,))


def proj(term, k, n):
    """k-th component of a right-nested n-tuple"""
    s = term + ".2" * k
    return s if k == n - 1 else s + ".1"


class Fun:
    """one function of the module"""
    def __init__(self, tr, fn, spec):
        self.tr, self.fn, self.spec = tr, fn, spec
        self.store = spec.get("store")            # None | "vector" | "assoc"
        self.partial = any(isinstance(n, ast.Raise) for n in ast.walk(fn)) or bool(spec.get("partial"))
        self.ret_ty = None
        self.cnt = 0
        self.in_loop_ret = False

    def fresh(self, b):
        self.cnt += 1
        return "%s%d" % (b, self.cnt)

    # ---------------------------------------------------------------- expressions
    def coerce(self, v, ty):
        t, vt = v
        if vt == ty:
            return v
        if vt == N and ty == I:
            return ("(%s : Int)" % t, I)
        if vt in (N,) and ty == F:
            return ("((%s : Nat) : α)" % t, F)
        if vt == F and ty == E:
            return ("(some %s : Crowding.Dist α)" % t, E)
        raise Refuse("a %r where a %r is needed" % (vt, ty))

    def unify(self, a, b):
        if a[1] == b[1]:
            return a, b
        for ty in (I, F, E):
            try:
                return self.coerce(a, ty), self.coerce(b, ty)
            except Refuse:
                pass
        raise Refuse("operands of types %r and %r" % (a[1], b[1]))

    def expr(self, e, env):
        m = getattr(self, "e_" + type(e).__name__, None)
        if m is None:
            raise Refuse("expression %s (line %d)" % (type(e).__name__, getattr(e, "lineno", 0)))
        return m(e, env)

    def e_Constant(self, e, env):
        v = e.value
        if v is True or v is False:
            return ("true" if v else "false", BOOL)
        if isinstance(v, int):
            return ("(%d : Nat)" % v, N) if v >= 0 else ("(%d : Int)" % v, I)
        if isinstance(v, float):
            if v != int(v) or v < 0 or v > 2 ** 53:
                raise Refuse("float literal %r (only non-negative integral literals)" % v)
            return ("(0 : α)", F) if v == 0 else ("((%d : Nat) : α)" % int(v), F)
        if isinstance(v, str):
            if '"' in v or "\\" in v:
                raise Refuse("string literal")
            return ('"%s"' % v, S)
        raise Refuse("constant %r" % (v,))

    def e_Name(self, e, env):
        if e.id in env:
            if env[e.id] is None:
                raise Refuse("use of the loop variable %s after its loop" % e.id)
            return env[e.id]
        raise Refuse("name %s (line %d)" % (e.id, e.lineno))

    def e_UnaryOp(self, e, env):
        v = self.expr(e.operand, env)
        if isinstance(e.op, ast.USub):
            if v[1] == N:
                v = self.coerce(v, I)
            if v[1] in (I, F):
                return ("(-%s)" % v[0], v[1])
        if isinstance(e.op, ast.Not):
            if v[1] == P:
                return ("(¬ %s)" % v[0], P)
            if v[1] == BOOL:
                return ("(%s = false)" % v[0], P)
        raise Refuse("unary operator on %r" % (v[1],))

    def e_BinOp(self, e, env):
        op = e.op
        if isinstance(op, ast.Mult) and isinstance(e.left, ast.List) and len(e.left.elts) == 1:
            x = self.expr(e.left.elts[0], env)
            n = self.expr(e.right, env)
            if n[1] != N:
                raise Refuse("list repetition by a %r" % (n[1],))
            want = getattr(self, "_want", None)
            if want is not None and want[0] == "L":
                x = self.coerce(x, want[1])
            return ("(List.replicate %s %s)" % (n[0], x[0]), L(x[1]))
        a, b = self.expr(e.left, env), self.expr(e.right, env)
        if isinstance(op, ast.Add) and a[1][0] == "L" and a[1] == b[1]:
            return ("(%s ++ %s)" % (a[0], b[0]), a[1])
        if isinstance(op, (ast.Add, ast.Sub, ast.Mult)):
            if a[1] == E and b[1] == F and isinstance(op, ast.Add):
                return ("(Crowding.Dist.add %s %s)" % (a[0], b[0]), E)
            if a[1] not in (N, I, F) or b[1] not in (N, I, F):
                raise Refuse("arithmetic on %r, %r (line %d)" % (a[1], b[1], e.lineno))
            if isinstance(op, ast.Sub) and a[1] == N and b[1] == N:
                a, b = self.coerce(a, I), self.coerce(b, I)       # Python ints go negative: Int, not truncated Nat
            a, b = self.unify(a, b)
            return ("(%s %s %s)" % (a[0], {ast.Add: "+", ast.Sub: "-", ast.Mult: "*"}[type(op)], b[0]), a[1])
        if isinstance(op, ast.Div):
            if a[1] != F or b[1] != F:
                raise Refuse("true division on %r, %r" % (a[1], b[1]))
            return ("(%s / %s)" % (a[0], b[0]), F)
        if isinstance(op, (ast.FloorDiv, ast.Mod)):
            if not (isinstance(e.right, ast.Constant) and isinstance(e.right.value, int) and e.right.value > 0):
                raise Refuse("// or % by anything but a positive literal")
            if a[1] not in (N, I):
                raise Refuse("// or % on %r" % (a[1],))
            b = self.coerce(b, a[1])
            return ("(%s %s %s)" % (a[0], "/" if isinstance(op, ast.FloorDiv) else "%", b[0]), a[1])
        raise Refuse("operator %s" % type(op).__name__)

    def e_Compare(self, e, env):
        if len(e.ops) != 1:
            raise Refuse("chained comparison (line %d)" % e.lineno)
        a, b = self.expr(e.left, env), self.expr(e.comparators[0], env)
        op = e.ops[0]
        if isinstance(op, (ast.Eq, ast.NotEq)) and a[1] == b[1] and a[1] in (S, F, N, I):
            return ("(%s %s %s)" % (a[0], "=" if isinstance(op, ast.Eq) else "≠", b[0]), P)
        if a[1] not in (N, I, F) or b[1] not in (N, I, F):
            raise Refuse("comparison of %r, %r (line %d)" % (a[1], b[1], e.lineno))
        a, b = self.unify(a, b)
        if isinstance(op, (ast.Eq, ast.NotEq)):
            return ("(%s %s %s)" % (a[0], "=" if isinstance(op, ast.Eq) else "≠", b[0]), P)
        if isinstance(op, ast.Lt):
            return ("(%s < %s)" % (a[0], b[0]), P)
        if isinstance(op, ast.Gt):
            return ("(%s < %s)" % (b[0], a[0]), P)
        if isinstance(op, ast.LtE):
            return ("(%s ≤ %s)" % (a[0], b[0]), P)
        if isinstance(op, ast.GtE):
            return ("(%s ≤ %s)" % (b[0], a[0]), P)
        raise Refuse("comparison %s" % type(op).__name__)

    def cond(self, e, env):
        c = self.expr(e, env)
        if c[1] == P:
            return c[0]
        if c[1] == BOOL:
            return "(%s = true)" % c[0]
        raise Refuse("condition of type %r (truthiness of a value is not rendered)" % (c[1],))

    def e_IfExp(self, e, env):
        c = self.cond(e.test, env)
        a, b = self.expr(e.body, env), self.expr(e.orelse, env)
        if a[1] != b[1]:
            a, b = self.unify(a, b)
        return ("(if %s then %s else %s)" % (c, a[0], b[0]), a[1])

    def e_Tuple(self, e, env):
        vs = [self.expr(x, env) for x in e.elts]
        if len(vs) < 2:
            raise Refuse("1-tuple")
        return ("(%s)" % ", ".join(v[0] for v in vs), TUP(*[v[1] for v in vs]))

    def e_List(self, e, env):
        if e.elts:
            raise Refuse("non-empty list display")
        want = getattr(self, "_want", None)
        if want is None:
            raise Refuse("empty list without a declared type (line %d)" % e.lineno)
        return ("([] : %s)" % lean_type(want), want)

    def e_Attribute(self, e, env):
        # ind.fitness.values
        if e.attr == "values" and isinstance(e.value, ast.Attribute) and e.value.attr == "fitness":
            o = self.expr(e.value.value, env)
            if o[1] == L(F) and self.store == "vector":
                return o                                  # the individual IS its fitness.values here
            if o[1] == IND:
                return ("(Crowding.values weights %s)" % o[0], L(F))
        raise Refuse("attribute .%s (line %d)" % (e.attr, e.lineno))

    def index_term(self, v, i):
        if v[1][0] != "L":
            raise Refuse("subscript of %r" % (v[1],))
        if i[1] == N:
            return ("(%s.getD %s default)" % (v[0], i[0]), v[1][1])
        if i[1] == I:
            return ("(Gen5.item %s %s)" % (v[0], i[0]), v[1][1])
        raise Refuse("index of type %r" % (i[1],))

    def e_Subscript(self, e, env):
        v = self.expr(e.value, env)
        s = e.slice
        if isinstance(s, ast.Slice):
            if s.step is not None:
                raise Refuse("slice with a step")
            if v[1][0] != "L":
                raise Refuse("slice of %r" % (v[1],))
            bs = []
            for x in (s.lower, s.upper):
                if x is None:
                    bs.append("none")
                else:
                    b = self.coerce(self.expr(x, env), I)
                    bs.append("(some %s)" % b[0])
            return ("(Gen.slice %s %s %s)" % (v[0], bs[0], bs[1]), v[1])
        if v[1][0] == "T":
            if not (isinstance(s, ast.Constant) and isinstance(s.value, int) and 0 <= s.value < len(v[1]) - 1):
                raise Refuse("tuple index that is not a literal")
            return (proj(v[0], s.value, len(v[1]) - 1), v[1][1 + s.value])
        return self.index_term(v, self.expr(s, env))

    def lam(self, f, env):
        """a function-valued expression -> (lean term, FN type) given the argument type later: returns a python callable
        argty -> (term, retty)"""
        if isinstance(f, ast.Lambda):
            if len(f.args.args) != 1 or f.args.defaults or f.args.vararg or f.args.kwarg:
                raise Refuse("lambda that is not unary")
            nm = f.args.args[0].arg

            def mk(argty):
                inner = dict(env)
                inner[nm] = ("l_" + nm, argty)
                b = self.expr(f.body, inner)
                return ("(fun (l_%s : %s) => %s)" % (nm, lean_type(argty), b[0]), b[1])
            return mk
        if isinstance(f, ast.Call) and isinstance(f.func, ast.Name) and f.func.id not in env and not f.keywords \
                and len(f.args) == 1:
            g = self.tr.mod.globals.get(f.func.id)
            if g == ("other", "operator", "itemgetter"):
                k = self.expr(f.args[0], env)

                def mk(argty):
                    x = ("l_it", argty)
                    b = self.index_term(x, k) if argty[0] == "L" else None
                    if b is None:
                        raise Refuse("itemgetter on %r" % (argty,))
                    return ("(fun (l_it : %s) => %s)" % (lean_type(argty), b[0]), b[1])
                return mk
            if g == ("other", "operator", "attrgetter"):
                a = f.args[0]
                if isinstance(a, ast.Constant) and a.value == "fitness.crowding_dist" and self.store == "assoc":
                    cd = env["@cd"][0]

                    def mk(argty):
                        if argty != IND:
                            raise Refuse("attrgetter on %r" % (argty,))
                        return ("(Gen5.loadAttr %s)" % cd, E)
                    return mk
                raise Refuse("attrgetter(%s)" % ast.dump(a))
        if isinstance(f, ast.Name) and f.id in env and env[f.id] and env[f.id][1][0] == "FN":
            t, ty = env[f.id]

            def mk(argty):
                if argty != ty[1]:
                    raise Refuse("function parameter applied to %r" % (argty,))
                return (t, ty[2])
            return mk
        if isinstance(f, ast.Name) and f.id not in env and f.id == "identity" and "identity" in self.tr.mod.functions:
            fd = self.tr.mod.functions["identity"]
            if len(fd.body) == 2 and isinstance(fd.body[1], ast.Return) and isinstance(fd.body[1].value, ast.Name) \
                    and fd.body[1].value.id == fd.args.args[0].arg:
                return lambda argty: ("(fun (l_x : %s) => l_x)" % lean_type(argty), argty)
        raise Refuse("function value %s" % ast.dump(f)[:60])

    def e_ListComp(self, e, env):
        gens = e.generators
        if any(g.ifs or g.is_async for g in gens):
            raise Refuse("comprehension with if")
        if len(gens) == 2:
            # [x for a in seq for x in a]
            g0, g1 = gens
            if isinstance(g0.target, ast.Name) and isinstance(g1.iter, ast.Name) and g1.iter.id == g0.target.id \
                    and isinstance(g1.target, ast.Name) and isinstance(e.elt, ast.Name) and e.elt.id == g1.target.id \
                    and g0.target.id not in env and g1.target.id not in env:
                s = self.expr(g0.iter, env)
                if s[1][0] == "L" and s[1][1][0] == "L":
                    return ("(List.flatten %s)" % s[0], s[1][1])
            raise Refuse("nested comprehension")
        g = gens[0]
        s = self.expr(g.iter, env)
        if s[1][0] != "L":
            raise Refuse("iteration over %r" % (s[1],))
        p = self.fresh("p")
        inner = dict(env)
        self.bind_target(g.target, (p, s[1][1]), inner, env)
        b = self.expr(e.elt, inner)
        return ("(List.map (fun (%s : %s) => %s) %s)" % (p, lean_type(s[1][1]), b[0], s[0]), L(b[1]))

    def bind_target(self, target, val, inner, outer):
        if isinstance(target, ast.Name):
            if outer.get(target.id) is not None:
                raise Refuse("loop variable %s re-uses a live name" % target.id)
            inner[target.id] = val
            return
        if isinstance(target, ast.Tuple) and val[1][0] == "T" and len(target.elts) == len(val[1]) - 1:
            for k, t in enumerate(target.elts):
                self.bind_target(t, (proj(val[0], k, len(target.elts)), val[1][1 + k]), inner, outer)
            return
        raise Refuse("loop target (line %d)" % target.lineno)

    def e_Call(self, e, env):
        f = e.func
        kw = {k.arg: k.value for k in e.keywords}
        if any(isinstance(a, ast.Starred) for a in e.args) and not (isinstance(f, ast.Name) and f.id == "chain"):
            raise Refuse("starred argument")
        if not isinstance(f, ast.Name):
            raise Refuse("call of %s (line %d)" % (ast.dump(f)[:50], e.lineno))
        name, n = f.id, len(e.args)
        if name in env:
            b = env[name]
            if b is None or b[1][0] not in ("FN", "SORTER"):
                raise Refuse("call of the value %s" % name)
            if kw:
                raise Refuse("keyword arguments")
            if b[1][0] == "SORTER":
                raise Refuse("sorter call outside an assignment")
            a = self.expr(e.args[0], env)
            if n != 1 or a[1] != b[1][1]:
                raise Refuse("call of %s on %r" % (name, a[1]))
            return ("(%s %s)" % (b[0], a[0]), b[1][2])
        g = self.tr.mod.globals.get(name)
        if g is not None and g[0] == "func":
            if kw:
                raise Refuse("keyword arguments")
            return self.call_translated(name, e.args, env)
        if g is not None and g != ("other", "itertools", "chain"):
            raise Refuse("call of %s (line %d)" % (name, e.lineno))
        if name == "chain" and n == 1 and isinstance(e.args[0], ast.Starred) and not kw:
            s = self.expr(e.args[0].value, env)
            if s[1][0] == "L" and s[1][1][0] == "L":
                return ("(List.flatten %s)" % s[0], s[1][1])
            raise Refuse("chain(*%r)" % (s[1],))
        if name == "sorted" and n == 1 and set(kw) <= {"key", "reverse"} and "key" in kw:
            s = self.expr(e.args[0], env)
            if s[1][0] != "L":
                raise Refuse("sorted of %r" % (s[1],))
            k = self.lam(kw["key"], env)(s[1][1])
            rev = kw.get("reverse")
            if rev is None:
                if k[1] != F:
                    raise Refuse("sort key of type %r" % (k[1],))
                return ("(NDSort.pySortedBy %s %s)" % (k[0], s[0]), s[1])
            if not (isinstance(rev, ast.Constant) and rev.value is True):
                raise Refuse("reverse= that is not the literal True")
            if k[1] != E:
                raise Refuse("descending sort key of type %r" % (k[1],))
            return ("(Gen5.sortedByDesc Crowding.Dist.lt %s %s)" % (k[0], s[0]), s[1])
        if kw:
            raise Refuse("keyword arguments (line %d)" % e.lineno)
        if name == "len" and n == 1:
            a = self.expr(e.args[0], env)
            if a[1][0] != "L":
                raise Refuse("len of %r" % (a[1],))
            return ("%s.length" % a[0] if a[0].isidentifier() else "(%s).length" % a[0], N)
        if name == "abs" and n == 1:
            a = self.expr(e.args[0], env)
            if a[1] == N:
                return a
            if a[1] == I:
                return ("(Int.natAbs %s)" % a[0], N)
            raise Refuse("abs of %r" % (a[1],))
        if name == "float" and n == 1:
            if isinstance(e.args[0], ast.Constant) and e.args[0].value == "inf":
                return ("(none : Crowding.Dist α)", E)
            a = self.expr(e.args[0], env)
            if a[1] == F:
                return a
            raise Refuse("float of %r" % (a[1],))
        if name == "list" and n == 1:
            a = self.expr(e.args[0], env)
            if a[1][0] != "L":
                raise Refuse("list of %r" % (a[1],))
            return a
        if name == "zip" and n in (2, 3):
            xs = [self.expr(a, env) for a in e.args]
            if any(x[1][0] != "L" for x in xs):
                raise Refuse("zip of non-lists")
            if n == 2:
                return ("(List.zip %s %s)" % (xs[0][0], xs[1][0]), L(TUP(xs[0][1][1], xs[1][1][1])))
            return ("(Gen5.zip3 %s %s %s)" % tuple(x[0] for x in xs), L(TUP(*[x[1][1] for x in xs])))
        if name == "enumerate" and n == 1:
            a = self.expr(e.args[0], env)
            if a[1][0] != "L":
                raise Refuse("enumerate of %r" % (a[1],))
            return ("(Gen5.enumerate %s)" % a[0], L(TUP(N, a[1][1])))
        if name == "range" and n == 1:
            a = self.expr(e.args[0], env)
            if a[1] != N:
                raise Refuse("range of %r" % (a[1],))
            return ("(List.range %s)" % a[0], L(N))
        raise Refuse("call of %s/%d (line %d)" % (name, n, e.lineno))

    def call_translated(self, name, args, env):
        info = self.tr.done.get(name)
        if info is None:
            raise Refuse("call of %s, which is not translated" % name)
        if info["store"] or info["partial"]:
            raise Refuse("call of %s as an expression" % name)
        fd = self.tr.mod.functions[name]
        params = [a.arg for a in fd.args.args]
        if len(args) > len(params) or len(args) < len(params) - len(fd.args.defaults):
            raise Refuse("arity of %s" % name)
        terms = []
        sig = dict(info["sig"])
        for k, p in enumerate(params):
            if k < len(args):
                src = args[k]
            else:
                src = fd.args.defaults[k - (len(params) - len(fd.args.defaults))]
            want = sig[p]
            if want[0] == "FN":
                argty = want[1]
                if argty == X:
                    argty = self._xinst
                t = self.lam(src, env)(argty)
                if t[1] != want[2]:
                    raise Refuse("key function of type %r" % (t[1],))
                terms.append(t[0])
            else:
                v = self.expr(src, env)
                if want == L(X):
                    if v[1][0] != "L":
                        raise Refuse("argument %s of %s" % (p, name))
                    self._xinst = v[1][1]
                    terms.append(v[0])
                else:
                    terms.append(self.coerce(v, want)[0])
        return ("(Gen.%s %s)" % (name, " ".join(terms)), info["ret"])

    # ---------------------------------------------------------------- statements
    def mutated(self, stmts):
        """names assigned or mutated by the statements (refuses what it does not understand)"""
        out = set()
        for st in stmts:
            for node in ast.walk(st):
                if isinstance(node, (ast.While, ast.Try, ast.With, ast.Break, ast.FunctionDef, ast.Delete, ast.Global,
                                     ast.Nonlocal, ast.ClassDef)):
                    raise Refuse("%s (line %d)" % (type(node).__name__, node.lineno))
                ts = []
                if isinstance(node, ast.Assign):
                    ts = node.targets
                elif isinstance(node, ast.AugAssign):
                    ts = [node.target]
                for t in ts:
                    for x in (t.elts if isinstance(t, ast.Tuple) else [t]):
                        if isinstance(x, ast.Name):
                            out.add(x.id)
                        elif isinstance(x, ast.Subscript) and isinstance(x.value, ast.Name):
                            out.add(x.value.id)
                        elif isinstance(x, ast.Attribute):
                            out.add("@cd")
                        else:
                            raise Refuse("assignment target (line %d)" % node.lineno)
                if isinstance(node, ast.Expr) and isinstance(node.value, ast.Call):
                    c = node.value
                    if isinstance(c.func, ast.Attribute) and isinstance(c.func.value, ast.Name):
                        out.add(c.func.value.id)
                    elif isinstance(c.func, ast.Name) and self.tr.done.get(c.func.id, {}).get("store"):
                        out.add("@cd")
        return out

    def let(self, name, val, env, lines, pyname=None):
        lines.append("let %s := %s;" % (name, val[0]))
        env[pyname or name] = (name, val[1])

    def assign_name(self, pyname, val, env, lines):
        if val[1] in (P,):
            raise Refuse("condition stored in a variable")
        if pyname in self.params and env[pyname][1][0] == "L" and False:
            pass
        self.let("v_" + pyname, val, env, lines, pyname)

    def final(self, env, value):
        """the term a `return value` produces (value = (term, type) | None)"""
        if self.store:
            cd = env["@cd"][0]
            if value is None:
                t, ty = cd, ("STORE",)
            else:
                t, ty = "(%s, %s)" % (value[0], cd), ("WITHSTORE", value[1])
        else:
            if value is None:
                raise Refuse("bare return / falling off the end of a function without a store")
            t, ty = value
        if self.ret_ty is None:
            self.ret_ty = ty
        elif self.ret_ty != ty:
            raise Refuse("returns of different types (%r, %r)" % (self.ret_ty, ty))
        return "some %s" % t if self.partial else t

    def block(self, stmts, env, kont, in_loop):
        """Lean term for the statements followed by kont(env); in_loop: None | 'plain' | 'ret'"""
        env = dict(env)
        lines = []

        def done(term):
            return "\n".join(lines + [term])

        for k, st in enumerate(stmts):
            rest = stmts[k + 1:]
            if isinstance(st, ast.Expr) and isinstance(st.value, ast.Constant) and isinstance(st.value.value, str):
                continue
            if isinstance(st, ast.Return):
                v = None
                if st.value is not None:
                    v = self.expr(st.value, env)
                    if v[1] == P:
                        raise Refuse("returns a condition")
                t = self.final(env, v)
                if in_loop == "ret":
                    return done("Gen5.Step.ret (%s)" % t)
                if in_loop == "plain":
                    raise Refuse("internal: return in a plain loop")
                return done(t)
            if isinstance(st, ast.Raise):
                if in_loop:
                    raise Refuse("raise inside a loop")
                return done("none")
            if isinstance(st, ast.Continue):
                if not in_loop:
                    raise Refuse("continue outside a loop")
                return done(kont(env))
            if isinstance(st, ast.If):
                c = self.cond(st.test, env)
                a = self.block(list(st.body) + rest, env, kont, in_loop)
                b = self.block(list(st.orelse) + rest, env, kont, in_loop)
                return done("if %s then (\n%s)\nelse (\n%s)" % (c, a, b))
            if isinstance(st, ast.For):
                return done(self.for_loop(st, rest, env, kont, in_loop))
            self.simple(st, env, lines)
        return done(kont(env))

    def simple(self, st, env, lines):
        if isinstance(st, ast.Assign) and len(st.targets) == 1:
            t = st.targets[0]
            if isinstance(t, ast.Name):
                self._want = self.spec.get("locals", {}).get(t.id)
                try:
                    v = self.expr(st.value, env)
                finally:
                    self._want = None
                want = self.spec.get("locals", {}).get(t.id)
                if want is not None and v[1] != want:
                    v = self.coerce(v, want)
                if t.id in self.params and self.params[t.id][0] == "L":
                    raise Refuse("re-binding of the list parameter %s" % t.id)
                self.assign_name(t.id, v, env, lines)
                return
            if isinstance(t, ast.Tuple) and isinstance(st.value, ast.Tuple) and len(t.elts) == len(st.value.elts) \
                    and all(isinstance(x, ast.Name) for x in t.elts):
                vals = []
                for x, ve in zip(t.elts, st.value.elts):
                    self._want = self.spec.get("locals", {}).get(x.id)
                    try:
                        vals.append(self.expr(ve, env))
                    finally:
                        self._want = None
                tmps = []
                for v in vals:
                    n = self.fresh("u")
                    lines.append("let %s := %s;" % (n, v[0]))
                    tmps.append((n, v[1]))
                for x, v in zip(t.elts, tmps):
                    self.assign_name(x.id, v, env, lines)
                return
            if isinstance(t, ast.Subscript) and isinstance(t.value, ast.Name) and not isinstance(t.slice, ast.Slice):
                self.set_item(t, self.expr(st.value, env), env, lines)
                return
            if isinstance(t, ast.Attribute) and t.attr == "crowding_dist" and isinstance(t.value, ast.Attribute) \
                    and t.value.attr == "fitness" and self.store == "vector" and isinstance(t.value.value, ast.Subscript) \
                    and isinstance(t.value.value.value, ast.Name) and t.value.value.value.id == self.spec["inds"] \
                    and not isinstance(t.value.value.slice, ast.Slice):
                i = self.expr(t.value.value.slice, env)
                if i[1] != N:
                    raise Refuse("attribute write at an index of type %r" % (i[1],))
                v = self.coerce(self.expr(st.value, env), E)
                cd = env["@cd"][0]
                self.let("a_cd", ("(%s.set %s %s)" % (cd, i[0], v[0]), env["@cd"][1]), env, lines, "@cd")
                return
            raise Refuse("assignment target (line %d)" % st.lineno)
        if isinstance(st, ast.AugAssign) and isinstance(st.op, (ast.Add, ast.Sub, ast.Mult)):
            fake = ast.BinOp(left=st.target, op=st.op, right=st.value, lineno=st.lineno, col_offset=0)
            if isinstance(st.target, ast.Name):
                self.assign_name(st.target.id, self.expr(fake, env), env, lines)
                return
            if isinstance(st.target, ast.Subscript) and isinstance(st.target.value, ast.Name) \
                    and not isinstance(st.target.slice, ast.Slice):
                load = ast.Subscript(value=st.target.value, slice=st.target.slice, ctx=ast.Load(), lineno=st.lineno,
                                     col_offset=0)
                fake.left = load
                self.set_item(st.target, self.expr(fake, env), env, lines)
                return
            raise Refuse("augmented assignment target (line %d)" % st.lineno)
        if isinstance(st, ast.Expr) and isinstance(st.value, ast.Call):
            c = st.value
            if isinstance(c.func, ast.Attribute) and isinstance(c.func.value, ast.Name):
                nm, meth = c.func.value.id, c.func.attr
                cur = env.get(nm)
                if cur is None or cur[1][0] != "L":
                    raise Refuse("method .%s of %s" % (meth, nm))
                if nm in self.params:
                    raise Refuse("in-place mutation of the parameter %s" % nm)
                if meth == "append" and len(c.args) == 1 and not c.keywords:
                    v = self.coerce(self.expr(c.args[0], env), cur[1][1])
                    self.assign_name(nm, ("(%s ++ [%s])" % (cur[0], v[0]), cur[1]), env, lines)
                    return
                if meth == "extend" and len(c.args) == 1 and not c.keywords:
                    v = self.expr(c.args[0], env)
                    if v[1] != cur[1]:
                        raise Refuse("extend of %r by %r" % (cur[1], v[1]))
                    self.assign_name(nm, ("(%s ++ %s)" % (cur[0], v[0]), cur[1]), env, lines)
                    return
                if meth == "sort" and not c.args and [k.arg for k in c.keywords] == ["key"]:
                    k = self.lam(c.keywords[0].value, env)(cur[1][1])
                    if k[1] != F:
                        raise Refuse("sort key of type %r" % (k[1],))
                    self.assign_name(nm, ("(NDSort.pySortedBy %s %s)" % (k[0], cur[0]), cur[1]), env, lines)
                    return
                raise Refuse("method .%s (line %d)" % (meth, st.lineno))
            if isinstance(c.func, ast.Name) and c.func.id not in env and self.tr.done.get(c.func.id, {}).get("store") == "vector" \
                    and self.store == "assoc" and len(c.args) == 1 and not c.keywords:
                a = self.expr(c.args[0], env)
                if a[1] != L(IND):
                    raise Refuse("%s on %r" % (c.func.id, a[1]))
                cd = env["@cd"][0]
                t = "(Gen5.storeAttr %s %s (Gen.%s (List.map (Crowding.values weights) %s) (List.map (Gen5.loadAttr %s) %s)))" \
                    % (cd, a[0], c.func.id, a[0], cd, a[0])
                self.let("a_cd", (t, env["@cd"][1]), env, lines, "@cd")
                return
        raise Refuse("statement %s (line %d)" % (type(st).__name__, st.lineno))

    def set_item(self, target, val, env, lines):
        nm = target.value.id
        cur = env.get(nm)
        if cur is None or cur[1][0] != "L":
            raise Refuse("item assignment on %s" % nm)
        if nm in self.params:
            raise Refuse("in-place mutation of the parameter %s" % nm)
        i = self.expr(target.slice, env)
        if i[1] != N:
            raise Refuse("item assignment at an index of type %r" % (i[1],))
        v = self.coerce(val, cur[1][1])
        self.assign_name(nm, ("(%s.set %s %s)" % (cur[0], i[0], v[0]), cur[1]), env, lines)

    def for_loop(self, st, rest, env, kont, in_loop):
        if st.orelse:
            raise Refuse("for/else")
        has_ret = any(isinstance(n, ast.Return) for b in st.body for n in ast.walk(b))
        if has_ret and in_loop:
            raise Refuse("return inside a nested loop")
        W = sorted(n for n in self.mutated(st.body) if env.get(n) is not None)
        seq = self.expr(st.iter, env)
        if seq[1][0] != "L":
            raise Refuse("iteration over %r" % (seq[1],))
        p, s = self.fresh("p"), self.fresh("st")
        inner = dict(env)
        self.bind_target(st.target, (p, seq[1][1]), inner, env)
        targets = [x.id for x in ast.walk(st.target) if isinstance(x, ast.Name)]
        if not W:
            raise Refuse("loop without effect on a variable")
        tys = [env[n][1] for n in W]
        sty = tys[0] if len(W) == 1 else TUP(*tys)
        for k, n in enumerate(W):
            inner[n] = (s if len(W) == 1 else proj(s, k, len(W)), tys[k])

        def pack(e):
            return e[W[0]][0] if len(W) == 1 else "(%s)" % ", ".join(e[n][0] for n in W)

        if has_ret:
            body = self.block(list(st.body), inner, lambda e: "Gen5.Step.next %s" % pack(e), "ret")
        else:
            body = self.block(list(st.body), inner, pack, "plain")
        after = dict(env)
        for t in targets:
            after[t] = None
        lean_names = []
        for n in W:
            ln = "a_cd" if n == "@cd" else "v_" + n
            lean_names.append(ln)
            after[n] = (ln, env[n][1])
        tail = self.block(rest, after, kont, in_loop)
        fun = "(fun (%s : %s) (%s : %s) =>\n%s)" % (s, lean_type(sty), p, lean_type(seq[1][1]), body)
        r = self.fresh("r")
        unpack = "\n".join("let %s := %s;" % (ln, r if len(W) == 1 else proj(r, k, len(W))) for k, ln in enumerate(lean_names))
        if has_ret:
            return "match Gen5.forE %s %s %s with\n| Gen5.Step.ret r => r\n| Gen5.Step.next %s =>\n%s\n%s" % (
                seq[0], pack(env), fun, r, unpack, tail)
        return "let %s := List.foldl %s %s %s;\n%s\n%s" % (r, fun, pack(env), seq[0], unpack, tail)

    def translate(self):
        fn = self.fn
        if fn.decorator_list:
            raise Refuse("decorated function")
        a = fn.args
        if a.vararg or a.kwarg or a.kwonlyargs or a.posonlyargs:
            raise Refuse("*args / keyword-only parameters")
        self.mutated(fn.body)
        env, binders = {}, []
        self.params = {}
        for b in self.spec.get("extra", []):
            binders.append(b)
        for p in [x.arg for x in a.args]:
            ty = self.spec["sig"].get(p)
            if ty is None:
                raise Refuse("no declared type for parameter %s" % p)
            self.params[p] = ty
            if ty[0] == "SORTER":
                raise Refuse("sorter as a Python parameter")
            env[p] = ("v_" + p, ty)
            binders.append("(v_%s : %s)" % (p, lean_type(ty)))
        for nm, ty in self.spec.get("callees", {}).items():
            env[nm] = (nm, ty)
        if self.store:
            sty = L(E) if self.store == "vector" else ("ASSOC",)
            env["@cd"] = ("a_cd", sty)
            binders.append("(a_cd : %s)" % ("List (Crowding.Dist α)" if self.store == "vector" else "Gen5.Store α"))
        body = self.block_top(list(fn.body), env)
        rt = self.ret_ty
        if rt == ("STORE",):
            lt = "List (Crowding.Dist α)" if self.store == "vector" else "Gen5.Store α"
        elif rt[0] == "WITHSTORE":
            lt = "(%s) × (%s)" % (lean_type(rt[1]), "List (Crowding.Dist α)" if self.store == "vector" else "Gen5.Store α")
        else:
            lt = lean_type(rt)
        if self.partial:
            lt = "Option (%s)" % lt
        return "def %s %s : %s :=\n%s" % (fn.name, " ".join(binders), lt, body), rt

    def block_top(self, stmts, env):
        def end(e):
            return self.final(e, None)
        # sorter calls `v = sorter(args)` are binds: handled by rewriting the block
        return self.block_bind(stmts, env, end)

    def block_bind(self, stmts, env, kont):
        """like block(), but an assignment from a callee given as a parameter (result Option) is a bind"""
        for k, st in enumerate(stmts):
            if isinstance(st, ast.Assign) and len(st.targets) == 1 and isinstance(st.targets[0], ast.Name) \
                    and isinstance(st.value, ast.Call) and isinstance(st.value.func, ast.Name) \
                    and env.get(st.value.func.id) and env[st.value.func.id][1][0] == "SORTER":
                if not self.partial:
                    raise Refuse("callee that can raise in a total function")
                ty = env[st.value.func.id][1]
                args = [self.expr(a, env) for a in st.value.args]
                if st.value.keywords or len(args) != len(ty[1]):
                    raise Refuse("arity of %s" % st.value.func.id)
                args = [self.coerce(a, t) for a, t in zip(args, ty[1])]
                pre = self.block_bind(stmts[:k], env, None) if False else None
                head_env = dict(env)
                lines = []
                for s0 in stmts[:k]:
                    if isinstance(s0, ast.Expr) and isinstance(s0.value, ast.Constant):
                        continue
                    self.simple(s0, head_env, lines)
                nm = st.targets[0].id
                inner = dict(head_env)
                inner[nm] = ("v_" + nm, ty[2])
                tail = self.block_bind(stmts[k + 1:], inner, kont)
                return "\n".join(lines + ["Option.bind (%s %s) (fun v_%s =>\n%s)" % (
                    st.value.func.id, " ".join(a[0] for a in args), nm, tail)])
            if isinstance(st, ast.If) and any(isinstance(n, ast.Call) and isinstance(n.func, ast.Name)
                                               and env.get(n.func.id) and env[n.func.id][1][0] == "SORTER"
                                               for n in ast.walk(st)):
                head_env = dict(env)
                lines = []
                for s0 in stmts[:k]:
                    if isinstance(s0, ast.Expr) and isinstance(s0.value, ast.Constant):
                        continue
                    self.simple(s0, head_env, lines)
                c = self.cond(st.test, head_env)
                rest = stmts[k + 1:]
                a = self.block_bind(list(st.body) + rest, head_env, kont)
                b = self.block_bind(list(st.orelse) + rest, head_env, kont)
                return "\n".join(lines + ["if %s then (\n%s)\nelse (\n%s)" % (c, a, b)])
        return self.block(stmts, env, kont, None)


class Translator:
    def __init__(self, mod):
        self.mod = mod
        self.done = {}

    def translate(self, name, spec):
        fn = self.mod.functions.get(name)
        if fn is None:
            raise Refuse("no module-level function %s" % name)
        f = Fun(self, fn, spec)
        text, rt = f.translate()
        self.done[name] = {"sig": spec["sig"], "ret": rt, "store": f.store, "partial": f.partial}
        return text
