"""C03 — the translator tie: `translate(repo)` for harness/lib.py::_translated_obligations.

Reads deap/algorithms.py of `repo` AS IT IS NOW, renders the packaged loops `eaSimple`, `eaMuPlusLambda`, `eaMuCommaLambda` with
harness/py2lean_c03.py (and the functions they call, `varAnd` / `varOr`, with C02's harness/py2lean_c02.py through
props/c02_translate.py, whose text and theorems `Gen.varAnd_eq_canon` / `Gen.varOr_eq_canon` are placed in front) as Lean
definitions `Gen.<name>` and appends the committed theorems of lean/DeapModel/GenEq/C03.lean.tmpl (`Gen.<name>` = the hand-written
model of Core/Loops.lean on the decision records decoded from the tape).  A function that has a theorem block in the template but
is no longer translatable is a PROBLEM (the tie is broken); `eaGenerateUpdate` is tried and only listed."""
import hashlib
import os
import re

import py2lean_c02 as P
import py2lean_c03 as L
from py2lean import Refuse
from props import c02_translate

HERE = os.path.dirname(os.path.abspath(__file__))
GENEQ = os.path.normpath(os.path.join(HERE, "..", "..", "lean", "DeapModel", "GenEq"))
TEMPLATE = os.path.join(GENEQ, "C03.lean.tmpl")
DIGEST = os.path.join(GENEQ, "C03.defs.sha256")
REL = "deap/algorithms.py"

# parameter types: an assumption of the tie
LOOP_SIG = {"population": L.LO, "toolbox": L.TB, "cxpb": L.F, "mutpb": L.F, "ngen": L.N, "mu": L.N, "lambda_": L.N,
            "stats": L.STATS, "halloffame": L.HOF, "verbose": L.VERB}
LOOPS = ["eaSimple", "eaMuPlusLambda", "eaMuCommaLambda", "eaGenerateUpdate"]

C02_IMPORT = "import DeapModel.Lemmas.C02Gen"
MY_IMPORT = "import DeapModel.Lemmas.C03Gen"


def template_blocks():
    src = open(TEMPLATE).read()
    blocks, pre, cur, buf = {}, [], None, []
    for line in src.splitlines():
        m = re.match(r"^--! begin (\S+)\s*$", line)
        if m:
            cur, buf = m.group(1), []
            continue
        if re.match(r"^--! end\s*$", line):
            blocks[cur] = "\n".join(buf)
            cur = None
            continue
        (buf if cur is not None else pre).append(line)
    return "\n".join(pre), blocks


def theorem_names(text):
    return re.findall(r"^theorem\s+([\w.']+)", text, re.M)


def translate(repo):
    problems, refused, table, done = [], [], [], []
    pre, blocks = template_blocks()
    c02 = c02_translate.translate(repo)                 # the callees' definitions + their committed theorems (owned by C02)
    if not c02.get("source"):
        return {"problems": ["callees (C02 tie): %s" % "; ".join(c02.get("problems") or ["no source"])], "source": None,
                "theorems": [], "definitions": [], "refused": [], "table": [], "digest": ""}
    for x in c02.get("problems") or []:
        problems.append("callee tie (C02) broken: %s" % x)
    if C02_IMPORT not in c02["source"]:
        problems.append("the C02 translated text no longer starts with `%s`" % C02_IMPORT)
    mod = P.Module(os.path.join(repo, REL))
    texts = []
    for name in LOOPS:
        full = "Gen." + name
        if name not in mod.functions:
            if full in blocks:
                problems.append("%s has theorems in the template but %s defines no function of that name any more" % (full, REL))
            continue
        try:
            text = L.translate_loop(mod, name, LOOP_SIG)
            done.append(full)
            texts.append((name, text))
            table.append((REL, name, "translated", "theorem" if full in blocks else "no theorem"))
        except (Refuse, KeyError) as e:
            refused.append("%s:%s (%s)" % (REL, name, e))
            table.append((REL, name, "refused", str(e)))
            if full in blocks:
                problems.append("%s:%s has left the translated sub-language (%s); its theorems %s cannot be checked"
                                % (REL, name, e, theorem_names(blocks[full])))
    out = [c02["source"].replace(C02_IMPORT, MY_IMPORT, 1), "", "namespace Gen", "open Variation", ""]
    for name, text in texts:
        out.append("/-- `%s:%s` (line %d), regenerated from the source -/" % (REL, name, mod.functions[name].lineno))
        out.append(text)
        out.append("")
    out.append("end Gen\n")
    out.append(pre)
    theorems = []
    for full in done:
        if full in blocks:
            out.append(blocks[full])
            theorems += theorem_names(blocks[full])
    source = "\n".join(out)
    digest = hashlib.sha256("\n".join(t for _, t in texts).encode()).hexdigest()
    try:
        known = open(DIGEST).read().split()
    except OSError:
        known = []
    if digest not in known and theorems and not c02.get("problems"):
        # name the theorems that fail (lib reports Lean's error lines only); costs time on a changed tree only
        from props import c20_translate
        failing = c20_translate.failing_theorems(source)
        if failing:
            problems.append("regenerated definitions differ from the committed digest; theorems that no longer hold: %s"
                            % ", ".join(failing))
    return {"problems": problems, "source": source, "theorems": theorems, "definitions": ["Gen." + n for n, _ in texts],
            "refused": refused, "table": table, "digest": digest, "callee_definitions": c02.get("definitions", [])}


if __name__ == "__main__":
    import sys
    r = translate(sys.argv[1] if len(sys.argv) > 1 else os.environ.get("DEAP_REPO", "/repo"))
    if len(sys.argv) > 2 and r["source"]:
        open(sys.argv[2], "w").write(r["source"] + "\n" + "".join("#print axioms %s\n" % n for n in r["theorems"]))
    for row in r["table"]:
        print("%-20s %-18s %-10s %s" % row)
    print("problems:", r["problems"])
    print(len(r["definitions"]), "definitions,", len(r["theorems"]), "theorems,", len(r["refused"]), "refused; digest", r["digest"])
