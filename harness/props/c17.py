"""C17 — Runs are reproducible, resumable from any checkpoint, and map-schedule independent (whole library).

The Lean part (Core/Resume.lean, Props/C17.lean) is only the algebra: n-fold step, resume = dec(enc(.)) then
continue, order-preserving map under any completion schedule.  The substance is HERE: the three equations are
evaluated on the implementation at every point the property quantifies over.

  det     (a) a family x seed is run twice in this process and once in a FRESH interpreter: identical traces
              (fingerprint after every generation) and identical final state.
  crash   (b) for one generation g: a child process runs to g, pickles the checkpoint (population, archive,
              logbook, strategy, selector memory, both generator states) once per pickle protocol, and is killed
              with SIGKILL; for each protocol a NEW process restores and continues to ngen; the final fingerprint
              (and every generation after g) must equal the uninterrupted run's.  generate() enumerates EVERY g.
  pool    (c) toolbox.map = multiprocessing.Pool(w).map (start method stated in the case: "fork" — workers inherit
              the created classes — or "spawn"), w in {1,2,4,8}, per-task delays forcing different completion orders
              (the observed completion orders are recorded); result must equal the serial run's.
  perm    (c) an in-process order-preserving map that evaluates the tasks in an adversarially chosen permutation
              and writes results into slots by submission index; small-population variants enumerate ALL
              permutations of a map call.
  pmap / toy / hres   tie the Lean algebra (pmap with a schedule, resume with a complete / incomplete checkpoint, the
              hidden-state machine Resume.toyHidden) to the Python helpers used above.
  mig         tools.migRing against its model Migration.migRingWith (tied to /repo).

HIDDEN STATE (harness/props/c17_hidden.py, the executable premise of C17.resume_of_hidden_constant): a deep fingerprint of
all module-level and class-level state of every deap.* module (containers, iterators / generators, class attributes,
function defaults, closure cells) and of the script-level primitive sets is taken
  * around the second in-process run of every `det` case (after every generation),
  * around the runs of `rerun` (every family twice in a row, run lengths 0, 1, (2)),
  * around a single call of EVERY public operator of deap.tools / deap.gp / deap.algorithms / deap.cma (`op`,
    harness/props/c17_ops.py; `opcover` counts public names without a recipe).
State a run creates or modifies and leaves behind is reported `CORRESPONDENCE: hidden state: <module attribute> ...`
(lib.run_check then searches a failing history); the targeted histories that turn it into a concrete failing input are
`rerun` (twice in a row), `inproc` (every checkpoint restored in the same process, confirmed by kill + new process) and
the kill/resume of the families whose call counts are odd (gp_partial).
"""
import itertools
import json
import multiprocessing
import os
import pickle
import shutil
import signal
import subprocess
import sys
import tempfile
import time
import warnings

HERE = os.path.dirname(os.path.abspath(__file__))
HARNESS = os.path.dirname(HERE)
if HARNESS not in sys.path:
    sys.path.insert(0, HARNESS)

from lib import Case, Infra, REPO  # noqa: E402

os.environ.setdefault("DEAP_REPO", REPO)
from props import c17_families as F  # noqa: E402
from props import c17_hidden as H  # noqa: E402
from props import c17_ops as O  # noqa: E402

ANCHORS = [("deap/algorithms.py", []), ("deap/tools/support.py", ["HallOfFame", "ParetoFront", "Logbook", "Statistics"]),
           ("deap/tools/emo.py", ["selNSGA3WithMemory", "selNSGA3", "selNSGA2", "selSPEA2", "selTournamentDCD"]),
           ("deap/cma.py", ["Strategy", "StrategyOnePlusLambda", "StrategyMultiObjective"]),
           ("deap/creator.py", []), ("deap/gp.py", ["MetaEphemeral", "Primitive", "Terminal", "PrimitiveTree"]),
           ("deap/base.py", ["Toolbox", "Fitness"]), ("deap/tools/migration.py", []),
           ("doc/tutorials/advanced/checkpoint.rst", [])]
LEVEL = "partial"
RULE = ("17 families (harness/props/c17_families.py): GA on lists, NSGA-II (ngen=10, MU=16), SPEA2, NSGA-III with "
        "memory, GP with ephemerals (node replacement / ephemeral / insert / shrink mutations, tight staticLimit, ngen=6), "
        "CMA-ES (array individuals), (1+lambda)-CMA, MO-CMA-ES with mu = lambda, mu < lambda and mu > lambda, ES on "
        "float32 numpy individuals, CMA-ES N=30 lambda=6 (ngen=6), GA with MultiStatistics chapters whose logbook is "
        "streamed, strongly typed GP with a bool<int hierarchy and a third builtin type / a third user-defined type (two families, ngen=4), "
        "GP with functools.partial(random.randint/uniform) ephemerals, odd population size, genHalfAndHalf also for the "
        "mutation subtrees and mutEphemeral one/all (gp_partial, ngen=4), GA on 3 demes with tools.migRing every 2 "
        "generations (ga_demes, ngen=4); the GA logbook is "
        "streamed every 2 generations; 3 variants built from caller-owned shared cmatrix/centroid/parent/population "
        "and the 4 packaged loops of deap.algorithms for (a) and (c).  EVERY tier: (a) det for all 24 (with the hidden-state "
        "fingerprint of every deap.* module after every generation of the second run; GP families in fresh interpreters with six different PYTHONHASHSEEDs and six different import histories); rerun: all 24 twice in a row at run lengths 0, 1 (thorough: 0, 1, 2); inproc: every "
        "checkpoint of the 17 families restored in the same process; op: every public operator of deap.tools / gp / "
        "algorithms / cma once (thorough: 5 inputs) with the hidden-state fingerprint around the call and the call "
        "repeated from identical generator states; (b) kill/resume "
        "for ALL 17 families at EVERY generation 0..ngen (quick: ngen=3 unless stated, two pickle protocols per crash "
        "point rotating so that all six occur; thorough: ngen=6, all six protocols, 3 seeds); (c) fork pools with worker "
        "counts 1..8 (quick: all eight for GA and eaSimple, three per other family) and one spawn pool, random per-task "
        "delays; all 24 permutations of the 4-task map calls of the small variants + reverse/rotate/random schedules. "
        "hres: 30 (thorough 100) histories of the hidden-state toy machine; mig: 150 (thorough 1500) calls of tools.migRing "
        "on 0..4 demes over a small genome universe (equal genomes), k 0..3, six selection / replacement callables, "
        "default / permuted / malformed migration arrays, against the Lean model. "
        "The seed never selects families or clauses. Non-trivial = every case (each is a complete run)")
EXHAUSTIVE = {"quick": False, "thorough": False}
TIME_BUDGET = {"quick": 120, "thorough": 1200}
CASE_TIMEOUT = 600
MIN_CASES = 300
TRUSTED = ["the operating system: SIGKILL ends the worker at once, a new process starts from nothing but the "
           "checkpoint file; multiprocessing.Pool.map is an order-preserving map",
           "fingerprints (harness/props/c17_families.py) describe the complete observable state: genomes, fitness, "
           "archive items and keys, logbook rows/chapters/stream position, strategy and selector-memory arrays "
           "byte-wise, random.getstate(), numpy.random.get_state()"]
ASSUMPTIONS = ["the restoring process executes the script's definitions (creator.create, primitive sets, toolbox) BEFORE it "
               "unpickles the checkpoint, as doc/tutorials/advanced/checkpoint.rst does (definitions at module level, "
               "pickle.load inside main()); a process that unpickles GP trees whose ephemerals were declared with "
               "partial(random.randint, ...) before it has built its primitive set gets ephemeral classes re-created "
               "from the pickled function, i.e. drawing from a private copy of the generator - outside the documented "
               "usage, no stream is built on that order",
               "hidden-state fingerprint: CPython's own bookkeeping (__slotnames__ set by copyreg, __warningregistry__, "
               "eval's __builtins__ entry in a primitive set's context) is not library state; classes made by "
               "creator.create and ephemeral classes registered during a run are definitions (additions are ignored, "
               "modifications of existing ones are reported); state held in C extension objects without __reduce__ "
               "or in closures of functions that are not reachable from a deap module is invisible to the detector",
               "evaluation functions are pure (they neither draw random numbers nor keep state) — what "
               "'order-preserving parallel map gives the same results' presupposes",
               "the user re-creates classes, primitive sets and toolbox by importing the same module in the new "
               "process (code is not part of a checkpoint), as in doc/tutorials/advanced/checkpoint.rst"]
EXPLANATION = ("The protocol lines pmap / resume / hresume validate ONLY the driver's algebra "
               "against harness-local helpers (slot_map, a toy step, the hidden-state toy; schedules partly taken from "
               "completion orders observed in the real pool runs): they are tied to nothing in /repo.  The `mig` lines "
               "ARE tied to /repo: tools.migRing is run on the real objects and compared with Migration.migRingWith.  "
               "The tie of the three equations to DEAP is the "
               "process-level oracle (det / rerun / inproc / crash / pool / perm), which runs the real library, and the "
               "hidden-state detector, which checks the premise of C17.resume_of_hidden_constant (no step of the "
               "library writes state outside the checkpointed objects) on every family run and on every public "
               "operator; where that premise fails C17.resume_iff_hidden_irrelevant says that resumption holds exactly "
               "when the hidden state never reaches the visible output, which the targeted histories decide.  "
               "partial, and the weakest of the twenty in its Lean part: the theorems are the algebra of "
               "checkpointing (deterministic, resume, resume_many) and of order-preserving maps "
               "(schedule_independent, loop_schedule_independent).  That the real objects pickle their complete "
               "state, that no operator keeps state outside the two generators, and that a killed process loses "
               "nothing else is runtime behaviour: it is checked here by actually killing and resuming processes "
               "at every generation, with every pickle protocol, and by actually permuting completion orders.")

PROTOCOLS = list(range(0, pickle.HIGHEST_PROTOCOL + 1))
POOL_TIMEOUT = 120
READY_TIMEOUT = 180
# child interpreters differ in their IMPORT / ALLOCATION HISTORY too (C17_PRELUDE), so that anything ordered by object
# addresses (sets of classes, id-keyed dicts) is exposed, not only str-hash order
PRELUDES = {"0": "pass", "1": "import email, decimal, xml.dom.minidom",
            "2": "junk = [object() for _ in range(1000)]; import unittest, csv",
            "3": "junk = [type('J%d' % i, (object,), {}) for i in range(37)]",
            "4": "import argparse, fractions; junk = [type('K%d' % i, (), {}) for i in range(5)]",
            "5": "junk = [dict(a=i) for i in range(333)]; import sqlite3"}
CHILD = [sys.executable, "-c",
         "import os, sys; exec(%r.get(os.environ.get('C17_PRELUDE', '0'), 'pass')); sys.path.insert(0, %r); "
         "from props import c17_families as F; F.main(sys.argv[1:])" % (PRELUDES, HARNESS)]


def child_env(hashseed):
    env = dict(os.environ, DEAP_REPO=REPO)
    env["PYTHONHASHSEED"] = str(hashseed)
    env["C17_PRELUDE"] = str(hashseed % 6)
    return env


def first_diff(a, b, path="$"):
    if type(a) is not type(b):
        return "%s: %r vs %r" % (path, a, b)
    if isinstance(a, dict):
        for k in sorted(set(a) | set(b)):
            if k not in a or k not in b:
                return "%s.%s: present on one side only" % (path, k)
            r = first_diff(a[k], b[k], "%s.%s" % (path, k))
            if r:
                return r
        return None
    if isinstance(a, list):
        if len(a) != len(b):
            return "%s: length %d vs %d" % (path, len(a), len(b))
        for i, (x, y) in enumerate(zip(a, b)):
            r = first_diff(x, y, "%s[%d]" % (path, i))
            if r:
                return r
        return None
    return None if a == b else "%s: %r vs %r" % (path, a, b)


def norm(x):
    return json.loads(json.dumps(x))


_ref = {}


def reference(family, seed, ngen):
    key = (family, seed, ngen)
    if key not in _ref:
        st, trace = F.run(family, seed, ngen)
        _ref[key] = (dict((str(k), v) for k, v in trace.items()), norm(F.fingerprint(st)))
    return _ref[key]


def compare(what, trace, final, rtrace, rfinal, from_gen=0):
    for g in sorted(rtrace, key=int):
        if int(g) >= from_gen and trace.get(g) != rtrace[g]:
            d = first_diff(rfinal, final) if int(g) == max(map(int, rtrace)) else None
            return "%s: state after generation %s differs from the uninterrupted serial run%s" % (
                what, g, (" (final state: %s)" % d) if d else "")
    d = first_diff(rfinal, final)
    if d:
        return "%s: final state differs: %s" % (what, d)
    return None


# ---- (a) ----------------------------------------------------------------------------------------------------------

def eval_det(d):
    fam, seed, ngen = d["family"], d["seed"], d["ngen"]
    rtrace, rfinal = reference(fam, seed, ngen)
    watch = HiddenWatch()
    st2, t2 = F.run(fam, seed, ngen, on_gen=watch)
    orc = compare("second run in the same process", dict((str(k), v) for k, v in t2.items()),
                  norm(F.fingerprint(st2)), rtrace, rfinal)
    if orc is None and F.shared_inputs_fp() != F.SHARED_FP0:
        orc = ("the run modified objects owned by the caller (cmatrix / centroid / parent / initial population "
               "handed to the strategy constructor)")
    if orc is None:
        # fresh interpreters; families that build name-keyed structures (GP primitive sets) are started with SEVERAL
        # different string-hash seeds, so that any dependence on str-hash iteration order shows up
        hs0 = d.get("hs", 1)
        hss = [hs0 + i for i in range(6)] if F.hash_sensitive(fam) else [hs0]
        procs = [(h, subprocess.Popen(CHILD + ["run", fam, str(seed), str(ngen)], stdout=subprocess.PIPE,
                                      stderr=subprocess.PIPE, text=True, env=child_env(h))) for h in hss]
        for h, p in procs:
            out, err = p.communicate(timeout=600)
            if orc is not None:
                continue
            if p.returncode != 0:
                orc = "fresh interpreter run (PYTHONHASHSEED=%d) failed: %s" % (h, err[-600:])
            else:
                res = json.loads(out.strip().split("\n")[-1])
                orc = compare("run in a fresh interpreter started with PYTHONHASHSEED=%d" % h, res["trace"],
                              res["final"], rtrace, rfinal)
    if orc:
        orc = "family=%s seed=%d ngen=%d: %s" % (fam, seed, ngen, orc)
    elif watch.changes:
        # no failing history HERE, but the premise "no state outside the checkpointed objects" is broken: a break of the
        # correspondence (C17.resume_of_hidden_constant no longer applies); lib.run_check searches a failing history
        orc = watch.report("family=%s seed=%d ngen=%d" % (fam, seed, ngen))
    return Case(d, [], [], orc, tag="det/%s" % fam)


# ---- hidden state (the executable premise of C17.resume_of_hidden_constant) ------------------------------------------

class HiddenWatch(object):
    """Fingerprints all module- and class-level state of deap.* (and the script-level primitive sets) when created and
    again after every generation it is called for; remembers the first change."""

    def __init__(self):
        self.s0 = H.snapshot(F.script_roots())
        self.changes, self.gen = [], None

    def __call__(self, st=None):
        if not self.changes:
            ch = H.diff(self.s0, H.snapshot(F.script_roots()))
            if ch:
                self.changes, self.gen = ch, (st or {}).get("gen")
        return self.changes

    def report(self, what):
        return ("CORRESPONDENCE: hidden state: %s: the run created or modified state outside population, archive, logbook, "
                "strategy object and both generator states%s — %s" % (
                    what, "" if self.gen is None else " (seen after generation %s)" % self.gen,
                    H.describe(self.changes)))


def eval_rerun(d):
    """(a) 'identical every time': the family is run TWICE IN A ROW in this process from identical seeds, for each of
    the lengths `gs` (a short run leaves other hidden state behind than a long one); both traces must be equal and
    must be the prefix of the reference run."""
    fam, seed, gs = d["family"], d["seed"], d["gs"]
    orc = None
    watch = HiddenWatch()
    for g in gs:
        res = []
        for rep in (1, 2):
            st, t = F.run(fam, seed, g)
            res.append((dict((str(k), v) for k, v in t.items()), norm(F.fingerprint(st))))
        orc = compare("run %d generation(s) long, started a second time in the same process" % g,
                      res[1][0], res[1][1], res[0][0], res[0][1])
        if orc is None and not fam.startswith("pk_"):
            rtrace, _ = reference(fam, seed, max(g, d.get("ngen", g)))
            for k in sorted(res[0][0], key=int):
                if res[0][0][k] != rtrace[k]:
                    orc = ("run %d generation(s) long: state after generation %s differs from the same generation of a "
                           "longer run from the same seed in the same process" % (g, k))
                    break
        if orc:
            break
    if orc:
        orc = "family=%s seed=%d: %s" % (fam, seed, orc)
    elif watch():
        orc = watch.report("family=%s seed=%d run lengths %r" % (fam, seed, gs))
    return Case(d, [], [], orc, tag="rerun/%s" % fam)


def eval_inproc(d):
    """(b) in ONE process: an uninterrupted run pickles a checkpoint after every generation; each checkpoint is then
    restored in the same process (where every piece of hidden state the run left behind is still alive) and continued.
    A difference is confirmed by the literal history of the statement (kill, NEW process, same generation, same
    protocol) before it is reported as a failing input; unconfirmed it is a break of the correspondence."""
    fam, seed, ngen, off = d["family"], d["seed"], d["ngen"], d.get("off", 0)
    rtrace, rfinal = reference(fam, seed, ngen)
    cps = {}

    def save(st):
        p = PROTOCOLS[(off + st["gen"]) % len(PROTOCOLS)]
        cps[st["gen"]] = (p, pickle.dumps(F.checkpoint(st), p))
    st, t = F.run(fam, seed, ngen, on_gen=save)
    orc = compare("uninterrupted run that pickles a checkpoint after every generation",
                  dict((str(k), v) for k, v in t.items()), norm(F.fingerprint(st)), rtrace, rfinal)
    ks = d.get("ks") or sorted(cps)
    for k in ks:
        if orc is not None:
            break
        p, blob = cps[k]
        st2, t2 = F.run(fam, None, ngen, start=F.restore(pickle.loads(blob)))
        o = compare("protocol %d: checkpoint of generation %d restored in the SAME process and continued" % (p, k),
                    dict((str(x), v) for x, v in t2.items()), norm(F.fingerprint(st2)), rtrace, rfinal, from_gen=k)
        if o:
            c = eval_crash({"k": "crash", "family": fam, "seed": seed, "ngen": ngen, "g": k, "protos": [p],
                            "hs": d.get("hs", 1)})
            if c.oracle:
                orc = "%s; confirmed by kill and resume in a new process: %s" % (o, c.oracle)
            else:
                orc = ("CORRESPONDENCE: hidden state: family=%s seed=%d ngen=%d: %s, while the kill-and-resume in a NEW "
                       "process agrees" % (fam, seed, ngen, o))
    if orc and not orc.startswith("CORRESPONDENCE:"):
        orc = "family=%s seed=%d ngen=%d: %s" % (fam, seed, ngen, orc)
    return Case(d, [], [], orc, tag="inproc/%s" % fam)


def eval_op(d):
    """One public operator, one small valid input: (1) the hidden-state fingerprint around the single call, (2) the
    one-operator evolution run twice from identical generator states on equal inputs."""
    import random as _r
    name, seed = d["op"], d["seed"]
    rec = O.RECIPES.get(name)
    if rec is None:
        return Case(d, [], [], "CORRESPONDENCE: no recipe for operator %s" % name, tag="op/unknown")
    res, hidden = [], None
    for rep in (1, 2):
        thunk, observed = rec(_r.Random(seed))
        F.seed_all(seed)
        watch = HiddenWatch()
        with warnings.catch_warnings():
            warnings.simplefilter("ignore")
            out = thunk()
        if watch() and hidden is None:
            hidden = watch
        res.append(norm([F.fp_value([out, observed]), F.fp_rng()]))
    orc = None
    dd = first_diff(res[0], res[1])
    if dd:
        orc = ("operator=%s seed=%d: the one-operator evolution (both generators seeded with %d, inputs built from the "
               "same private seed) gives another result the second time in the same process: %s" % (name, seed, seed, dd))
    elif hidden is not None:
        orc = hidden.report("single call of %s (seed=%d)" % (name, seed))
    return Case(d, [], [], orc, tag="op/%s" % name.split(".")[1])


def eval_opcover(d):
    missing = [n for n in O.public_names() if n not in O.RECIPES]
    return Case(d, [], [], None, tag="opcover/public=%d/without-recipe=%d%s" % (
        len(O.public_names()), len(missing), ("(" + ",".join(missing)[:80] + ")") if missing else ""))


# ---- (b) ----------------------------------------------------------------------------------------------------------

def eval_crash(d):
    fam, seed, ngen, g = d["family"], d["seed"], d["ngen"], d["g"]
    protos = d["protos"]
    rtrace, rfinal = reference(fam, seed, ngen)
    tmp = tempfile.mkdtemp(prefix="c17-")
    orc = None
    try:
        a = subprocess.Popen(CHILD + ["crash", fam, str(seed), str(g), tmp, ",".join(map(str, protos))],
                             stdout=subprocess.PIPE, stderr=subprocess.PIPE, text=True, env=child_env(d.get("hs", 1)))
        import select
        ready, _, _ = select.select([a.stdout], [], [], READY_TIMEOUT)
        line = a.stdout.readline() if ready else "TIMEOUT"
        if line.strip() != "READY":
            a.kill()
            err = a.stderr.read()
            a.wait()
            orc = "checkpointing process failed before the kill: %s" % err[-600:]
        else:
            os.kill(a.pid, signal.SIGKILL)
            a.wait()
            if a.returncode != -signal.SIGKILL:
                raise Infra("worker was not killed by SIGKILL (returncode %r)" % a.returncode)
        if orc is None:
            bs = []
            for p in protos:
                bs.append((p, subprocess.Popen(CHILD + ["resume", fam, os.path.join(tmp, "cp%d.pkl" % p), str(ngen)],
                                               stdout=subprocess.PIPE, stderr=subprocess.PIPE, text=True,
                                               env=child_env(d.get("hs", 1) + 1 + p))))
            for p, b in bs:
                out, err = b.communicate(timeout=600)
                if orc is not None:
                    continue
                if b.returncode != 0:
                    orc = "protocol %d: resuming process failed: %s" % (p, err[-600:])
                    continue
                res = json.loads(out.strip().split("\n")[-1])
                orc = compare("protocol %d: killed after generation %d and resumed in a new process" % (p, g),
                              res["trace"], res["final"], rtrace, rfinal, from_gen=g)
    finally:
        shutil.rmtree(tmp, ignore_errors=True)
    if orc:
        orc = "family=%s seed=%d ngen=%d crash-generation=%d: %s" % (fam, seed, ngen, g, orc)
    return Case(d, [], [], orc, tag="crash/%s/g=%d/protocols=%d" % (fam, g, len(protos)))


# ---- (c) ----------------------------------------------------------------------------------------------------------

class Delayed(object):
    """Picklable task wrapper: sleeps the delay chosen for this submission index, evaluates, reports when done."""

    def __init__(self, f, delays):
        self.f, self.delays = f, delays

    def __call__(self, task):
        i, x = task
        time.sleep(self.delays[i % len(self.delays)])
        r = self.f(x)
        return r, time.time()


def eval_pool(d):
    import random as _r
    fam, seed, ngen, w = d["family"], d["seed"], d["ngen"], d["w"]
    rtrace, rfinal = reference(fam, seed, ngen)
    drng = _r.Random(d["dseed"])
    orders = set()
    calls = [0]
    ctx = multiprocessing.get_context(d.get("start", "fork"))
    pool = ctx.Pool(w)
    try:
        def mapper(f, xs):
            xs = list(xs)
            delays = [drng.choice([0.0, 0.001, 0.002, 0.004]) for _ in range(max(1, len(xs)))]
            res = pool.map_async(Delayed(f, delays), list(enumerate(xs)), chunksize=1).get(timeout=POOL_TIMEOUT)
            done = sorted(range(len(res)), key=lambda i: res[i][1])
            orders.add(tuple(done))
            calls[0] += 1
            return [r for r, _ in res]
        try:
            st, trace = F.run(fam, seed, ngen, mapper=mapper)
            orc = None
        except multiprocessing.TimeoutError:
            orc = "parallel map did not return within %d s" % POOL_TIMEOUT
    finally:
        pool.terminate()
        pool.join()
    if orc is None:
        orc = compare("toolbox.map = Pool(%d).map (%s)" % (w, d.get("start", "fork")),
                      dict((str(k), v) for k, v in trace.items()), norm(F.fingerprint(st)), rtrace, rfinal)
    if orc:
        orc = "family=%s seed=%d ngen=%d workers=%d delay-seed=%d: %s" % (fam, seed, ngen, w, d["dseed"], orc)
    nonid = sum(1 for o in orders if list(o) != sorted(o))
    lines, expect = [], []
    obs = sorted(o for o in orders if list(o) != sorted(o))[:1] or sorted(orders)[:1]
    for o in obs:          # a completion order the real pool produced, replayed through the model of the ordered map
        xs = [((seed + 5 * i) % 19) - 9 for i in range(len(o))]
        got = slot_map(lambda x: 3 * x + 1, xs, list(o))
        lines.append("C17 pmap %s %s" % (",".join(map(str, xs)) or "-", ",".join(map(str, o)) or "-"))
        expect.append("none" if got is None else (",".join(map(str, got)) or "-"))
    return Case(d, lines, expect, orc, tag="pool/%s/w=%d/%s/out-of-order-calls=%s" % (
        fam, w, d.get("start", "fork"), "0" if nonid == 0 else "1+"))


def nth_perm(n, i):
    """The i-th permutation of range(n) in lexicographic order (i taken modulo n!)."""
    items = list(range(n))
    fact = 1
    for k in range(2, n + 1):
        fact *= k
    i %= fact
    out = []
    for k in range(n, 0, -1):
        fact //= k
        j, i = divmod(i, fact)
        out.append(items.pop(j))
    return out


def slot_map(f, xs, sched):
    """Order-preserving map with an explicit completion schedule: tasks complete in the order `sched` and write
    their result into the slot of their submission index; None when a task never completes."""
    xs = list(xs)
    buf = [None] * len(xs)
    fill = [False] * len(xs)
    for i in sched:
        if 0 <= i < len(xs):
            buf[i] = f(xs[i])
            fill[i] = True
    return buf if all(fill) else None


def perm_for(mode, n, call, rng):
    if mode == "reverse":
        return list(range(n))[::-1]
    if mode == "rotate":
        k = (call + 1) % max(n, 1)
        return list(range(k, n)) + list(range(k))
    if mode.startswith("lex:"):
        return nth_perm(n, int(mode[4:]))
    p = list(range(n))
    rng.shuffle(p)
    return p


def eval_perm(d):
    import random as _r
    fam, seed, ngen, mode = d["family"], d["seed"], d["ngen"], d["mode"]
    rtrace, rfinal = reference(fam, seed, ngen)
    prng = _r.Random(d.get("pseed", 0))
    calls = [0]
    sizes = []

    def mapper(f, xs):
        xs = list(xs)
        p = perm_for(mode, len(xs), calls[0], prng)
        calls[0] += 1
        sizes.append(len(xs))
        return slot_map(f, xs, p)
    st, trace = F.run(fam, seed, ngen, mapper=mapper)
    orc = compare("in-process order-preserving map completing in order %s" % mode,
                  dict((str(k), v) for k, v in trace.items()), norm(F.fingerprint(st)), rtrace, rfinal)
    if orc:
        orc = "family=%s seed=%d ngen=%d schedule=%s: %s" % (fam, seed, ngen, mode, orc)
    # the same schedule through the Lean model of the order-preserving map
    n = max(sizes) if sizes else 0
    xs = [((seed + 7 * i) % 23) - 11 for i in range(n)]
    p = perm_for(mode, n, 0, _r.Random(d.get("pseed", 0)))
    got = slot_map(lambda x: 3 * x + 1, xs, p)
    line = "C17 pmap %s %s" % (",".join(map(str, xs)) or "-", ",".join(map(str, p)) or "-")
    exp = "none" if got is None else (",".join(map(str, got)) or "-")
    if got != [3 * x + 1 for x in xs] and orc is None:
        orc = "slot map with a permutation schedule differs from the serial map"
    return Case(d, [line], [exp], orc, tag="perm/%s/%s" % (fam, mode.split(":")[0]))


# ---- the algebra, model vs. the helpers above ---------------------------------------------------------------------

def eval_pmap(d):
    xs, sched = d["xs"], d["sched"]
    got = slot_map(lambda x: 3 * x + 1, xs, sched)
    covers = all(i in sched for i in range(len(xs)))
    orc = None
    if covers and got != [3 * x + 1 for x in xs]:
        orc = "complete schedule but result differs from the serial map"
    if not covers and got is not None:
        orc = "a task never completed but a result was returned"
    line = "C17 pmap %s %s" % (",".join(map(str, xs)) or "-", ",".join(map(str, sched)) or "-")
    return Case(d, [line], ["none" if got is None else (",".join(map(str, got)) or "-")], orc,
                tag="pmap/%s" % ("complete" if covers else "incomplete"))


def eval_toy(d):
    n, k, a, b, drop = d["n"], d["at"], d["a"], d["b"], d["drop"]

    def step(s):
        return (s[0] + s[1], s[1] + 1)

    def run(m, s):
        for _ in range(m):
            s = step(s)
        return s
    full = run(n, (a, b))
    mid = run(k, (a, b))
    blob = pickle.dumps(mid if not drop else (mid[0], 0), d.get("proto", 2))   # enc; drop = incomplete checkpoint
    res = run(n - k, pickle.loads(blob))
    orc = None
    if not drop and res != full:
        orc = "complete checkpoint but the resumed toy run differs"
    return Case(d, ["C17 resume %d %d %d,%d %d" % (n, k, a, b, 1 if drop else 0)],
                ["%d,%d %d,%d" % (full + res)], orc, tag="toy/%s" % ("incomplete" if drop else "complete"))


def hstep(uses, s):
    """The toy of Resume.toyHidden: visible number, hidden position of a two-element cycle."""
    v, h = s
    return ((2 * v + 1) if (uses and h) else 2 * v, not h)


def eval_hres(d):
    """The hidden-state algebra of the driver (Resume.HRun / toyHidden) against a harness-local helper: uninterrupted
    run, kill + new process (hidden = h0), second run in the same process, same-process restore."""
    u, n, k, v, h, h0 = d["uses"], d["n"], d["at"], d["v"], d["h"], d["h0"]

    def run(m, s):
        for _ in range(m):
            s = hstep(u, s)
        return s
    full = run(n, (v, h))
    mid = run(k, (v, h))
    vis = pickle.loads(pickle.dumps(mid[0], d.get("proto", 2)))            # enc / dec keep the visible part only
    res = run(n - k, (vis, h0))
    again = run(n, (v, full[1]))
    same = run(n - k, (vis, full[1]))
    orc = None
    if not u and not (res[0] == full[0] == again[0] == same[0]):
        orc = "hidden state that is never read, yet a resumed / repeated toy run shows another visible state"
    sh = lambda s: "%d,%d" % (s[0], 1 if s[1] else 0)  # noqa: E731
    return Case(d, ["C17 hresume %d %d %d %d %d %d" % (1 if u else 0, n, k, v, 1 if h else 0, 1 if h0 else 0)],
                ["%s %s %s %s" % (sh(full), sh(res), sh(again), sh(same))], orc,
                tag="hres/%s" % ("read" if u else "write-only"))


def _mig_sel(name):
    from deap import tools
    import functools
    return {"best": tools.selBest, "worst": tools.selWorst, "random": tools.selRandom,
            "tourn": functools.partial(tools.selTournament, tournsize=2),
            "dup": lambda p, k: [p[0]] * k, "rev": lambda p, k: list(p[::-1][:k])}[name]


def eval_mig(d):
    """tools.migRing on demes with equal genomes, against Migration.migRingWith (the results of the selection /
    replacement calls are recorded and handed to the model); and twice from identical seeds."""
    import random as _r
    from deap import tools
    outs = []
    for rep in (1, 2):
        demes = [[F.IndBits(g) for g in deme] for deme in d["demes"]]
        keys, oid, n = {}, {}, 0
        for deme in demes:
            for ind in deme:
                ind.fitness.values = F.eval_onemax(ind)
                keys.setdefault(tuple(ind), len(keys))
                oid[id(ind)] = n
                n += 1
        tok = lambda ind: "%d.%d" % (keys[tuple(ind)], oid[id(ind)])  # noqa: E731
        show = lambda ll: ";".join(",".join(tok(i) for i in l) or "-" for l in ll) if ll else "."  # noqa: E731
        before = show(demes)
        rec_e, rec_i = [], []

        def wrap(f, rec):
            def g(p, k):
                r = list(f(p, k))
                rec.append(r)
                return r
            return g
        _r.seed(d["seed"])
        try:
            tools.migRing(demes, d["km"], wrap(_mig_sel(d["sel"]), rec_e),
                          wrap(_mig_sel(d["rep"]), rec_i) if d["rep"] else None, d["migarray"])
            ans = ";".join(",".join(str(oid[id(i)]) for i in l) or "-" for l in demes) if demes else "."
        except (ValueError, IndexError):
            ans = "none"
        if len(rec_e) != len(demes):
            raise Infra("selection raised inside migRing's first loop: not a valid input")
        line = "C17 mig %s %s %s %s" % (before, show(rec_e), show(rec_i if d["rep"] else rec_e),
                                         "none" if d["migarray"] is None else (",".join(map(str, d["migarray"])) or "-"))
        outs.append((line, ans, [len(x) for x in demes]))
    orc = None
    if outs[0][:2] != outs[1][:2]:
        orc = "migRing called twice from identical generator states on equal demes gives different results"
    elif outs[0][1] != "none" and outs[0][2] != [len(x) for x in d["demes"]]:
        orc = "CORRESPONDENCE: migRing changed the size of a deme (C17.migRing_shape)"
    elif outs[0][1] != "none" and not d["rep"] and len(set(len(e) for e in rec_e)) <= 1 and (
            d["migarray"] is None or sorted(d["migarray"]) == list(range(len(demes)))):
        if sorted(tuple(i) for l in demes for i in l) != sorted(tuple(g) for l in d["demes"] for g in l):
            orc = "CORRESPONDENCE: migRing lost or duplicated a genome (C17.migRing_conserves)"
    return Case(d, [outs[0][0]], [outs[0][1]], orc,
                tag="mig/%s/%s" % ("raise" if outs[0][1] == "none" else "ok", "replacement" if d["rep"] else "emigrants"))


def evaluate(d):
    return {"det": eval_det, "crash": eval_crash, "pool": eval_pool, "perm": eval_perm, "pmap": eval_pmap,
            "toy": eval_toy, "rerun": eval_rerun, "inproc": eval_inproc, "op": eval_op,
            "opcover": eval_opcover, "hres": eval_hres, "mig": eval_mig}[d["k"]](d)


# ---- generation ---------------------------------------------------------------------------------------------------

ALL_W = [1, 2, 3, 4, 5, 6, 7, 8]


def generate(tier, rng, mult):
    """WHICH families / clauses run never depends on the seed: seeds vary the run seeds, the delay seeds, the hash
    seeds and the ROTATION of pickle protocols over the crash points (quick: two protocols per crash point, all six
    protocols occur along every family's crash points)."""
    thorough = tier == "thorough"
    seeds = [rng.randint(0, 10 ** 6) for _ in range(3 if thorough else 1)]
    ngen = 6 if thorough else 3
    fams = list(F.ORDER) + list(F.EXTRA)
    hs = rng.randint(1, 10 ** 6)
    off = rng.randint(0, 5)
    # (a) determinism, every family (incl. the shared-input variants and the packaged loops)
    for s in seeds:
        for f in F.SHARED + fams + F.HEAVY + F.PACKAGED:
            yield {"k": "det", "family": f, "seed": s, "ngen": F.ngen_for(f, ngen), "hs": hs}
    # address / hash-order sensitivity shows only in some runs: the user-typed GP family gets more run seeds
    for f in fams:
        if F.hash_sensitive(f) and f.endswith("_user"):
            for _ in range(4):
                yield {"k": "det", "family": f, "seed": rng.randint(0, 10 ** 6), "ngen": F.ngen_for(f, ngen),
                       "hs": rng.randint(1, 10 ** 6)}
    # hidden state, targeted: every family twice in a row (run lengths 0, 1, 2 ...), and every checkpoint of every
    # family restored in the SAME process; then every public operator once (thorough: five inputs each).  `mult` > 1
    # (anchor drift, failing-input search after a hidden-state report) adds run seeds.
    tseeds = seeds + [rng.randint(0, 10 ** 6) for _ in range(min(mult, 20) - 1)]
    for s in tseeds:
        for f in F.SHARED + fams + F.PACKAGED:
            ng = F.ngen_for(f, ngen) if not f.startswith("pk_") else ngen
            yield {"k": "rerun", "family": f, "seed": s, "gs": [0, 1, 2] if thorough else [0, 1], "ngen": ng}
        for f in fams + F.HEAVY:
            yield {"k": "inproc", "family": f, "seed": s, "ngen": F.ngen_for(f, ngen), "off": off, "hs": hs}
    for name in O.ORDER:
        for _ in range((5 if thorough else 1) * min(mult, 5)):
            yield {"k": "op", "op": name, "seed": rng.randint(0, 10 ** 6)}
    yield {"k": "opcover"}
    # (b) EVERY family, every crash point
    for s in seeds:
        for f in fams + F.HEAVY + (["cma_es_shared"] if thorough else []):
            ng = F.ngen_for(f, ngen)
            for g in range(0, ng + 1):
                protos = PROTOCOLS if thorough else sorted(set([(off + g) % 6, (off + g + 3) % 6]))
                yield {"k": "crash", "family": f, "seed": s, "ngen": ng, "g": g, "protos": protos, "hs": hs + g}
    # (c) pools: worker counts 1..8 (quick: all eight for two families, three per family for the others, assigned by
    #     the family's position, not by the seed); one "spawn" pool
    for s in seeds[:1]:
        for i, f in enumerate(fams + F.PACKAGED):
            ws = ALL_W if (thorough or f in ("ga_list", "pk_simple")) else [ALL_W[(3 * i + j) % 8] for j in range(3)]
            for w in ws:
                yield {"k": "pool", "family": f, "seed": s, "ngen": min(F.ngen_for(f, ngen), 4), "w": w,
                       "dseed": rng.randint(0, 10 ** 6), "start": "fork"}
        for f in (fams[:3] if thorough else fams[:1]):
            yield {"k": "pool", "family": f, "seed": s, "ngen": 2, "w": 2, "dseed": rng.randint(0, 10 ** 6),
                   "start": "spawn"}
    # (c) adversarial permutations: all 24 orders of the 4-task calls of the small variants, plus structured ones
    for s in seeds[:1]:
        for f in fams:
            for i in range(24):
                yield {"k": "perm", "family": f + ":s", "seed": s, "ngen": 3, "mode": "lex:%d" % i}
            for mode in ("reverse", "rotate", "random"):
                yield {"k": "perm", "family": f, "seed": s, "ngen": F.ngen_for(f, ngen), "mode": mode,
                       "pseed": rng.randint(0, 999)}
        for f in F.PACKAGED:
            for mode in ("reverse", "rotate", "random", "random"):
                yield {"k": "perm", "family": f, "seed": s, "ngen": ngen, "mode": mode, "pseed": rng.randint(0, 999)}
    # the algebra of the driver (see EXPLANATION: these lines are tied to nothing in /repo)
    for _ in range(300 if thorough else 60):
        n = rng.randint(0, 6)
        xs = [rng.randint(-20, 20) for _ in range(n)]
        r = rng.random()
        if r < 0.5:
            sched = list(range(n))
            rng.shuffle(sched)
        elif r < 0.75:
            sched = [rng.randint(0, n + 1) for _ in range(rng.randint(0, 2 * n + 1))]
        else:
            sched = list(range(n)) + [rng.randint(0, n + 2) for _ in range(3)]
            rng.shuffle(sched)
        yield {"k": "pmap", "xs": xs, "sched": sched}
    for _ in range(100 if thorough else 30):
        n = rng.randint(0, 8)
        yield {"k": "toy", "n": n, "at": rng.randint(0, n), "a": rng.randint(-5, 5), "b": rng.randint(-5, 5),
               "drop": rng.random() < 0.4, "proto": rng.choice(PROTOCOLS)}
    for _ in range(100 if thorough else 30):
        n = rng.randint(0, 8)
        yield {"k": "hres", "uses": rng.random() < 0.6, "n": n, "at": rng.randint(0, n), "v": rng.randint(-5, 5),
               "h": rng.random() < 0.5, "h0": rng.random() < 0.5, "proto": rng.choice(PROTOCOLS)}
    # tools.migRing against its model (tied to /repo): demes over a small genome universe (equal genomes: `index` uses ==)
    for _ in range(1500 if thorough else 150):
        nd = rng.choice([0, 1, 2, 2, 3, 3, 3, 4])
        uni = [[rng.randint(0, 1) for _ in range(3)] for _ in range(rng.randint(1, 6))]
        demes = [[list(rng.choice(uni)) for _ in range(rng.randint(1, 5))] for _ in range(nd)]
        r = rng.random()
        if r < 0.5:
            ma = None
        elif r < 0.85:
            ma = list(range(nd))
            rng.shuffle(ma)
        else:
            ma = [rng.randint(0, nd) for _ in range(rng.randint(0, nd + 1))]
        yield {"k": "mig", "demes": demes, "km": rng.randint(0, 3), "seed": rng.randint(0, 10 ** 6),
               "sel": rng.choice(["best", "worst", "random", "tourn", "rev", "dup"]),
               "rep": rng.choice([None, None, "worst", "random", "best", "dup", "rev"]), "migarray": ma}
    if thorough:
        for s in seeds:
            for f in fams:
                for j in range(10 * mult):
                    yield {"k": "perm", "family": f, "seed": s, "ngen": F.ngen_for(f, ngen), "mode": "random",
                           "pseed": rng.randint(0, 10 ** 6)}


def shrink(d):
    if d["k"] == "crash" and len(d["protos"]) > 1:
        for p in d["protos"]:
            yield dict(d, protos=[p])
    if d["k"] in ("det", "pool", "perm") and d.get("ngen", 0) > 1:
        yield dict(d, ngen=d["ngen"] - 1)
    if d["k"] == "pmap":
        for i in range(len(d["sched"])):
            yield dict(d, sched=d["sched"][:i] + d["sched"][i + 1:])


def classify(desc, msg, known):
    for k in known:
        key = k.get("match") or ""
        if key and key in msg:
            return k.get("id")
    return None
