"""Generic HIDDEN-STATE detector for C17.

The property allows exactly five carriers of state between generations: population, archive, logbook, strategy object
and the two generator states.  Everything else a run leaves behind in the library is state *outside* a checkpoint.
`snapshot()` takes a deep fingerprint of ALL module-level and class-level state of every loaded `deap.*` module:

  * module globals: mutable containers (deep, by content), iterators / generators (by identity AND by their
    `__reduce__` state, generators by frame position and locals), random generators (by state), numbers / strings
    (a rebound module constant is state too), functools caches (by size), partial objects, arbitrary instances (by
    their attributes);
  * classes defined in a deap module (also the classes `deap.creator` built, and the metaclasses): every class
    attribute, recursively for nested classes;
  * functions and methods: `__defaults__`, `__kwdefaults__`, the contents of their closure cells, function attributes;
  * extra roots handed in by the caller (the script-level objects a restoring process re-creates by executing the
    script: primitive sets, toolboxes) under the name the caller gives.

`diff(before, after)` lists the paths whose fingerprint changed, e.g. `deap.gp._half_and_half`.  What legitimately
appears during a script is not reported: NEW names in `deap.creator` (classes made by `creator.create`) and NEW entries
of `deap.gp.MetaEphemeral.cache` (ephemeral classes registered by `addEphemeralConstant` / re-created by unpickling);
a change of an EXISTING one is reported.  `__builtins__` inside a primitive set's `context` is put there by `eval`.

This is the executable premise of `C17.resume_of_hidden_constant` / `C17.resume_iff_hidden_irrelevant`
(lean/DeapModel/Props/C17.lean): a step that leaves the unsaved component H as it found it resumes correctly; a step
that writes H resumes correctly iff H never reaches the visible output — which the targeted histories of
harness/props/c17.py (`rerun`, `inproc`) then decide on the implementation.
"""
import array
import collections
import functools
import hashlib
import itertools
import random
import sys
import types
import warnings

import numpy

MAX_DEPTH = 9
SKIP_MODULE_NAMES = frozenset(["__builtins__", "__cached__", "__spec__", "__loader__", "__file__", "__path__",
                               "__package__", "__name__", "__doc__", "__warningregistry__"])
SKIP_CLASS_NAMES = frozenset(["__dict__", "__slotnames__", "__weakref__", "__doc__", "__module__", "__qualname__", "__slots__",
                              "__firstlineno__", "__static_attributes__", "__annotations__", "__orig_bases__",
                              "__parameters__", "__abstractmethods__", "_abc_impl"])


def _h(b):
    return hashlib.sha1(b).hexdigest()[:12]


def _qual(o):
    return "%s.%s" % (getattr(o, "__module__", "?"), getattr(o, "__qualname__", getattr(o, "__name__", "?")))


def _is_deap(modname):
    return modname == "deap" or (isinstance(modname, str) and modname.startswith("deap."))


class _Walker(object):
    """Collects {path: token}; tokens are JSON-able values that are equal iff the described state is equal."""

    def __init__(self):
        self.out = {}
        self.classes_done = set()
        self.funcs_done = set()
        self.in_reduce = 0

    # ---- values -----------------------------------------------------------------------------------------------
    def deep(self, v, depth=0, stack=()):
        if v is None or isinstance(v, (bool, int, str)):
            return v
        if isinstance(v, float):
            return ["f", repr(v)]
        if isinstance(v, (bytes, bytearray)):
            return ["bytes", type(v).__name__, _h(bytes(v))]
        if isinstance(v, complex):
            return ["c", repr(v)]
        if isinstance(v, types.ModuleType):
            return ["module", v.__name__]
        if isinstance(v, type):
            return ["class", _qual(v)]
        if isinstance(v, (types.FunctionType, types.BuiltinFunctionType)):
            return ["function", _qual(v)]
        if isinstance(v, (types.MethodType, types.BuiltinMethodType, types.MethodWrapperType)):
            s = getattr(v, "__self__", None)
            return ["method", getattr(v, "__name__", "?"), _qual(s) if isinstance(s, type) else type(s).__name__]
        if id(v) in stack:
            return ["cycle"]
        if depth > MAX_DEPTH:
            return ["deep", type(v).__name__]
        stack = stack + (id(v),)
        d = depth + 1
        if isinstance(v, numpy.ndarray):
            if v.dtype == object:
                return ["nd-object", list(v.shape), [self.deep(x, d, stack) for x in v.ravel().tolist()]]
            return ["nd", str(v.dtype), list(v.shape), _h(numpy.ascontiguousarray(v).tobytes())]
        if isinstance(v, numpy.generic):
            return ["np", str(v.dtype), repr(v.item())]
        if isinstance(v, array.array):
            return ["array", v.typecode, _h(v.tobytes())]
        if isinstance(v, (list, tuple, collections.deque)):
            return [type(v).__name__, [self.deep(x, d, stack) for x in v]]
        if isinstance(v, (dict, types.MappingProxyType)):
            extra = []
            if isinstance(v, collections.defaultdict):
                extra = [self.deep(v.default_factory, d, stack)]
            return [type(v).__name__, [[self.key(k), self.deep(x, d, stack)] for k, x in list(v.items())
                                       if k != "__builtins__"]] + extra
        if isinstance(v, (set, frozenset)):
            return [type(v).__name__, sorted((self.deep(x, d, stack) for x in v), key=repr)]
        if isinstance(v, functools.partial):
            return ["partial", self.deep(v.func, d, stack), self.deep(v.args, d, stack),
                    self.deep(v.keywords, d, stack)]
        if isinstance(v, random.Random):
            return ["random.Random", _h(repr(v.getstate()).encode())]
        if isinstance(v, numpy.random.RandomState):
            st = v.get_state()
            return ["numpy.RandomState", _h(numpy.asarray(st[1]).tobytes()), int(st[2]), int(st[3]), repr(st[4])]
        if hasattr(numpy.random, "Generator") and isinstance(v, numpy.random.Generator):
            return ["numpy.Generator", _h(repr(v.bit_generator.state).encode())]
        if hasattr(v, "cache_info") and hasattr(v, "cache_clear"):          # functools.lru_cache / cache
            ci = v.cache_info()
            return ["lru_cache", _qual(v), ci.currsize]
        if isinstance(v, types.GeneratorType):
            fr = v.gi_frame
            return ["generator", id(v), None if fr is None else
                    [fr.f_lasti, [[k, self.deep(x, d, stack)] for k, x in sorted(fr.f_locals.items())]]]
        if hasattr(v, "__next__"):                                           # any other iterator
            # identity of the iterator object itself; the helper iterators its __reduce__ builds are fresh objects
            tok = ["iterator", type(v).__name__, None if self.in_reduce else id(v)]
            try:
                with warnings.catch_warnings():
                    warnings.simplefilter("ignore")
                    red = v.__reduce__()
                self.in_reduce += 1
                try:
                    tok.append(self.deep(list(red[1:]), d, stack))
                finally:
                    self.in_reduce -= 1
            except Exception:  # noqa
                try:
                    tok.append(["length_hint", v.__length_hint__()])
                except Exception:  # noqa
                    tok.append("opaque")
            return tok
        if isinstance(v, (staticmethod, classmethod)):
            return [type(v).__name__, self.deep(v.__func__, d, stack)]
        if isinstance(v, property):
            return ["property", self.deep(v.fget, d, stack), self.deep(v.fset, d, stack), self.deep(v.fdel, d, stack)]
        attrs = []
        if hasattr(v, "__dict__"):
            attrs += [[k, self.deep(x, d, stack)] for k, x in sorted(vars(v).items())]
        for cls in type(v).__mro__:
            for s in getattr(cls, "__slots__", ()) if isinstance(getattr(cls, "__slots__", ()), (tuple, list)) else ():
                if hasattr(v, s) and s not in ("__dict__", "__weakref__"):
                    attrs.append([s, self.deep(getattr(v, s), d, stack)])
        if attrs:
            return ["obj", _qual(type(v)), attrs]
        if isinstance(v, (types.CodeType, types.GetSetDescriptorType, types.MemberDescriptorType,
                          types.WrapperDescriptorType, types.MethodDescriptorType, types.ClassMethodDescriptorType)):
            return ["static", type(v).__name__]
        try:
            r = repr(v)
        except Exception:  # noqa
            r = "?"
        if " at 0x" in r:                # default repr: identity only
            return ["opaque", _qual(type(v))]
        return ["repr", _qual(type(v)), r]

    def key(self, k):
        if isinstance(k, (str, int, bool, float)) or k is None:
            return repr(k)
        if isinstance(k, type):
            return "class:" + _qual(k)
        if isinstance(k, tuple):
            return "(" + ",".join(self.key(x) for x in k) + ")"
        return "%s:%s" % (type(k).__name__, _h(repr(self.deep(k)).encode()))

    # ---- structure --------------------------------------------------------------------------------------------
    def func(self, path, f):
        """Mutable parts of a function: defaults, keyword defaults, closure cells, attributes."""
        if id(f) in self.funcs_done:
            return
        self.funcs_done.add(id(f))
        if f.__defaults__:
            for i, x in enumerate(f.__defaults__):
                self.value("%s.__defaults__[%d]" % (path, i), x)
        if f.__kwdefaults__:
            for k, x in sorted(f.__kwdefaults__.items()):
                self.value("%s.__kwdefaults__[%s]" % (path, k), x)
        if f.__closure__:
            for name, cell in zip(f.__code__.co_freevars, f.__closure__):
                try:
                    x = cell.cell_contents
                except ValueError:
                    self.out["%s.<closure %s>" % (path, name)] = ["empty-cell"]
                    continue
                self.value("%s.<closure %s>" % (path, name), x)
        for k, x in sorted(vars(f).items()):
            if k != "__wrapped__":
                self.value("%s.%s" % (path, k), x)
        w = getattr(f, "__wrapped__", None)
        if isinstance(w, types.FunctionType):
            self.func(path + ".__wrapped__", w)

    def klass(self, path, cls):
        if id(cls) in self.classes_done:
            return
        self.classes_done.add(id(cls))
        self.out[path] = ["class", _qual(cls), [_qual(b) for b in cls.__bases__]]
        for k, x in list(vars(cls).items()):
            if k in SKIP_CLASS_NAMES:
                continue
            self.value("%s.%s" % (path, k), x)

    def value(self, path, x):
        if isinstance(x, (staticmethod, classmethod)):
            x = x.__func__
        if isinstance(x, property):
            for nm in ("fget", "fset", "fdel"):
                g = getattr(x, nm)
                if isinstance(g, types.FunctionType):
                    self.func("%s.%s" % (path, nm), g)
            return
        if isinstance(x, types.FunctionType):
            self.out[path] = ["function", _qual(x)]
            if _is_deap(getattr(x, "__module__", None)) or x.__closure__ or x.__defaults__ or vars(x):
                self.func(path, x)
            return
        if isinstance(x, type):
            if _is_deap(getattr(x, "__module__", None)):
                self.klass(path, x)
            else:
                self.out[path] = ["class", _qual(x)]
            return
        self.out[path] = self.deep(x)

    def module(self, mod):
        for name, x in sorted(vars(mod).items()):
            if name in SKIP_MODULE_NAMES:
                continue
            if isinstance(x, types.ModuleType):
                self.out["%s.%s" % (mod.__name__, name)] = ["module", x.__name__]
                continue
            self.value("%s.%s" % (mod.__name__, name), x)


def snapshot(extra=None):
    """{path: token} for every deap.* module loaded in this interpreter, plus the caller's `extra` roots
    ({name: object}: primitive sets, toolboxes ... — the script-level objects)."""
    w = _Walker()
    for name in sorted(sys.modules):
        if _is_deap(name) and sys.modules[name] is not None:
            w.module(sys.modules[name])
    for name, obj in sorted((extra or {}).items()):
        w.value("script:" + name, obj)
    return w.out


def _pairs(x):
    return isinstance(x, list) and all(isinstance(e, list) and len(e) == 2 and isinstance(e[0], str) for e in x)


def _inner(path, a, b):
    """Descend into two differing tokens to name the innermost differing position (best effort)."""
    if isinstance(a, list) and isinstance(b, list):
        if a and b and _pairs(a) and _pairs(b):                 # attribute / item lists: compare by name
            da, db = dict((k, v) for k, v in a), dict((k, v) for k, v in b)
            for k in sorted(set(da) | set(db)):
                if k not in da:
                    return "%s[%s]" % (path, k), "<absent>", db[k]
                if k not in db:
                    return "%s[%s]" % (path, k), da[k], "<absent>"
                if da[k] != db[k]:
                    return _inner("%s[%s]" % (path, k), da[k], db[k])
        if len(a) == len(b):
            for x, y in zip(a, b):
                if x != y:
                    return _inner(path, x, y)
    return path, a, b


def diff(before, after):
    """[(path, before-token, after-token)] for every path that changed; GROW_ONLY additions are not reported."""
    res = []
    for p in sorted(set(before) | set(after)):
        a, b = before.get(p, "<absent>"), after.get(p, "<absent>")
        if a == b:
            continue
        if a == "<absent>" and p.startswith("deap.creator."):
            top = ".".join(p.split(".")[:3])
            t = after.get(top)
            if top not in before and isinstance(t, list) and t[:1] == ["class"]:
                continue                      # a class made by creator.create during the run (and its attributes)
        if p == "deap.gp.MetaEphemeral.cache" and isinstance(a, list) and isinstance(b, list):
            ka = dict((k, x) for k, x in a[1])
            kb = dict((k, x) for k, x in b[1])
            if all(kb.get(k) == x for k, x in ka.items()):
                continue                      # only new ephemeral classes were registered
        q, x, y = _inner(p, a, b)
        res.append((q, x, y))
    return res


def describe(changes, limit=3):
    parts = []
    for p, a, b in changes[:limit]:
        sa, sb = repr(a), repr(b)
        parts.append("%s: %s -> %s" % (p, sa if len(sa) < 160 else sa[:157] + "...", sb if len(sb) < 160 else sb[:157] + "..."))
    more = "" if len(changes) <= limit else " (+%d more)" % (len(changes) - limit)
    return "; ".join(parts) + more
