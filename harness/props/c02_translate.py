"""C02 — the translator tie: `translate(repo)` for harness/lib.py::_translated_obligations.

Reads deap/algorithms.py of `repo` AS IT IS NOW, renders `varAnd` and `varOr` (and every helper of the module they call) with
harness/py2lean_c02.py as Lean definitions `Gen.<name>` and appends the committed theorems of
lean/DeapModel/GenEq/C02.lean.tmpl (`Gen.<name>` = the hand-written model of Core/Variation.lean composed with its draw decoders).
A function that has a theorem block in the template but is no longer translatable is a PROBLEM (the tie is broken); the other
public functions of the module are tried and only listed (the packaged loops of C03 are outside this sub-language)."""
import hashlib
import os
import re

import py2lean_c02 as P
from py2lean import Refuse

HERE = os.path.dirname(os.path.abspath(__file__))
GENEQ = os.path.normpath(os.path.join(HERE, "..", "..", "lean", "DeapModel", "GenEq"))
TEMPLATE = os.path.join(GENEQ, "C02.lean.tmpl")
DIGEST = os.path.join(GENEQ, "C02.defs.sha256")
REL = "deap/algorithms.py"

# parameter types: an assumption of the tie
SIGS = {
    "varAnd": {"population": P.LO, "toolbox": P.TB, "cxpb": P.F, "mutpb": P.F},
    "varOr": {"population": P.LO, "toolbox": P.TB, "lambda_": P.N, "cxpb": P.F, "mutpb": P.F},
}
OTHERS = ["eaSimple", "eaMuPlusLambda", "eaMuCommaLambda", "eaGenerateUpdate"]
LOOP_SIG = {"population": P.LO, "toolbox": P.TB, "cxpb": P.F, "mutpb": P.F, "mu": P.N, "lambda_": P.N, "ngen": P.N}

HEADER = """import DeapModel.Lemmas.C02Gen

set_option linter.unusedVariables false
set_option linter.unusedSimpArgs false

namespace Gen
open Variation

"""


def template_blocks():
    src = open(TEMPLATE).read()
    blocks, pre, cur, buf = {}, [], None, []
    for line in src.splitlines():
        m = re.match(r"^--! begin (\S+)\s*$", line)
        if m:
            cur, buf = m.group(1), []
            continue
        if re.match(r"^--! end\s*$", line):
            blocks[cur] = "\n".join(buf)
            cur = None
            continue
        (buf if cur is not None else pre).append(line)
    return "\n".join(pre), blocks


def theorem_names(text):
    return re.findall(r"^theorem\s+([\w.']+)", text, re.M)


def translate(repo):
    problems, refused, table, done, lost = [], [], [], [], []
    pre, blocks = template_blocks()
    try:
        mod = P.Module(os.path.join(repo, REL))
    except (OSError, SyntaxError) as e:
        return {"problems": ["%s unreadable: %s" % (REL, e)], "source": None, "theorems": [], "definitions": [], "refused": [],
                "table": [], "digest": ""}
    for name in list(SIGS) + OTHERS:
        full = "Gen." + name
        if name not in mod.functions:
            if full in blocks:
                problems.append("%s has theorems in the template but %s defines no function of that name any more" % (full, REL))
            continue
        try:
            P.translate_function(mod, name, SIGS.get(name) or
                                 {p.arg: LOOP_SIG.get(p.arg, "?") for p in mod.functions[name].args.args})
            done.append(full)
        except (Refuse, KeyError) as e:
            refused.append("%s:%s (%s)" % (REL, name, e))
            table.append((REL, name, "refused", str(e)))
            if full in blocks:
                lost.append(full)
                problems.append("%s:%s has left the translated sub-language (%s); its theorems %s cannot be checked"
                                % (REL, name, e, theorem_names(blocks[full])))
    out, defs, gen_texts = [HEADER], [], []
    for name in mod.order:                      # helpers before their callers
        text = mod.done[name][0]
        out.append("/-- `%s:%s` (line %d), regenerated from the source -/" % (REL, name, mod.functions[name].lineno))
        out.append(text)
        out.append("")
        gen_texts.append(text)
        defs.append("Gen." + name)
        table.append((REL, name, "translated", "theorem" if "Gen." + name in blocks else
                      ("helper" if "Gen." + name not in done else "no theorem")))
    out.append("end Gen\n")
    out.append(pre)
    theorems = []
    for full in done:
        if full in blocks:
            out.append(blocks[full])
            theorems += theorem_names(blocks[full])
    source = "\n".join(out)
    digest = hashlib.sha256("\n".join(gen_texts).encode()).hexdigest()
    try:
        known = open(DIGEST).read().split()
    except OSError:
        known = []
    if digest not in known and theorems:
        # name the theorems that fail (lib reports Lean's error lines only); costs time on a changed tree only
        from props import c20_translate
        failing = c20_translate.failing_theorems(source)
        if failing:
            problems.append("regenerated definitions differ from the committed digest; theorems that no longer hold: %s"
                            % ", ".join(failing))
    return {"problems": problems, "source": source, "theorems": theorems, "definitions": defs, "refused": refused,
            "table": table, "digest": digest}


if __name__ == "__main__":
    import sys
    r = translate(sys.argv[1] if len(sys.argv) > 1 else os.environ.get("DEAP_REPO", "/repo"))
    if len(sys.argv) > 2:
        open(sys.argv[2], "w").write(r["source"] + "\n" + "".join("#print axioms %s\n" % n for n in r["theorems"]))
    for row in r["table"]:
        print("%-20s %-18s %-10s %s" % row)
    print("problems:", r["problems"])
    print(len(r["definitions"]), "definitions,", len(r["theorems"]), "theorems,", len(r["refused"]), "refused; digest", r["digest"])
