"""C09 — Discrete crossovers and mutations conserve genes, lengths and permutations
(deap/tools/crossover.py, deap/tools/mutation.py)."""
import array
import itertools
import random as _random
import struct
import warnings
from collections import Counter

import numpy

from lib import Case, fbits
from tape import TapeExhausted, TapeMismatch
from deap import creator, tools
from props import c09_hist as HS

ANCHORS = [("deap/tools/crossover.py", ["cxOnePoint", "cxTwoPoint", "cxTwoPoints", "cxESTwoPoints", "cxUniform", "cxPartialyMatched",
                                        "cxUniformPartialyMatched", "cxOrdered", "cxMessyOnePoint",
                                        "cxESTwoPoint"]),
           ("deap/tools/mutation.py", ["mutShuffleIndexes", "mutFlipBit", "mutUniformInt", "mutInversion"])]
LEVEL = "proof"
RULE = ("exhaustive (forced value tape): PMX = all permutation pairs of 0..n-1 (n<=4) x every (cxpoint1,cxpoint2) that can "
        "be drawn; OX = the same pairs x every ordered sample (a,b); UPMX = the same pairs x all 2^n decision vectors; "
        "one-/two-point/messy/ES = fixed distinct-gene parents of all length pairs 2..5 (messy 0..4) x all cut points; uniform "
        "crossover / bit flip (int, bool and float coded) = all binary strings (pairs) of length <=4 x all decision vectors; "
        "shuffle / inversion / uniform-int = all draws for n<=4 (3). long permutations: n in 257..400 for PMX/UPMX/OX every run. "
        "random (recorded tape): n<=12, equal and different lengths, list / array('b','i','q','d') / numpy backing, |gene| up to "
        "2^40, float strategies, bounds as int/list/tuple/range/array up to +-2^40, indpb in {0, 1, boundary, random}. "
        "Call forms: every exported name of an operator is a stream of its own (cxTwoPoints, cxESTwoPoints = the documented "
        "former names) and parameters are passed positionally or by keyword (toolbox.register style). "
        "Representation stream (second in the run): EVERY operator is called with the same draws on list, array.array('q'/'d') "
        "AND numpy.ndarray individuals (ES: numpy individuals with numpy and with list strategies) and compared with the buffer "
        "model under both slice disciplines (`C09 buf ...`: copy = list/array, view = numpy) - slice crossovers on all length "
        "pairs 0..4 x all cuts (numpy: gene loss, ValueError, one-item broadcast, contents after the exception), inversion "
        "n<=5 x all index pairs, 120 random cases per operator. "
        "History stream (right after the long permutations): 2-6 events in ONE process on objects the caller keeps - fixed skeletons "
        "first (PMX/UPMX/OX: aborted call on a tour numbered 1..n or with a label >= size, then two valid calls, n = 2..7; "
        "mutUniformInt: per-gene bound lists moved far away in place between two calls, n = 1..6), then 70 (thorough 600) random "
        "histories per family {bounds, abort, reuse, mixed} x backing {list, list, array('q'), numpy}: individuals, low/up lists "
        "and strategies reused and overwritten in place (slice and item stores), calls the operator rejects in between "
        "(IndexError / ValueError caught), every operator of the statement; one `C09 hist ...` line per history. "
        "Non-trivial = the draws make the operator change at least one argument")
EXHAUSTIVE = {"quick": False, "thorough": False}
TIME_BUDGET = {"quick": 60, "thorough": 900}
MIN_CASES = 20000
TRUSTED = ["CPython list/array.array item and slice assignment and tuple-assignment order (right-hand side first, then "
           "targets left to right) as transcribed in Core/CrossMut.lean; every protocol line exercises them",
           "numpy semantics as transcribed in Core/Buffer.lean: a slice of a one-dimensional array is a window onto the same "
           "storage, an item read is a scalar (a value), slice assignment reads its whole right-hand side at assignment time "
           "(numpy >= 1.13 copies an overlapping right-hand side first), needs equal lengths or a one-item right-hand side "
           "(broadcast) and raises ValueError otherwise; exercised on real numpy arrays by every line of the `buf` stream",
           "random.randint/randrange/choice/sample return values inside their documented ranges (the guards `…Ok`; the "
           "model rejects any other draw)",
           "IEEE comparison random() < indpb is replayed in Lean Float (same operation)",
           "translator tie: harness/py2lean_c09.py (its docstring = the accepted Python sub-language and the rendering of every "
           "construct: object cells with aliasing, copy semantics of list slices, CPython's tuple-assignment order, state passing, "
           "the two-channel tape of the …R models) with lean/DeapModel/Core/GenPrelude.lean + GenPreludeC09.lean (slice bound "
           "adjustment, negative indices, item / slice assignment, randint/randrange/sample2/random on the tape, the for loop as a "
           "fold in Option) renders the operators' source faithfully and refuses what it does not list; the signature table of "
           "harness/props/c09_translate.py (individuals are lists of opaque genes / of ints, distinct objects; numpy views are "
           "outside the rendering and stay with the Buffer model + correspondence)",
           "in place / identity (returned objects ARE the arguments, strategy objects are kept, no name is rebound to a "
           "copy) is established on the real objects by `is` on every explored case; the Lean statements in_place1/2/_es "
           "only fix the model's convention and hold for any operator"]
ASSUMPTIONS = ["in a history every call is judged on the contents its arguments (individuals AND bound lists) have when it is made; a "
               "call on arguments outside the hypotheses (labels out of range, bounds too short or crossed, individuals shorter than 2 "
               "for the cut-point crossovers, slice crossovers on numpy) is only compared with the model, exception and partial "
               "state included; bound objects of mutUniformInt that the caller edits are plain lists",
               "the two parents are different objects; ES strategies are as long as their individuals",
               "permutation operators get two permutations of 0..n-1 of the same length",
               "the statement is judged (oracle) on list- and array.array-backed individuals for every operator and on numpy-backed "
               "ones for the element-wise operators (cxUniform, PMX, UPMX, OX, shuffle, bit flip, uniform int) only, as its quantifier "
               "says. On numpy.ndarray a slice is a view: cxOnePoint, cxTwoPoint(s), cxMessyOnePoint and cxESTwoPoint(s) lose the "
               "first parent's segment or raise ValueError (doc/tutorials/advanced/numpy.rst: these operators must be re-implemented "
               "with explicit copies; theorems C09.slice_swap_view_loses_genes, twopoint_view_exact, twopoint_view_conserves_iff). "
               "Those calls, and mutInversion on numpy (which is correct there: C09.inversion_repr_independent), are only compared "
               "with the `view` model - a correspondence check, never an oracle failure",
               "individuals are one-dimensional (an item of a numpy individual is a scalar, not a row view)",
               "bit-flip individuals are homogeneous: all genes int 0/1, all bool, or all float 0.0/1.0"]
EXPLANATION = ("Representation is explicit: Core/Buffer.lean models sequence objects as buffers in a heap with the slice "
               "disciplines copy (list, array.array) and view (numpy), Core/CrossMutBuf.lean re-expresses all operators over it "
               "statement by statement. Proved: under copy every operator completes under its guard (no subscript fails) and equals "
               "the list model (copy_refines_list, refines_list_*), the element-wise operators do not depend on the discipline "
               "(elementwise_repr_independent, *_any_backing), mutInversion is the same under both (inversion_repr_independent), the "
               "slice-swapping crossovers under view leave parent 2 unchanged and lose parent 1's segment (twopoint/onepoint/es_view_exact, "
               "twopoint_view_conserves_iff, slice_swap_view_loses_genes). "
               "Histories: OpHistory (Core/CrossMutBuf.lean) is a process whose state is the heaps of the caller's objects only; "
               "op_result_history_independent says that after any history - completed calls, calls aborted by an exception midway, the "
               "caller editing individuals and bound lists in place - a call that meets the hypotheses now leaves the list model's "
               "result on the current contents (bounds of mutUniformInt are objects read at call time). The history stream holds the "
               "real library against that machine event by event and judges every valid call by the statement against its own "
               "arguments at call time, so state a module keeps between calls (memoised bounds, markers dirtied by an aborted call) "
               "shows up as a failing history. "
               "Theorems C09.* hold for all gene lists, all lengths and all draws inside the ranges of the random functions; "
               "Core/CrossMut.lean is tied to deap.tools by replaying forced and recorded value tapes of the real operators "
               "(the tape is kind-agnostic: randint(a,b), randrange(a,b+1), choice(range) and the elements of sample() are "
               "all 'an integer draw'). uniform_int_bounds is a statement about position<->bound alignment: the model rejects "
               "(uniform_int_rejects) a randint answer outside the bounds zipped to its position, the contract of randint "
               "itself is trusted. Identity / in-place is checked on the real objects only.")


# ------------------------------------------------------------------------------------------------
# value tape (kind-agnostic)
# ------------------------------------------------------------------------------------------------
def translate(repo):
    """translator tie (lib._translated_obligations): Lean definitions regenerated from `repo`'s current source by
    harness/py2lean_c09.py + the committed theorems `Gen.<f> = CrossMut.<f>` (under the …Ok guard, with the rest of the
    tape; `none` outside) of lean/DeapModel/GenEq/C09.lean.tmpl"""
    from props import c09_translate
    import json
    import os
    import lib
    tr = c09_translate.translate(repo)
    try:
        os.makedirs(os.path.join(lib.OUT, "evidence"), exist_ok=True)
        with open(os.path.join(lib.OUT, "evidence", "C09.translated.json"), "w") as fh:
            json.dump({"definitions": len(tr["definitions"]), "theorems": len(tr["theorems"]),
                       "refused": len(tr["refused"]), "problems": tr["problems"],
                       "functions": [dict(file=f, name=n, status=st, detail=d) for f, n, st, d in tr["table"]],
                       "theorem_names": tr["theorems"]}, fh, indent=1)
            fh.write("\n")
    except (OSError, AttributeError):
        pass
    return tr


def _is_int(x):
    return isinstance(x, (int, numpy.integer)) and not isinstance(x, (bool, numpy.bool_))


class VTape(object):
    """Records / forces the draws of the `random` module by VALUE: a draw is ["r", x] (random()) or ["i", x]
    (any integer-valued draw: randint, randrange, choice over integers, each element of sample over integers).
    Equivalent draw APIs therefore replay on the same tape.  Anything else the code asks of `random`
    (uniform, shuffle, gauss, ...) cannot be replayed by the model: TapeMismatch."""
    PATCHED = ("random", "randint", "randrange", "choice", "sample")
    UNSUPPORTED = ("uniform", "shuffle", "gauss", "choices", "getrandbits", "normalvariate", "triangular",
                   "betavariate", "expovariate", "randbytes")

    def __init__(self, rng=None, forced=None):
        self.rng = rng
        self.forced = None if forced is None else flatten(forced)
        self.draws = []
        self._saved = {}
        self.unreplayable = None

    def __enter__(self):
        for n in self.PATCHED:
            self._saved[n] = getattr(_random, n)
            setattr(_random, n, getattr(self, "_" + n))
        for n in self.UNSUPPORTED:
            if hasattr(_random, n):
                self._saved[n] = getattr(_random, n)
                setattr(_random, n, self._unsupported(n))
        return self

    def __exit__(self, *a):
        for n, f in self._saved.items():
            setattr(_random, n, f)
        return False

    def _unsupported(self, name):
        def f(*a, **k):
            if self.forced is None and self.rng is not None and hasattr(self.rng, name):
                # free-running tape: let the call through (from this case's own generator) so that the statement can
                # still be judged on the result; the case is reported as a correspondence break unless the oracle fails
                self.unreplayable = name
                return getattr(self.rng, name)(*a, **k)
            raise TapeMismatch("code called random.%s, which the model cannot replay" % name)
        return f

    def _pop(self, kind, what):
        if not self.forced:
            raise TapeExhausted(what)
        t = self.forced.pop(0)
        if t[0] != kind:
            raise TapeMismatch("code asked for %s, tape has a %s draw" % (what, "random()" if t[0] == "r" else "integer"))
        return t[1]

    def _random(self):
        x = self.rng.random() if self.forced is None else self._pop("r", "random()")
        self.draws.append(["r", x])
        return x

    def _randint(self, a, b):
        if self.forced is None:
            x = self.rng.randint(a, b)
        else:
            if not (_is_int(a) and _is_int(b)):
                raise TypeError("randint bounds must be integers, got %r, %r" % (a, b))
            if a > b:
                raise ValueError("empty range for randrange() (%d, %d, %d)" % (a, b + 1, b + 1 - a))
            x = self._pop("i", "randint(%r,%r)" % (a, b))
            if not a <= x <= b:
                raise TapeMismatch("forced integer %r outside randint(%r,%r)" % (x, a, b))
        self.draws.append(["i", int(x)])
        return x

    def _randrange(self, *args):
        r = range(*args)
        if self.forced is None:
            x = self.rng.randrange(*args)
        else:
            if len(r) == 0:
                raise ValueError("empty range for randrange()")
            x = self._pop("i", "randrange%r" % (args,))
            if x not in r:
                raise TapeMismatch("forced integer %r outside randrange%r" % (x, args))
        self.draws.append(["i", int(x)])
        return x

    def _choice(self, seq):
        if len(seq) == 0:
            raise IndexError("Cannot choose from an empty sequence")
        if self.forced is None:
            x = seq[self.rng.randrange(len(seq))]
        else:
            v = self._pop("i", "choice")
            hit = [e for e in seq if _is_int(e) and e == v]
            if not hit:
                raise TapeMismatch("forced integer %r is not an element choice() can return" % v)
            x = hit[0]
        if not _is_int(x):
            raise TapeMismatch("choice over non-integers cannot be replayed by the model")
        self.draws.append(["i", int(x)])
        return x

    def _sample(self, population, k):
        pop = list(population)
        if k > len(pop) or k < 0:
            raise ValueError("Sample larger than population or is negative")
        if self.forced is None:
            out = self.rng.sample(pop, k)
        else:
            out = []
            for _ in range(k):
                v = self._pop("i", "sample")
                hit = [e for e in pop if _is_int(e) and e == v]
                if not hit or any(e == v for e in out):
                    raise TapeMismatch("forced integers are not a sample of the population")
                out.append(hit[0])
        if not all(_is_int(x) for x in out):
            raise TapeMismatch("sample over non-integers cannot be replayed by the model")
        for x in out:
            self.draws.append(["i", int(x)])
        return out


def flatten(tape):
    """value tokens; also reads the kind-tagged entries of harness/tape.py (older replay files)"""
    out = []
    for t in tape:
        k = t[0]
        if k in ("r", "i"):
            out.append([k, t[1]])
        elif k == "random":
            out.append(["r", t[1]])
        elif k == "randint":
            out.append(["i", t[3]])
        elif k == "randrange":
            out.append(["i", t[2]])
        elif k == "choice":
            out.append(["i", t[2]])
        elif k == "sample":
            out.extend(["i", x] for x in t[3])
        else:
            raise ValueError("tape entry %r" % (t,))
    return out


# ------------------------------------------------------------------------------------------------
# individuals
# ------------------------------------------------------------------------------------------------
_ARR = {"array": "i", "array_b": "b", "array_q": "q", "array_d": "d"}
for _name, _base, _kw in ([("C09List", list, {}), ("C09Numpy", numpy.ndarray, {}), ("C09ESList", list, {"strategy": None}),
                           ("C09ESNumpy", numpy.ndarray, {"strategy": None})]
                          + [("C09A" + c, array.array, {"typecode": c}) for c in "biqd"]
                          + [("C09ESA" + c, array.array, {"typecode": c, "strategy": None}) for c in "iqd"]):
    if not hasattr(creator, _name):
        creator.create(_name, _base, **_kw)


def conv(genes, gtype):
    if gtype == "b":
        return [bool(g) for g in genes]
    if gtype == "f":
        return [float(g) for g in genes]
    return [int(g) for g in genes]


def mk(back, genes, gtype="i"):
    if back == "array_d":
        gtype = "f"
    genes = conv(genes, gtype)
    if back == "list":
        return creator.C09List(genes)
    if back in _ARR:
        return getattr(creator, "C09A" + _ARR[back])(genes)
    if back == "numpy":
        return creator.C09Numpy(genes)
    raise ValueError(back)


def tok(x):
    """canonical text of a gene value (integral floats travel as integers)"""
    if isinstance(x, (bool, numpy.bool_)):
        return "1" if x else "0"
    if isinstance(x, (int, numpy.integer)):
        return str(int(x))
    if isinstance(x, (float, numpy.floating)) and float(x).is_integer():
        return str(int(x))
    return "?%r" % (x,)


def val(x):
    """gene value as a hashable Python number for the oracle"""
    if isinstance(x, (bool, numpy.bool_)):
        return bool(x)
    if isinstance(x, (int, numpy.integer)):
        return int(x)
    return float(x)


def tlist(xs):
    xs = list(xs)
    return ",".join(tok(x) for x in xs) if xs else "-"


def sig(xs):
    """gene-type signature: b(ool) / i(nt) / f(loat) per gene"""
    out = []
    for x in xs:
        if isinstance(x, (bool, numpy.bool_)):
            out.append("b")
        elif isinstance(x, (int, numpy.integer)):
            out.append("i")
        elif isinstance(x, (float, numpy.floating)):
            out.append("f")
        else:
            out.append("?")
    return "".join(out) or "-"


def ilist(xs):
    xs = list(xs)
    return ",".join(str(int(x)) for x in xs) if xs else "-"


def flist(xs):
    xs = list(xs)
    return ",".join(fbits(x) for x in xs) if xs else "-"


def sbits(x):
    """a float strategy value as an integer token (its bit pattern: exact and injective)"""
    return struct.unpack("<Q", struct.pack("<d", float(x)))[0]


def ident(ret, args):
    out = []
    for r in ret:
        for k, a in enumerate(args):
            if r is a:
                out.append(str(k))
                break
        else:
            out.append("fresh")
    return out


def is_perm(l):
    return sorted(l) == list(range(len(l)))


def locus_ok(c1, c2, p1, p2):
    """each locus of the children holds exactly the two parental genes of that locus"""
    n = max(len(c1), len(c2), len(p1), len(p2))
    for i in range(n):
        got = Counter([x[i] for x in (c1, c2) if i < len(x)])
        want = Counter([x[i] for x in (p1, p2) if i < len(x)])
        if got != want:
            return "locus %d holds %s, parents had %s" % (i, sorted(got.elements()), sorted(want.elements()))
    return None


def mk_bound(kind, v):
    """the low/up argument of mutUniformInt: an int or a sequence of the given Python type"""
    if kind == "scalar":
        return v
    if kind == "list":
        return list(v)
    if kind == "tuple":
        return tuple(v)
    if kind == "range":
        return range(v[0], v[0] + len(v)) if v else range(0)
    if kind == "array":
        return array.array("q", v)
    raise ValueError(kind)


def bound_tok(b):
    return ("q:" + ilist(b)) if isinstance(b, list) else "s:%d" % b


# ------------------------------------------------------------------------------------------------
# evaluate
# ------------------------------------------------------------------------------------------------
# documented former names, still exported by deap.tools: separate streams, same statement
ALIAS = {"twopoints": "twopoint", "estwopoints": "estwopoint"}
ESOPS = {"estwopoint": "cxESTwoPoint", "estwopoints": "cxESTwoPoints"}
CROSS = {"onepoint": tools.cxOnePoint, "twopoint": tools.cxTwoPoint, "twopoints": tools.cxTwoPoints,
         "uniform": tools.cxUniform,
         "messy": tools.cxMessyOnePoint, "pmx": tools.cxPartialyMatched, "upmx": tools.cxUniformPartialyMatched,
         "ox": tools.cxOrdered}
MUT = {"shuffle": tools.mutShuffleIndexes, "flip": tools.mutFlipBit, "flipb": tools.mutFlipBit,
       "flipf": tools.mutFlipBit, "uniformint": tools.mutUniformInt, "inversion": tools.mutInversion}
FLIPTYPE = {"flip": "i", "flipb": "b", "flipf": "f"}


_last_tape = [None]


def make_tape(d):
    t = VTape(forced=d["tape"]) if "tape" in d else VTape(rng=_random.Random(d["tapeseed"]))
    _last_tape[0] = t
    return t


def split_draws(draws):
    return [x[1] for x in draws if x[0] == "r"], [x[1] for x in draws if x[0] == "i"]


def evaluate(d):
    try:
        with warnings.catch_warnings():
            warnings.simplefilter("ignore")          # the former names emit a FutureWarning
            if d.get("stream") == "hist":
                c = HS.evaluate(d)
            else:
                c = _evaluate_buf(d) if d.get("stream") == "buf" else _evaluate(d)
        t = _last_tape[0]
        if t is not None and t.unreplayable and c.oracle is None:
            return Case(d, [], [], oracle="TAPE: code called random.%s, which the model cannot replay" % t.unreplayable,
                        tag=d["op"] + "/tape-error")
        return c
    except (TapeExhausted, TapeMismatch) as e:
        # the code draws differently from the anchored code: the model cannot replay it.  That breaks the
        # correspondence; it is not a failing input of the property.
        return Case(d, [], [], oracle="TAPE: the operator's random calls no longer fit the value tape (%s: %s)"
                    % (type(e).__name__, e), tag=d["op"] + "/tape-error")


def finish(d, line, exp, orc, tag, nontrivial):
    if line is None:
        # the draws do not have the shape the protocol line needs (different number of integer draws)
        return Case(d, [], [], orc or "TAPE: the number of draws made by the operator does not fit the model's arguments",
                    tag=d["op"] + "/tape-shape")
    return Case(d, [line], [exp], orc, tag=tag, nontrivial=nontrivial)


def _evaluate(d, judge=True, catch=False):
    """judge=False: the statement is not evaluated on this run (backing outside the oracle's domain: the
    slice-swapping operators on numpy views); catch=True: an exception of the operator is part of the canonical
    answer (`raise:<Exception> <contents afterwards>`), for the runs that are only compared with the model."""
    op, back = d["op"], d.get("back", "list")
    tape = make_tape(d)
    orc = None

    def fail(msg):
        nonlocal orc
        if orc is None and judge:
            orc = msg

    base = ALIAS.get(op, op)
    kw = d.get("kw", False)           # parameters by keyword, as toolbox.register(..., indpb=...) passes them
    if base == "estwopoint":
        sfloat = d.get("sfloat", False)
        sa = [x / 8.0 for x in d["sa"]] if sfloat else list(d["sa"])
        sb = [x / 8.0 for x in d["sb"]] if sfloat else list(d["sb"])
        stok = (lambda xs: ilist(sbits(x) for x in xs)) if sfloat else tlist
        if back == "list":
            i1, i2 = creator.C09ESList(d["a"]), creator.C09ESList(d["b"])
            i1.strategy, i2.strategy = list(sa), list(sb)
        elif back in ("numpy", "numpy_ls"):
            # numpy-backed individuals; strategies numpy arrays (views again) or plain lists
            i1, i2 = creator.C09ESNumpy(d["a"]), creator.C09ESNumpy(d["b"])
            if back == "numpy":
                i1.strategy, i2.strategy = numpy.array(sa), numpy.array(sb)
            else:
                i1.strategy, i2.strategy = list(sa), list(sb)
        else:
            cls = getattr(creator, "C09ESA" + _ARR[back])
            i1, i2 = cls(conv(d["a"], "f" if back == "array_d" else "i")), cls(conv(d["b"], "f" if back == "array_d" else "i"))
            sc = "d" if sfloat else "q"
            i1.strategy, i2.strategy = array.array(sc, sa), array.array(sc, sb)
        s1, s2 = i1.strategy, i2.strategy
        raised = None
        with tape:
            try:
                ret = getattr(tools, ESOPS[op])(i1, i2)
            except Exception as e:  # noqa
                if not catch:
                    raise
                raised, ret = type(e).__name__, (i1, i2)
        _, ints = split_draws(tape.draws)
        ids = ident(ret, (i1, i2)) + ident((i1.strategy, i2.strategy), (i1, i2, s1, s2))
        line = None
        if len(ints) == 2:
            line = "C09 %s %s %s %s %s %d %d" % (op, ilist(d["a"]), stok(sa), ilist(d["b"]), stok(sb), ints[0], ints[1])
        exp = "%s %s %s %s %s" % (tlist(i1), stok(s1), tlist(i2), stok(s2), " ".join(ids))
        if raised:
            exp = "raise:%s %s %s %s %s" % (raised, tlist(i1), stok(s1), tlist(i2), stok(s2))
            return finish(d, line, exp, None, "%s/%s/raise" % (op, back), True)
        if not (isinstance(ret, tuple) and len(ret) == 2 and ret[0] is i1 and ret[1] is i2):
            fail("returned objects are not the two arguments")
        else:
            c1, c2 = [val(x) for x in ret[0]], [val(x) for x in ret[1]]
            t1, t2 = [val(x) for x in ret[0].strategy], [val(x) for x in ret[1].strategy]
            if ret[0].strategy is not s1 or ret[1].strategy is not s2:
                fail("strategy objects were replaced, not modified in place")
            if len(t1) != len(c1) or len(t2) != len(c2):
                fail("strategy length differs from individual length after crossover")
            before = [list(zip(d["a"], sa)), list(zip(d["b"], sb))]
            after = [list(zip(c1, t1)), list(zip(c2, t2))]
            if Counter(after[0] + after[1]) != Counter(before[0] + before[1]):
                fail("gene/strategy pairs not conserved: %r -> %r" % (before, after))
            m = locus_ok(after[0], after[1], before[0], before[1])
            if m:
                fail("gene and strategy value did not move together: " + m)
            if len(c1) != len(d["a"]) or len(c2) != len(d["b"]):
                fail("lengths not kept")
        changed = [val(x) for x in i1] != d["a"] or [val(x) for x in i2] != d["b"] or [val(x) for x in s1] != sa
        tag = "%s/%s/%s%s" % (op, back, "eq" if len(d["a"]) == len(d["b"]) else "ne", "/fstrat" if sfloat else "")
        return finish(d, line, exp, orc, tag, changed)

    if op in CROSS:
        p1, p2 = list(d["a"]), list(d["b"])
        i1, i2 = mk(back, p1), mk(back, p2)
        indpb = d.get("indpb")
        raised = None
        with tape:
            try:
                if op in ("uniform", "upmx"):
                    ret = CROSS[op](i1, i2, indpb=indpb) if kw else CROSS[op](i1, i2, indpb)
                else:
                    ret = CROSS[op](i1, i2)
            except Exception as e:  # noqa
                if not catch:
                    raise
                raised, ret = type(e).__name__, (i1, i2)
        rs, ints = split_draws(tape.draws)
        line = None
        if op in ("uniform", "upmx"):
            line = "C09 %s %s %s %s %s" % (op, ilist(p1), ilist(p2), fbits(indpb), flist(rs))
        elif op == "onepoint":
            if len(ints) == 1:
                line = "C09 onepoint %s %s %d" % (ilist(p1), ilist(p2), ints[0])
        elif len(ints) == 2:
            line = "C09 %s %s %s %d %d" % (op, ilist(p1), ilist(p2), ints[0], ints[1])
        exp = "%s %s %s" % (tlist(i1), tlist(i2), " ".join(ident(ret, (i1, i2))))
        if raised:
            return finish(d, line, "raise:%s %s %s" % (raised, tlist(i1), tlist(i2)), None, "%s/%s/raise" % (op, back), True)
        if not (isinstance(ret, tuple) and len(ret) == 2 and ret[0] is i1 and ret[1] is i2):
            fail("returned objects are not the two arguments (in place)")
        c1, c2 = [val(x) for x in ret[0]], [val(x) for x in ret[1]]
        kind = d.get("kind", "")
        if base in ("onepoint", "twopoint", "uniform", "messy"):
            if Counter(c1 + c2) != Counter(p1 + p2):
                fail("combined multiset of genes changed: %r %r -> %r %r" % (p1, p2, c1, c2))
            if op != "messy":
                m = locus_ok(c1, c2, p1, p2)
                if m:
                    fail(m)
            if op == "onepoint" and (len(c1) != len(p2) or len(c2) != len(p1)):
                fail("one-point: lengths not exchanged (%d,%d) -> (%d,%d)" % (len(p1), len(p2), len(c1), len(c2)))
            if base in ("twopoint", "uniform") and (len(c1) != len(p1) or len(c2) != len(p2)):
                fail("lengths not kept (%d,%d) -> (%d,%d)" % (len(p1), len(p2), len(c1), len(c2)))
        elif kind != "garbage":
            if not (is_perm(p1) and is_perm(p2) and len(p1) == len(p2)):
                raise ValueError("generator: permutation operator fed non-permutations without kind=garbage")
            if not is_perm(c1) or not is_perm(c2):
                big = len(p1) > 20
                fail("%s turned permutations %s into %s" % (op, "of length %d" % len(p1) if big else "%r %r" % (p1, p2),
                                                              "non-permutations" if big else "%r %r" % (c1, c2)))
        changed = c1 != p1 or c2 != p2
        tag = "%s/%s/%s%s%s" % (op, back, "eq" if len(p1) == len(p2) else "ne", "/" + kind if kind else "", "/kw" if kw else "")
        return finish(d, line, exp, orc, tag, changed)

    if op in MUT:
        gtype = FLIPTYPE.get(op, "i")
        ind = mk(back, d["a"], gtype)
        p = [val(x) for x in ind]
        psig = sig(ind)
        indpb = d.get("indpb")
        low = up = None
        raised = None
        with tape:
            try:
                if op in ("shuffle", "flip", "flipb", "flipf"):
                    ret = MUT[op](ind, indpb=indpb) if kw else MUT[op](ind, indpb)
                elif op == "uniformint":
                    low = mk_bound(d.get("lowkind", "list" if isinstance(d["low"], list) else "scalar"), d["low"])
                    up = mk_bound(d.get("upkind", "list" if isinstance(d["up"], list) else "scalar"), d["up"])
                    ret = (tools.mutUniformInt(ind, low=low, up=up, indpb=indpb) if kw
                           else tools.mutUniformInt(ind, low, up, indpb))
                else:
                    ret = tools.mutInversion(ind)
            except Exception as e:  # noqa
                if not catch:
                    raise
                raised, ret = type(e).__name__, (ind,)
        rs, ints = split_draws(tape.draws)
        line = None
        if op == "shuffle":
            line = "C09 shuffle %s %s %s %s" % (tlist(p), fbits(indpb), flist(rs), ilist(ints))
        elif op in FLIPTYPE:
            line = "C09 %s %s %s %s" % (op, tlist(p), fbits(indpb), flist(rs))
        elif op == "uniformint":
            line = "C09 uniformint %s %s %s %s %s %s" % (tlist(p), bound_tok(d["low"]), bound_tok(d["up"]), fbits(indpb),
                                                         flist(rs), ilist(ints))
        elif len(ints) == 2 or (len(ints) == 0 and len(p) == 0):
            rr_ = ints or [0, 0]
            line = "C09 inversion %s %d %d" % (tlist(p), rr_[0], rr_[1])
        if op in FLIPTYPE:
            exp = "%s %s %s" % (tlist(ind), sig(ind), " ".join(ident(ret, (ind,))))
        else:
            exp = "%s %s" % (tlist(ind), " ".join(ident(ret, (ind,))))
        if raised:
            return finish(d, line, "raise:%s %s" % (raised, tlist(ind)), None, "%s/%s/raise" % (op, back), True)
        if not (isinstance(ret, tuple) and len(ret) == 1 and ret[0] is ind):
            fail("returned object is not the argument (in place)")
        c = [val(x) for x in ret[0]]
        kind = d.get("kind", "")
        if op in ("shuffle", "inversion"):
            if Counter(c) != Counter(p):
                fail("%s: %r is not a permutation of the elements of %r" % (op, c, p))
            if is_perm(p) and not is_perm(c):
                fail("%s turned the permutation %r into %r" % (op, p, c))
        elif op in FLIPTYPE:
            if len(c) != len(p):
                fail("length changed")
            elif kind != "nonbinary":
                csig = sig(ret[0])
                for i, (x, y) in enumerate(zip(p, c)):
                    comp = type(x)(not x)
                    if csig[i] != psig[i] or (y != x and y != comp):
                        fail("gene %d changed from %r to %r, which is not its complement %r"
                             % (i, x, ret[0][i], comp))
        elif op == "uniformint":
            if len(c) != len(p):
                fail("length changed")
            else:
                for i, (x, y) in enumerate(zip(p, c)):
                    lo = d["low"][i] if isinstance(d["low"], list) else d["low"]
                    hi = d["up"][i] if isinstance(d["up"], list) else d["up"]
                    if sig([ret[0][i]]) != "i":
                        fail("gene %d became the non-integer %r" % (i, ret[0][i]))
                    if y != x and not (lo <= y <= hi):
                        fail("gene %d changed from %r to %r outside [%r,%r]" % (i, x, y, lo, hi))
        tag = "%s/%s%s%s" % (op, back, "/" + kind if kind else "", "/kw" if kw else "")
        if op == "uniformint":
            tag += "/%s-%s" % (d.get("lowkind", "-"), d.get("upkind", "-"))
        return finish(d, line, exp, orc, tag, c != p)
    raise ValueError(op)


# ------------------------------------------------------------------------------------------------
# representation stream: the same call on list, array.array AND numpy.ndarray individuals against the buffer model
# (Core/Buffer.lean, Core/CrossMutBuf.lean) under both slice disciplines
# ------------------------------------------------------------------------------------------------
# operators that read and write single items only: the statement covers numpy-backed individuals for these
ELEMENTWISE = ("uniform", "pmx", "upmx", "ox", "shuffle", "flip", "flipb", "flipf", "uniformint")
BUF_ARRAY = {"flipf": "array_d", "flipb": None}       # array backing of the second line (default array('q'))


def _answer(c, op):
    """the answer part `<contents> <ids>` of one real run, in the buffer protocol's format"""
    e = c.expect[0]
    if op in FLIPTYPE and not e.startswith("raise:"):
        t = e.split(" ")
        e = " ".join([t[0]] + t[2:])                   # without the gene-type signature
    return e


def _evaluate_buf(d):
    op = d["op"]
    base = ALIAS.get(op, op)
    e = {k: v for k, v in d.items() if k != "stream"}
    # 1. list-backed: records the draws (or consumes the forced tape)
    c_list = _evaluate(dict(e, back="list"))
    first = _last_tape[0]
    if first.unreplayable or not c_list.lines:
        _last_tape[0] = first
        return Case(d, [], [], c_list.oracle or ("TAPE: code called random.%s, which the model cannot replay"
                                                 % first.unreplayable if first.unreplayable else
                                                 "TAPE: the number of draws made by the operator does not fit the model's arguments"),
                    tag="buf/" + op + "/tape")
    forced = {k: v for k, v in e.items() if k != "tapeseed"}
    forced["tape"] = [list(x) for x in first.draws]
    # 2. array.array-backed: same draws, must behave exactly like the list (slices are copies)
    ak = BUF_ARRAY.get(op, "array_q")
    c_arr = _evaluate(dict(forced, back=ak)) if ak else None
    # 3. numpy-backed: same draws.  The element-wise operators are judged by the statement; the slice-swapping ones
    #    (and the inversion) are only compared with the `view` model - an exception is part of the answer there
    inside = base in ELEMENTWISE
    c_np = _evaluate(dict(forced, back="numpy"), judge=inside, catch=not inside)
    c_ls = _evaluate(dict(forced, back="numpy_ls"), judge=False, catch=True) if base == "estwopoint" else None
    _last_tape[0] = first
    line = "C09 buf " + c_list.lines[0][4:]
    # A slice-swapping crossover whose numpy run gives exactly what the list run gives (the segments happen to hold the
    # same genes, or the operator was re-implemented with explicit copies as numpy.rst asks) is no break of anything:
    # it is then compared with the `copy` model only.  Every other numpy result must be the `view` model's prediction.
    copy_like = (not inside and base != "inversion" and _answer(c_np, op) == _answer(c_list, op)
                 and (c_ls is None or _answer(c_ls, op) == _answer(c_list, op)))
    if copy_like:
        line = "C09 bufc " + c_list.lines[0][4:]
    orc = None
    for name, c in (("list", c_list), ("array", c_arr), ("numpy", c_np)):
        if c is not None and c.oracle and orc is None:
            orc = c.oracle if c.oracle.startswith("TAPE:") else "%s-backed: %s" % (name, c.oracle)
    for c in (c_arr, c_np, c_ls):
        if c is not None and not c.lines:
            return Case(d, [], [], orc or "TAPE: the draws of the operator differ between the backings", tag="buf/" + op + "/tape")
    lines, expect = [], []
    for c in (c_list, c_arr):
        if c is None:
            continue
        if copy_like:
            ans = ("cc %s" if base == "estwopoint" else "copy %s") % _answer(c, op)
        elif base == "estwopoint":
            ans = "cc %s vv %s vc %s" % (_answer(c, op), _answer(c_np, op), _answer(c_ls, op))
        else:
            ans = "copy %s view %s" % (_answer(c, op), _answer(c_np, op))
        lines.append(line)
        expect.append(ans)
    kind = "raise" if c_np.expect[0].startswith("raise:") else ("same" if _answer(c_np, op) == _answer(c_list, op) else "differs")
    return Case(d, lines, expect, orc, tag="buf/%s/numpy-%s" % (op, kind), nontrivial=c_list.nontrivial)


# ------------------------------------------------------------------------------------------------
# generate
# ------------------------------------------------------------------------------------------------
def ri(x):
    return ["i", x]


def rnd(flag):
    """forced random() result for a decision against indpb = 0.5"""
    return ["r", 0.25 if flag else 0.75]


def big_perm_cases(rng, count):
    """permutations longer than 256: position tables / hole tables must hold every index"""
    for _ in range(count):
        for op in ("pmx", "upmx", "ox"):
            n = rng.randint(257, 400)
            d = {"op": op, "kind": "long", "back": rng.choice(["list", "list", "array", "numpy"]),
                 "a": rng.sample(range(n), n), "b": rng.sample(range(n), n), "tapeseed": rng.getrandbits(48)}
            if op == "upmx":
                d["indpb"] = rng.choice([0.5, 0.9, 1.0])
            yield d


def exhaustive(tier):
    thorough = tier == "thorough"
    nperm = 4
    # --- permutation crossovers: all pairs x all draws
    for n in range(2, nperm + 1):
        perms = [list(p) for p in itertools.permutations(range(n))]
        for a in perms:
            for b in perms:
                for c1 in range(0, n + 1):
                    for c2 in range(0, n):
                        yield {"op": "pmx", "a": a, "b": b, "tape": [ri(c1), ri(c2)]}
                for x in range(n):
                    for y in range(n):
                        if x != y:
                            yield {"op": "ox", "a": a, "b": b, "tape": [ri(x), ri(y)]}
                for ds in itertools.product([False, True], repeat=n):
                    yield {"op": "upmx", "a": a, "b": b, "indpb": 0.5, "tape": [rnd(f) for f in ds]}
    # --- slice crossovers: every length pair x every cut
    for n1 in range(0, 6):
        for n2 in range(0, 6):
            a = list(range(10, 10 + n1))
            b = list(range(20, 20 + n2))
            size = min(n1, n2)
            for back in ("list", "array", "array_d"):
                if size >= 2:
                    for c in range(1, size):
                        yield {"op": "onepoint", "back": back, "a": a, "b": b, "tape": [ri(c)]}
                    for c1 in range(1, size + 1):
                        for c2 in range(1, size):
                            for form in ("twopoint", "twopoints"):
                                yield {"op": form, "back": back, "a": a, "b": b, "tape": [ri(c1), ri(c2)]}
                                yield {"op": "es" + form, "back": back, "a": a, "b": b,
                                       "sa": [100 + x for x in a], "sb": [100 + x for x in b],
                                       "sfloat": back != "list" or (n1 + n2) % 2 == 0,
                                       "tape": [ri(c1), ri(c2)]}
                if n1 <= 4 and n2 <= 4:
                    for c1 in range(0, n1 + 1):
                        for c2 in range(0, n2 + 1):
                            yield {"op": "messy", "back": back, "a": a, "b": b, "tape": [ri(c1), ri(c2)]}
    # --- binary strings x decision vectors
    for n in range(0, 5):
        strings = [list(s) for s in itertools.product([0, 1], repeat=n)]
        for ds in itertools.product([False, True], repeat=n):
            tp = [rnd(f) for f in ds]
            for a in strings:
                yield {"op": "flip", "a": a, "indpb": 0.5, "tape": tp}
                yield {"op": "flipb", "a": a, "indpb": 0.5, "tape": tp}
                yield {"op": "flipf", "a": a, "indpb": 0.5, "tape": tp}
                if n <= 3 or thorough:
                    for b in strings:
                        yield {"op": "uniform", "a": a, "b": b, "indpb": 0.5, "tape": tp}
            if n <= 3:
                for m in range(n, 5):
                    yield {"op": "uniform", "a": list(range(10, 10 + n)), "b": list(range(20, 20 + m)), "indpb": 0.5, "tape": tp}
                    yield {"op": "uniform", "b": list(range(10, 10 + n)), "a": list(range(20, 20 + m)), "indpb": 0.5, "tape": tp}
    # --- shuffle: every selection vector x every randint result
    for n in range(0, 5):
        a = list(range(n))
        for ds in itertools.product([False, True], repeat=n):
            k = sum(ds)
            if k and n < 2:
                continue            # randint(0, -1) raises: outside the quantifier (length >= 2)
            for vs in itertools.product(range(max(n - 1, 1)), repeat=k):
                tp, it = [], iter(vs)
                for f in ds:
                    tp.append(rnd(f))
                    if f:
                        tp.append(ri(next(it)))
                yield {"op": "shuffle", "a": a, "indpb": 0.5, "tape": tp}
    # --- inversion: all index pairs
    for n in range(0, 6):
        a = list(range(n))
        for back in ("list", "array", "array_b"):
            if n == 0:
                yield {"op": "inversion", "back": back, "a": a, "tape": []}
            for i in range(n):
                for j in range(n):
                    yield {"op": "inversion", "back": back, "a": a, "tape": [ri(i), ri(j)]}
    # --- uniform int: n <= 3, all selections x all values; every sequence type for the bounds
    big = 1 << 35
    for n in range(0, 4):
        a = [7] * n
        for low, up, lk, uk in ((0, 1, "scalar", "scalar"),
                                ([0, 2, 4][:n], [1, 3, 5][:n], "list", "list"),
                                ([0, 2, 4][:n], [1, 3, 5][:n], "tuple", "tuple"),
                                ([3, 4, 5][:n], [4, 5, 6][:n], "range", "range"),
                                ([0, 2, 4][:n], [1, 3, 5][:n], "array", "tuple"),
                                (-1, [0, 1, 0][:n] + [9], "scalar", "tuple"),
                                (-big - 1, -big + 1, "scalar", "scalar"),
                                ([big, 2 * big, -3 * big][:n], [big + 1, 2 * big + 1, -3 * big + 1][:n], "tuple", "array")):
            for ds in itertools.product([False, True], repeat=n):
                choices = []
                for i, f in enumerate(ds):
                    if f:
                        lo = low[i] if isinstance(low, list) else low
                        hi = up[i] if isinstance(up, list) else up
                        choices.append(range(lo, hi + 1))
                for vs in itertools.product(*choices):
                    tp, it = [], iter(vs)
                    for f in ds:
                        tp.append(rnd(f))
                        if f:
                            tp.append(ri(next(it)))
                    yield {"op": "uniformint", "a": a, "low": low, "up": up, "lowkind": lk, "upkind": uk,
                           "indpb": 0.5, "tape": tp}


def rand_indpb(rng):
    r = rng.random()
    if r < 0.1:
        return 0.0
    if r < 0.2:
        return 1.0
    if r < 0.5:
        return 0.5
    return rng.random()


def rand_genes(rng, n, back="list"):
    if back == "array_b":
        return [rng.randint(-128, 127) for _ in range(n)]
    style = rng.random()
    if style < 0.35:
        return [rng.randint(-9, 9) for _ in range(n)]          # duplicates likely
    if style < 0.6:
        return [rng.randint(0, 1) for _ in range(n)]           # binary
    if style < 0.8 or back == "array":
        return rng.sample(range(-50, 50), n)                   # distinct
    return [rng.choice([-1, 1]) * rng.randint(1 << 31, 1 << 40) for _ in range(n)]   # beyond 32 bits


def rand_bound_pair(rng, n, huge):
    """(low, up, lowkind, upkind) with low <= up position by position"""
    base = rng.choice([-1, 1]) * rng.randint(1 << 31, 1 << 40) if huge else rng.randint(-10, 10)
    if huge and rng.random() < 0.4:
        # bounds next to 2**53 and 2**62: an integer draw computed through a double (floor(uniform(low, up + 1)),
        # int(random() * width)) leaves the bounds or loses values there
        base = rng.choice([-1, 1]) * (rng.choice([1 << 53, 1 << 62]) - rng.randint(0, 8))
    width = rng.randint(0, 6)
    lk = rng.choice(["scalar", "list", "tuple", "range", "array"])
    uk = rng.choice(["scalar", "list", "tuple", "range", "array"])
    m1, m2 = n + rng.randint(0, 2), n + rng.randint(0, 2)

    def seq(kind, m, lo_side):
        if kind == "scalar":
            return base if lo_side else base + width
        if kind == "range":
            start = base - m if lo_side else base + width
            return list(range(start, start + m))
        return [(base - rng.randint(0, 3)) if lo_side else (base + width + rng.randint(0, 3)) for _ in range(m)]
    return seq(lk, m1, True), seq(uk, m2, False), lk, uk


OPS = ["onepoint", "twopoint", "twopoints", "uniform", "messy", "estwopoint", "estwopoints", "pmx", "upmx", "ox",
       "shuffle", "flip", "flipb", "flipf", "uniformint", "inversion"]


def random_case(rng, op=None):
    op = op or rng.choice(OPS)
    d = {"op": op, "tapeseed": rng.getrandbits(48)}
    if op in ("uniform", "upmx", "shuffle", "flip", "flipb", "flipf", "uniformint"):
        d["kw"] = rng.random() < 0.5
    elementwise = op in ("uniform", "pmx", "upmx", "ox", "shuffle", "flip", "flipb", "flipf", "uniformint")
    if op in ("pmx", "upmx", "ox"):
        d["back"] = rng.choice(["list", "array", "array_b", "array_q", "numpy"])
    elif op == "flip":
        d["back"] = rng.choice(["list", "list", "array", "array_b", "array_q", "numpy"])
    elif op == "flipb":
        d["back"] = rng.choice(["list", "list", "numpy"])
    elif op == "flipf":
        d["back"] = rng.choice(["list", "list", "array_d", "numpy"])
    elif op == "uniformint":
        d["back"] = rng.choice(["list", "list", "array", "array_q", "numpy"])
    elif op in ESOPS:
        d["back"] = rng.choice(["list", "array", "array_q", "array_d"])
    else:
        d["back"] = rng.choice(["list", "array", "array_b", "array_q", "array_d"] + (["numpy"] if elementwise else []))
    back = d["back"]
    if op in ("onepoint", "twopoint", "twopoints", "uniform", "estwopoint", "estwopoints"):
        n1 = rng.randint(2, 12)
        n2 = n1 if rng.random() < 0.5 else rng.randint(2, 12)
        if op == "uniform" and rng.random() < 0.1:
            n1 = rng.randint(0, 1)
        d["a"], d["b"] = rand_genes(rng, n1, back), rand_genes(rng, n2, back)
        if op in ESOPS:
            d["sfloat"] = rng.random() < 0.6
            d["sa"], d["sb"] = rand_genes(rng, n1, "array"), rand_genes(rng, n2, "array")
        if op == "uniform":
            d["indpb"] = rand_indpb(rng)
    elif op == "messy":
        d["a"], d["b"] = rand_genes(rng, rng.randint(0, 12), back), rand_genes(rng, rng.randint(0, 12), back)
    elif op in ("pmx", "upmx", "ox"):
        n = rng.randint(2, 12)
        r = rng.random()
        if r < 0.85:
            d["a"], d["b"] = rng.sample(range(n), n), rng.sample(range(n), n)
            if rng.random() < 0.1:
                d["b"] = list(d["a"])
        elif r < 0.95:        # in-range values with duplicates: no exception, model must follow the code
            d["kind"] = "garbage"
            d["a"], d["b"] = [rng.randrange(n) for _ in range(n)], [rng.randrange(n) for _ in range(n)]
            d["back"] = "list"
        else:                 # longer first/second parent: only the first `size` loci take part
            d["kind"] = "garbage"
            extra = [rng.randint(0, 30) for _ in range(rng.randint(1, 3))]
            d["a"], d["b"] = rng.sample(range(n), n), rng.sample(range(n), n)
            d["a" if rng.random() < 0.5 else "b"] += extra
            d["back"] = "list"
        if op == "upmx":
            d["indpb"] = rand_indpb(rng)
    elif op == "shuffle":
        n = rng.randint(2, 12)
        d["a"] = rng.sample(range(n), n) if rng.random() < 0.6 else rand_genes(rng, n, back)
        d["indpb"] = rand_indpb(rng)
    elif op in ("flip", "flipb", "flipf"):
        n = rng.randint(0, 12)
        d["a"] = [rng.randint(0, 1) for _ in range(n)]
        if op == "flip" and rng.random() < 0.1:
            d["kind"] = "nonbinary"
            d["a"] = [rng.randint(-3, 3) for _ in range(n)]
        d["indpb"] = rand_indpb(rng)
    elif op == "uniformint":
        n = rng.randint(0, 12)
        huge = back != "array" and rng.random() < 0.5
        d["a"] = [rng.randint(-20, 20) for _ in range(n)]
        d["low"], d["up"], d["lowkind"], d["upkind"] = rand_bound_pair(rng, n, huge)
        d["indpb"] = rand_indpb(rng)
    elif op == "inversion":
        n = rng.randint(0, 12)
        d["a"] = rng.sample(range(n), n) if rng.random() < 0.6 else rand_genes(rng, n, back)
    return d


def buf_cases(tier, rng, mult):
    """representation stream (list / array.array / numpy.ndarray against the buffer model under both disciplines)"""
    # every length pair x every cut for the slice-swapping crossovers: on numpy the equal-length cases lose genes,
    # the different-length ones raise ValueError or broadcast a one-item slice
    for n1 in range(0, 5):
        for n2 in range(0, 5):
            a = list(range(10, 10 + n1))
            b = list(range(20, 20 + n2))
            size = min(n1, n2)
            if size >= 2:
                for c in range(1, size):
                    yield {"stream": "buf", "op": "onepoint", "a": a, "b": b, "tape": [ri(c)]}
                for c1 in range(1, size + 1):
                    for c2 in range(1, size):
                        yield {"stream": "buf", "op": "twopoint", "a": a, "b": b, "tape": [ri(c1), ri(c2)]}
                        yield {"stream": "buf", "op": "estwopoint", "a": a, "b": b, "sa": [100 + x for x in a],
                               "sb": [100 + x for x in b], "sfloat": (n1 + n2) % 2 == 0, "tape": [ri(c1), ri(c2)]}
            for c1 in range(0, n1 + 1):
                for c2 in range(0, n2 + 1):
                    yield {"stream": "buf", "op": "messy", "a": a, "b": b, "tape": [ri(c1), ri(c2)]}
    for n in range(0, 6):
        if n == 0:
            yield {"stream": "buf", "op": "inversion", "a": [], "tape": []}
        for i in range(n):
            for j in range(n):
                yield {"stream": "buf", "op": "inversion", "a": list(range(n)), "tape": [ri(i), ri(j)]}
    per_op = (120 if tier == "quick" else 1200) * mult
    for op in OPS:
        for _ in range(per_op):
            d = random_case(rng, op)
            d["stream"] = "buf"
            yield d


def generate(tier, rng, mult):
    # long permutations first (a clause of their own: tables must hold every index), every run
    for d in big_perm_cases(rng, 3 if tier == "quick" else 12):
        yield d
    # histories: 2-6 calls in one process on objects the caller reuses and edits in place, aborted calls in between
    # (every valid call judged by the statement against its own arguments at call time; the whole history replayed on
    # the machine OpHistory)
    for d in HS.cases(tier, rng, mult):
        yield d
    # every operator on list, array.array and numpy.ndarray individuals against the buffer model (both disciplines)
    for d in buf_cases(tier, rng, mult):
        yield d
    # a fixed share of random cases for EVERY operator (which operators run never depends on the seed)
    per_op = (300 if tier == "quick" else 1500) * mult
    for op in OPS:
        for _ in range(per_op):
            yield random_case(rng, op)
    for d in exhaustive(tier):
        yield d
    # boundary decisions: random() == indpb exactly must not select (strict <)
    top = 0.9999999999999999
    for op in ("uniform", "upmx", "flip", "shuffle", "uniformint"):
        for pb in (0.0, 0.5, 1.0):
            d = {"op": op, "a": [1, 0, 2], "indpb": pb, "kind": "boundary",
                 "tape": [["r", pb if pb < 1.0 else top]] * 3}
            if op in ("uniform", "upmx"):
                d["b"] = [2, 1, 0]
            if op == "flip":
                d["a"] = [1, 0, 1]
            if op == "uniformint":
                d["low"], d["up"], d["lowkind"], d["upkind"] = 3, 5, "scalar", "scalar"
            if pb == 1.0 and op in ("shuffle", "uniformint"):
                d["tape"] = [x for _ in range(3) for x in (["r", top], ri(1 if op == "shuffle" else 4))]
            yield d
    if tier == "thorough":
        # n = 5: every permutation pair, a few draws each
        perms = [list(p) for p in itertools.permutations(range(5))]
        for a in perms:
            for b in perms:
                for _ in range(2):
                    yield {"op": "pmx", "a": a, "b": b, "tape": [ri(rng.randint(0, 5)), ri(rng.randint(0, 4))]}
                    yield {"op": "ox", "a": a, "b": b, "tape": [ri(x) for x in rng.sample(range(5), 2)]}
                    yield {"op": "upmx", "a": a, "b": b, "indpb": 0.5,
                           "tape": [rnd(rng.random() < 0.5) for _ in range(5)]}
    n = (130000 if tier == "thorough" else 26000) * mult
    for _ in range(n):
        yield random_case(rng)


def focus_generate(tier, rng, descs):
    """failing-input search after a correspondence break: random inputs for the operators that disagreed"""
    ops = sorted(set(d.get("op") for d in descs if d.get("op") in OPS))
    for _ in range(6000 if tier == "thorough" else 1500):
        for op in ops:
            yield random_case(rng, op)


def shrink(d):
    if d.get("stream") == "hist":
        for e in HS.shrink(d):
            yield e
        return
    # 1. a recorded tape becomes a forced one (same draws), so that the replay names every draw
    if "tapeseed" in d:
        try:
            tape = make_tape(d)
            with tape, warnings.catch_warnings():
                warnings.simplefilter("ignore")
                _run(d)
        except Exception:  # noqa
            return
        e = {k: v for k, v in d.items() if k != "tapeseed"}
        e["tape"] = [list(x) for x in tape.draws]
        yield e
        return
    # 2. gene values towards 0/1 (the draws do not depend on gene values)
    if d["op"] in ("pmx", "upmx", "ox"):
        return
    for key in ("a", "b", "sa", "sb"):
        if key in d:
            for i, x in enumerate(d[key]):
                if x not in (0, 1):
                    for r in (0, 1):
                        e = dict(d)
                        e[key] = d[key][:i] + [r] + d[key][i + 1:]
                        yield e


def _run(d):
    """runs the operator of case `d` once (inside an entered tape) to collect its draws"""
    op, back = d["op"], d.get("back", "list")
    if op in ESOPS:
        i1, i2 = creator.C09ESList(d["a"]), creator.C09ESList(d["b"])
        i1.strategy, i2.strategy = list(d["sa"]), list(d["sb"])
        getattr(tools, ESOPS[op])(i1, i2)
    elif op in CROSS:
        i1, i2 = mk(back, d["a"]), mk(back, d["b"])
        if op in ("uniform", "upmx"):
            CROSS[op](i1, i2, d["indpb"])
        else:
            CROSS[op](i1, i2)
    else:
        ind = mk(back, d["a"], FLIPTYPE.get(op, "i"))
        if op in ("shuffle", "flip", "flipb", "flipf"):
            MUT[op](ind, d["indpb"])
        elif op == "uniformint":
            tools.mutUniformInt(ind, mk_bound(d.get("lowkind", "scalar"), d["low"]),
                                mk_bound(d.get("upkind", "scalar"), d["up"]), d["indpb"])
        else:
            tools.mutInversion(ind)


HS.H = __import__("sys").modules[__name__]


def classify(desc, msg, known):
    return None
