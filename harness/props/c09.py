"""C09 — Discrete crossovers and mutations conserve genes, lengths and permutations
(deap/tools/crossover.py, deap/tools/mutation.py)."""
import array
import itertools
import random as _random
from collections import Counter

import numpy

from lib import Case, fbits
from tape import Tape, TapeExhausted, TapeMismatch
from deap import creator, tools

ANCHORS = [("deap/tools/crossover.py", ["cxOnePoint", "cxTwoPoint", "cxUniform", "cxPartialyMatched",
                                        "cxUniformPartialyMatched", "cxOrdered", "cxMessyOnePoint",
                                        "cxESTwoPoint"]),
           ("deap/tools/mutation.py", ["mutShuffleIndexes", "mutFlipBit", "mutUniformInt", "mutInversion"])]
LEVEL = "proof"
RULE = ("exhaustive (forced tape): PMX = all permutation pairs of 0..n-1 (n<=4) x every (cxpoint1,cxpoint2) randint can "
        "return; OX = the same pairs x every ordered sample (a,b); UPMX = the same pairs x all 2^n decision vectors; "
        "one-/two-point/messy = fixed distinct-gene parents of all length pairs 2..5 (messy 0..4) x all cut points; uniform "
        "crossover / bit flip = all binary strings (pairs) of length <=4 x all decision vectors; shuffle / inversion / "
        "uniform-int = all draws for n<=4 (3). random (recorded tape): n<=12, equal and different lengths, list/array('i')/"
        "numpy backing, indpb in {0, 1, boundary, random}. Non-trivial = the draws make the operator change at least one "
        "argument (or, for a crossover, the cut is interior)")
EXHAUSTIVE = {"quick": False, "thorough": False}
TIME_BUDGET = {"quick": 60, "thorough": 900}
TRUSTED = ["CPython list/array.array item and slice assignment and tuple-assignment order (right-hand side first, then "
           "targets left to right) as transcribed in Core/CrossMut.lean; every protocol line exercises them",
           "random.randint/sample/randrange return values inside their documented ranges (the guards `…Ok`)",
           "IEEE comparison random() < indpb is replayed in Lean Float (same operation)"]
ASSUMPTIONS = ["the two parents are different objects; ES strategies are as long as their individuals",
               "permutation operators get two permutations of 0..n-1 of the same length",
               "numpy-backed individuals only for the element-wise operators (no slice assignment)"]
EXPLANATION = ("Theorems C09.* hold for all gene lists, all lengths and all draws inside the ranges of the random functions; "
               "Core/CrossMut.lean is tied to deap.tools by replaying forced and recorded tapes of the real operators.")

# ------------------------------------------------------------------------------------------------
# individuals
# ------------------------------------------------------------------------------------------------
for _name, _base, _kw in (("C09List", list, {}), ("C09Array", array.array, {"typecode": "i"}),
                          ("C09Numpy", numpy.ndarray, {}), ("C09ESList", list, {"strategy": None}),
                          ("C09ESArray", array.array, {"typecode": "i", "strategy": None})):
    if not hasattr(creator, _name):
        creator.create(_name, _base, **_kw)


def mk(back, genes, boolean=False):
    if boolean:
        genes = [bool(g) for g in genes]
    if back == "list":
        return creator.C09List(genes)
    if back == "array":
        return creator.C09Array(genes)
    if back == "numpy":
        return creator.C09Numpy(genes)
    raise ValueError(back)


def plain(ind, boolean=False):
    return [bool(x) for x in ind] if boolean else [int(x) for x in ind]


def ilist(xs):
    xs = list(xs)
    return ",".join(str(int(x)) for x in xs) if xs else "-"


def flist(xs):
    xs = list(xs)
    return ",".join(fbits(x) for x in xs) if xs else "-"


def ident(ret, args):
    out = []
    for r in ret:
        for k, a in enumerate(args):
            if r is a:
                out.append(str(k))
                break
        else:
            out.append("fresh")
    return out


def is_perm(l):
    return sorted(l) == list(range(len(l)))


def locus_ok(c1, c2, p1, p2):
    """each locus of the children holds exactly the two parental genes of that locus"""
    n = max(len(c1), len(c2), len(p1), len(p2))
    for i in range(n):
        got = Counter([x[i] for x in (c1, c2) if i < len(x)])
        want = Counter([x[i] for x in (p1, p2) if i < len(x)])
        if got != want:
            return "locus %d holds %s, parents had %s" % (i, sorted(got.elements()), sorted(want.elements()))
    return None


def bound_tok(b):
    return ("q:" + ilist(b)) if isinstance(b, list) else "s:%d" % b


# ------------------------------------------------------------------------------------------------
# evaluate
# ------------------------------------------------------------------------------------------------
CROSS = {"onepoint": tools.cxOnePoint, "twopoint": tools.cxTwoPoint, "uniform": tools.cxUniform,
         "messy": tools.cxMessyOnePoint, "pmx": tools.cxPartialyMatched, "upmx": tools.cxUniformPartialyMatched,
         "ox": tools.cxOrdered}
MUT = {"shuffle": tools.mutShuffleIndexes, "flip": tools.mutFlipBit, "flipb": tools.mutFlipBit,
       "uniformint": tools.mutUniformInt, "inversion": tools.mutInversion}


def make_tape(d):
    if "tape" in d:
        return Tape(forced=[tuple(x) for x in d["tape"]])
    return Tape(rng=_random.Random(d["tapeseed"]))


def split_draws(draws):
    rs = [x[1] for x in draws if x[0] == "random"]
    ints = [x[3] for x in draws if x[0] == "randint"]
    return rs, ints


def evaluate(d):
    try:
        return _evaluate(d)
    except (TapeExhausted, TapeMismatch) as e:
        # forced tapes hold exactly the draws the anchored code makes on this input
        return Case(d, [], [], oracle="operator asked for a draw that is not on the tape (%s: %s): its sequence of "
                    "random calls changed" % (type(e).__name__, e), tag=d["op"] + "/tape-error")


def _evaluate(d):
    op, back = d["op"], d.get("back", "list")
    tape = make_tape(d)
    orc = None

    def fail(msg):
        nonlocal orc
        if orc is None:
            orc = msg

    if op == "estwopoint":
        cls = creator.C09ESList if back == "list" else creator.C09ESArray
        scls = (lambda s: list(s)) if back == "list" else (lambda s: array.array("i", s))
        i1, i2 = cls(d["a"]), cls(d["b"])
        i1.strategy, i2.strategy = scls(d["sa"]), scls(d["sb"])
        s1, s2 = i1.strategy, i2.strategy
        with tape:
            ret = tools.cxESTwoPoint(i1, i2)
        _, ints = split_draws(tape.draws)
        ids = ident(ret, (i1, i2)) + ident((i1.strategy, i2.strategy), (i1, i2, s1, s2))
        line = "C09 estwopoint %s %s %s %s %d %d" % (ilist(d["a"]), ilist(d["sa"]), ilist(d["b"]), ilist(d["sb"]),
                                                     ints[0], ints[1])
        exp = "%s %s %s %s %s" % (ilist(i1), ilist(s1), ilist(i2), ilist(s2), " ".join(ids))
        if not (isinstance(ret, tuple) and len(ret) == 2 and ret[0] is i1 and ret[1] is i2):
            fail("returned objects are not the two arguments")
        else:
            c1, c2 = plain(ret[0]), plain(ret[1])
            t1, t2 = plain(ret[0].strategy), plain(ret[1].strategy)
            if ret[0].strategy is not s1 or ret[1].strategy is not s2:
                fail("strategy objects were replaced, not modified in place")
            if len(t1) != len(c1) or len(t2) != len(c2):
                fail("strategy length differs from individual length after crossover")
            before = [list(zip(d["a"], d["sa"])), list(zip(d["b"], d["sb"]))]
            after = [list(zip(c1, t1)), list(zip(c2, t2))]
            if Counter(after[0] + after[1]) != Counter(before[0] + before[1]):
                fail("gene/strategy pairs not conserved: %r -> %r" % (before, after))
            m = locus_ok(after[0], after[1], before[0], before[1])
            if m:
                fail("gene and strategy value did not move together: " + m)
            if len(c1) != len(d["a"]) or len(c2) != len(d["b"]):
                fail("lengths not kept")
        changed = plain(i1) != d["a"] or plain(i2) != d["b"] or plain(s1) != d["sa"]
        return Case(d, [line], [exp], orc, tag="estwopoint/%s/%s" % (back, "eq" if len(d["a"]) == len(d["b"]) else "ne"),
                    nontrivial=changed)

    if op in CROSS:
        p1, p2 = list(d["a"]), list(d["b"])
        i1, i2 = mk(back, p1), mk(back, p2)
        indpb = d.get("indpb")
        with tape:
            if op in ("uniform", "upmx"):
                ret = CROSS[op](i1, i2, indpb)
            else:
                ret = CROSS[op](i1, i2)
        rs, ints = split_draws(tape.draws)
        if op == "ox":
            smp = [x for x in tape.draws if x[0] == "sample"][0]
            ints = list(smp[3])
        if op in ("uniform", "upmx"):
            line = "C09 %s %s %s %s %s" % (op, ilist(p1), ilist(p2), fbits(indpb), flist(rs))
        elif op == "onepoint":
            line = "C09 onepoint %s %s %d" % (ilist(p1), ilist(p2), ints[0])
        else:
            line = "C09 %s %s %s %d %d" % (op, ilist(p1), ilist(p2), ints[0], ints[1])
        exp = "%s %s %s" % (ilist(i1), ilist(i2), " ".join(ident(ret, (i1, i2))))
        if not (isinstance(ret, tuple) and len(ret) == 2 and ret[0] is i1 and ret[1] is i2):
            fail("returned objects are not the two arguments (in place)")
        c1, c2 = plain(ret[0]), plain(ret[1])
        kind = d.get("kind", "")
        if op in ("onepoint", "twopoint", "uniform", "messy"):
            if Counter(c1 + c2) != Counter(p1 + p2):
                fail("combined multiset of genes changed: %r %r -> %r %r" % (p1, p2, c1, c2))
            if op != "messy":
                m = locus_ok(c1, c2, p1, p2)
                if m:
                    fail(m)
            if op == "onepoint" and (len(c1) != len(p2) or len(c2) != len(p1)):
                fail("one-point: lengths not exchanged (%d,%d) -> (%d,%d)" % (len(p1), len(p2), len(c1), len(c2)))
            if op in ("twopoint", "uniform") and (len(c1) != len(p1) or len(c2) != len(p2)):
                fail("lengths not kept (%d,%d) -> (%d,%d)" % (len(p1), len(p2), len(c1), len(c2)))
        elif kind != "garbage":
            if not (is_perm(p1) and is_perm(p2) and len(p1) == len(p2)):
                raise ValueError("generator: permutation operator fed non-permutations without kind=garbage")
            if not is_perm(c1) or not is_perm(c2):
                fail("%s turned permutations %r %r into %r %r" % (op, p1, p2, c1, c2))
        changed = c1 != p1 or c2 != p2
        tag = "%s/%s/%s%s" % (op, back, "eq" if len(p1) == len(p2) else "ne", "/" + kind if kind else "")
        return Case(d, [line], [exp], orc, tag=tag, nontrivial=changed)

    if op in MUT:
        boolean = op == "flipb"
        p = list(d["a"])
        ind = mk(back, p, boolean)
        if boolean:
            p = [bool(x) for x in p]
        indpb = d.get("indpb")
        with tape:
            if op in ("shuffle", "flip", "flipb"):
                ret = MUT[op](ind, indpb)
            elif op == "uniformint":
                ret = tools.mutUniformInt(ind, d["low"], d["up"], indpb)
            else:
                ret = tools.mutInversion(ind)
        rs, ints = split_draws(tape.draws)
        if op == "shuffle":
            line = "C09 shuffle %s %s %s %s" % (ilist(p), fbits(indpb), flist(rs), ilist(ints))
        elif op in ("flip", "flipb"):
            line = "C09 %s %s %s %s" % (op, ilist(p), fbits(indpb), flist(rs))
        elif op == "uniformint":
            line = "C09 uniformint %s %s %s %s %s %s" % (ilist(p), bound_tok(d["low"]), bound_tok(d["up"]), fbits(indpb),
                                                         flist(rs), ilist(ints))
        else:
            rr = [x[2] for x in tape.draws if x[0] == "randrange"] or [0, 0]
            line = "C09 inversion %s %d %d" % (ilist(p), rr[0], rr[1])
        exp = "%s %s" % (ilist(plain(ind, boolean)), " ".join(ident(ret, (ind,))))
        if not (isinstance(ret, tuple) and len(ret) == 1 and ret[0] is ind):
            fail("returned object is not the argument (in place)")
        c = plain(ret[0], boolean)
        kind = d.get("kind", "")
        if op in ("shuffle", "inversion"):
            if Counter(c) != Counter(p):
                fail("%s: %r is not a permutation of the elements of %r" % (op, c, p))
            if is_perm(p) and not is_perm(c):
                fail("%s turned the permutation %r into %r" % (op, p, c))
        elif op in ("flip", "flipb"):
            if len(c) != len(p):
                fail("length changed")
            elif kind != "nonbinary":
                for i, (x, y) in enumerate(zip(p, c)):
                    comp = (not x) if boolean else 1 - x
                    if y != x and y != comp:
                        fail("gene %d changed from %r to %r, not its complement" % (i, x, y))
                    if boolean and not isinstance(ret[0][i], (bool, numpy.bool_)):
                        fail("gene %d changed its type" % i)
        elif op == "uniformint":
            if len(c) != len(p):
                fail("length changed")
            else:
                for i, (x, y) in enumerate(zip(p, c)):
                    lo = d["low"][i] if isinstance(d["low"], list) else d["low"]
                    hi = d["up"][i] if isinstance(d["up"], list) else d["up"]
                    if y != x and not (lo <= y <= hi):
                        fail("gene %d changed from %r to %r outside [%r,%r]" % (i, x, y, lo, hi))
        tag = "%s/%s%s" % (op, back, "/" + kind if kind else "")
        return Case(d, [line], [exp], orc, tag=tag, nontrivial=(c != p))
    raise ValueError(op)


# ------------------------------------------------------------------------------------------------
# generate
# ------------------------------------------------------------------------------------------------
def ri(x):
    return ["randint", None, None, x]


def rr(x):
    return ["randrange", None, x]


def rnd(flag):
    """forced random() result for a decision against indpb = 0.5"""
    return ["random", 0.25 if flag else 0.75]


def exhaustive(tier):
    thorough = tier == "thorough"
    nperm = 4
    # --- permutation crossovers: all pairs x all draws
    for n in range(2, nperm + 1):
        perms = [list(p) for p in itertools.permutations(range(n))]
        for a in perms:
            for b in perms:
                for c1 in range(0, n + 1):
                    for c2 in range(0, n):
                        yield {"op": "pmx", "a": a, "b": b, "tape": [ri(c1), ri(c2)]}
                for x in range(n):
                    for y in range(n):
                        if x != y:
                            yield {"op": "ox", "a": a, "b": b, "tape": [["sample", n, 2, [x, y]]]}
                for ds in itertools.product([False, True], repeat=n):
                    yield {"op": "upmx", "a": a, "b": b, "indpb": 0.5, "tape": [rnd(f) for f in ds]}
    # --- slice crossovers: every length pair x every cut
    for n1 in range(0, 6):
        for n2 in range(0, 6):
            a = list(range(10, 10 + n1))
            b = list(range(20, 20 + n2))
            size = min(n1, n2)
            for back in ("list", "array"):
                if size >= 2:
                    for c in range(1, size):
                        yield {"op": "onepoint", "back": back, "a": a, "b": b, "tape": [ri(c)]}
                    for c1 in range(1, size + 1):
                        for c2 in range(1, size):
                            yield {"op": "twopoint", "back": back, "a": a, "b": b, "tape": [ri(c1), ri(c2)]}
                            if back == "list" or n1 == n2:
                                yield {"op": "estwopoint", "back": back, "a": a, "b": b,
                                       "sa": [100 + x for x in a], "sb": [100 + x for x in b],
                                       "tape": [ri(c1), ri(c2)]}
                if n1 <= 4 and n2 <= 4:
                    for c1 in range(0, n1 + 1):
                        for c2 in range(0, n2 + 1):
                            yield {"op": "messy", "back": back, "a": a, "b": b, "tape": [ri(c1), ri(c2)]}
    # --- binary strings x decision vectors
    for n in range(0, 5):
        strings = [list(s) for s in itertools.product([0, 1], repeat=n)]
        for ds in itertools.product([False, True], repeat=n):
            tp = [rnd(f) for f in ds]
            for a in strings:
                yield {"op": "flip", "a": a, "indpb": 0.5, "tape": tp}
                yield {"op": "flipb", "a": a, "indpb": 0.5, "tape": tp}
                if n <= 3 or thorough:
                    for b in strings:
                        yield {"op": "uniform", "a": a, "b": b, "indpb": 0.5, "tape": tp}
            if n <= 3:
                for m in range(n, 5):
                    yield {"op": "uniform", "a": list(range(10, 10 + n)), "b": list(range(20, 20 + m)), "indpb": 0.5, "tape": tp}
                    yield {"op": "uniform", "b": list(range(10, 10 + n)), "a": list(range(20, 20 + m)), "indpb": 0.5, "tape": tp}
    # --- shuffle: every selection vector x every randint result
    for n in range(0, 5):
        a = list(range(n))
        for ds in itertools.product([False, True], repeat=n):
            k = sum(ds)
            if k and n < 2:
                continue            # randint(0, -1) raises: outside the quantifier (length >= 2)
            for vs in itertools.product(range(max(n - 1, 1)), repeat=k):
                tp, it = [], iter(vs)
                for f in ds:
                    tp.append(rnd(f))
                    if f:
                        tp.append(ri(next(it)))
                yield {"op": "shuffle", "a": a, "indpb": 0.5, "tape": tp}
    # --- inversion: all index pairs
    for n in range(0, 6):
        a = list(range(n))
        for back in ("list", "array"):
            if n == 0:
                yield {"op": "inversion", "back": back, "a": a, "tape": []}
            for i in range(n):
                for j in range(n):
                    yield {"op": "inversion", "back": back, "a": a, "tape": [rr(i), rr(j)]}
    # --- uniform int: n <= 3, bounds [0,1] / per gene, all selections x all values
    for n in range(0, 4):
        a = [7] * n
        for low, up in ((0, 1), ([0, 2, 4][:n], [1, 3, 5][:n]), (-1, [0, 1, 0][:n] + [9])):
            for ds in itertools.product([False, True], repeat=n):
                choices = []
                for i, f in enumerate(ds):
                    if f:
                        lo = low[i] if isinstance(low, list) else low
                        hi = up[i] if isinstance(up, list) else up
                        choices.append(range(lo, hi + 1))
                for vs in itertools.product(*choices):
                    tp, it = [], iter(vs)
                    for f in ds:
                        tp.append(rnd(f))
                        if f:
                            tp.append(ri(next(it)))
                    yield {"op": "uniformint", "a": a, "low": low, "up": up, "indpb": 0.5, "tape": tp}


def rand_indpb(rng):
    r = rng.random()
    if r < 0.1:
        return 0.0
    if r < 0.2:
        return 1.0
    if r < 0.5:
        return 0.5
    return rng.random()


def rand_genes(rng, n):
    style = rng.random()
    if style < 0.4:
        return [rng.randint(-9, 9) for _ in range(n)]          # duplicates likely
    if style < 0.7:
        return [rng.randint(0, 1) for _ in range(n)]           # binary
    return rng.sample(range(-50, 50), n)                       # distinct


def random_case(rng):
    op = rng.choice(["onepoint", "twopoint", "uniform", "messy", "estwopoint", "pmx", "upmx", "ox",
                     "shuffle", "flip", "flipb", "uniformint", "inversion"])
    d = {"op": op, "tapeseed": rng.getrandbits(48)}
    elementwise = op in ("uniform", "pmx", "upmx", "ox", "shuffle", "flip", "flipb", "uniformint")
    d["back"] = rng.choice(["list", "array", "numpy"] if elementwise else ["list", "array"])
    if op == "flipb" and d["back"] == "array":
        d["back"] = "list"
    if op in ("onepoint", "twopoint", "uniform", "estwopoint"):
        n1 = rng.randint(2, 12)
        n2 = n1 if rng.random() < 0.5 else rng.randint(2, 12)
        if op == "uniform" and rng.random() < 0.1:
            n1 = rng.randint(0, 1)
        if op == "estwopoint" and d["back"] == "array":
            n2 = n1          # array strategies of unequal length would still work; keep the common use
        d["a"], d["b"] = rand_genes(rng, n1), rand_genes(rng, n2)
        if op == "estwopoint":
            d["sa"], d["sb"] = rand_genes(rng, n1), rand_genes(rng, n2)
        if op == "uniform":
            d["indpb"] = rand_indpb(rng)
    elif op == "messy":
        d["a"], d["b"] = rand_genes(rng, rng.randint(0, 12)), rand_genes(rng, rng.randint(0, 12))
    elif op in ("pmx", "upmx", "ox"):
        n = rng.randint(2, 12)
        r = rng.random()
        if r < 0.85:
            d["a"], d["b"] = rng.sample(range(n), n), rng.sample(range(n), n)
            if rng.random() < 0.1:
                d["b"] = list(d["a"])
        elif r < 0.95:        # in-range values with duplicates: no exception, model must follow the code
            d["kind"] = "garbage"
            d["a"], d["b"] = [rng.randrange(n) for _ in range(n)], [rng.randrange(n) for _ in range(n)]
            d["back"] = "list"
        else:                 # longer first/second parent: only the first `size` loci take part
            d["kind"] = "garbage"
            extra = [rng.randint(0, 30) for _ in range(rng.randint(1, 3))]
            d["a"], d["b"] = rng.sample(range(n), n), rng.sample(range(n), n)
            d["a" if rng.random() < 0.5 else "b"] += extra
            d["back"] = "list"
        if op == "upmx":
            d["indpb"] = rand_indpb(rng)
    elif op == "shuffle":
        n = rng.randint(2, 12)
        d["a"] = rng.sample(range(n), n) if rng.random() < 0.6 else rand_genes(rng, n)
        d["indpb"] = rand_indpb(rng)
    elif op in ("flip", "flipb"):
        n = rng.randint(0, 12)
        d["a"] = [rng.randint(0, 1) for _ in range(n)]
        if op == "flip" and rng.random() < 0.1:
            d["kind"] = "nonbinary"
            d["a"] = [rng.randint(-3, 3) for _ in range(n)]
        d["indpb"] = rand_indpb(rng)
    elif op == "uniformint":
        n = rng.randint(0, 12)
        d["a"] = [rng.randint(-20, 20) for _ in range(n)]
        lo0 = rng.randint(-10, 10)

        def bound(base, extra):
            if rng.random() < 0.5:
                return base
            return [base + extra * rng.randint(0, 3) for _ in range(n + rng.randint(0, 2))]
        d["low"] = bound(lo0, -1)
        d["up"] = bound(lo0 + rng.randint(0, 6), 1)
        d["indpb"] = rand_indpb(rng)
    elif op == "inversion":
        n = rng.randint(0, 12)
        d["a"] = rng.sample(range(n), n) if rng.random() < 0.6 else rand_genes(rng, n)
    return d


def generate(tier, rng, mult):
    for d in exhaustive(tier):
        yield d
    # boundary decisions: random() == indpb exactly must not select (strict <)
    for op in ("uniform", "upmx", "flip", "shuffle", "uniformint"):
        for pb in (0.0, 0.5, 1.0):
            d = {"op": op, "a": [1, 0, 2], "indpb": pb, "kind": "boundary",
                 "tape": [["random", pb if pb < 1.0 else 0.9999999999999999]] * 3}
            if op in ("uniform", "upmx"):
                d["b"] = [2, 1, 0]
            if op == "flip":
                d["a"] = [1, 0, 1]
            if op == "uniformint":
                d["low"], d["up"] = 3, 5
            if pb == 1.0 and op in ("shuffle", "uniformint"):
                d["tape"] = [x for _ in range(3) for x in (["random", 0.9999999999999999], ri(1 if op == "shuffle" else 4))]
            yield d
    if tier == "thorough":
        # n = 5: every permutation pair, a few draws each
        perms = [list(p) for p in itertools.permutations(range(5))]
        for a in perms:
            for b in perms:
                for _ in range(2):
                    yield {"op": "pmx", "a": a, "b": b, "tape": [ri(rng.randint(0, 5)), ri(rng.randint(0, 4))]}
                    yield {"op": "ox", "a": a, "b": b, "tape": [["sample", 5, 2, rng.sample(range(5), 2)]]}
                    yield {"op": "upmx", "a": a, "b": b, "indpb": 0.5,
                           "tape": [rnd(rng.random() < 0.5) for _ in range(5)]}
    n = (150000 if tier == "thorough" else 30000) * mult
    for _ in range(n):
        yield random_case(rng)


def shrink(d):
    # 1. a recorded tape becomes a forced one (same draws), so that the replay names every draw
    if "tapeseed" in d:
        try:
            tape = make_tape(d)
            e = dict(d)
            with tape:
                _evaluate_draws(e, tape)
        except Exception:  # noqa
            return
        e = {k: v for k, v in d.items() if k != "tapeseed"}
        e["tape"] = [list(x) for x in tape.draws]
        yield e
        return
    # 2. gene values towards 0/1 (the draws do not depend on gene values)
    if d["op"] in ("pmx", "upmx", "ox"):
        return
    for key in ("a", "b", "sa", "sb"):
        if key in d:
            for i, x in enumerate(d[key]):
                if x not in (0, 1):
                    for r in (0, 1):
                        e = dict(d)
                        e[key] = d[key][:i] + [r] + d[key][i + 1:]
                        yield e


def _evaluate_draws(d, tape):
    """runs the operator of case `d` once under `tape` (already entered) to collect its draws"""
    op, back = d["op"], d.get("back", "list")
    if op == "estwopoint":
        cls = creator.C09ESList if back == "list" else creator.C09ESArray
        i1, i2 = cls(d["a"]), cls(d["b"])
        i1.strategy, i2.strategy = list(d["sa"]), list(d["sb"])
        tools.cxESTwoPoint(i1, i2)
    elif op in CROSS:
        i1, i2 = mk(back, d["a"]), mk(back, d["b"])
        if op in ("uniform", "upmx"):
            CROSS[op](i1, i2, d["indpb"])
        else:
            CROSS[op](i1, i2)
    else:
        ind = mk(back, d["a"], op == "flipb")
        if op in ("shuffle", "flip", "flipb"):
            MUT[op](ind, d["indpb"])
        elif op == "uniformint":
            tools.mutUniformInt(ind, d["low"], d["up"], d["indpb"])
        else:
            tools.mutInversion(ind)


def classify(desc, msg, known):
    return None
