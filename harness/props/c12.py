"""C12 — Compiled GP trees compute what the prefix tree denotes; printing round-trips (deap/gp.py)."""
import ast
import itertools
import os
import random
import re
import struct
import sys
import warnings

from lib import Case
from deap import gp
from props import c11 as _c11

ANCHORS = [("deap/gp.py", ["PrimitiveTree.__str__", "PrimitiveTree.from_string", "Primitive.__init__", "Primitive.format",
                           "Terminal.__init__", "Terminal.format", "PrimitiveSetTyped.renameArguments",
                           "PrimitiveSetTyped.addTerminal", "PrimitiveSetTyped.addADF", "compile", "compileADF", "graph",
                           "mutSemantic", "cxSemantic"])]
LEVEL = "partial"
RULE = ("FIRST: histories on one fresh set object and a few tree objects (untyped 2/3 arguments, typed int/float/int; ADF families): str, compile, renameArguments (plain, swap, 3-cycle, "
        "a name freed in the same call, back-renaming, back to the original names, no-op / unknown keyword; chained), from_string round trip (the re-parsed tree lives on), deepcopy / pickle "
        "copies, the seven variation operators in place, compileADF after renamings of the ADF sets, earlier callables called again — after every step (dense) or only at the listed "
        "observations (sparse) compile(tree)(args) vs the direct interpretation of the current nodes (argument = identity of the set's terminal, by position) and str(tree) vs the recursive "
        "printer under pset.arguments; one `hist` line per tree object and segment vs GpCompile.runSession (observations, final names, values, evalRef). THEN: every primitive set (untyped with 0/1/2 arguments incl. renamed arguments, named terminals (also as the single node "
        "of a zero-argument set), overlapping renamings (swap, 3-cycle, rename onto a freed name), negative constants, anonymous constants equal by == but of different type / sign of zero, "
        "ephemerals; strongly typed int/bool/float with a subclass pair and dyadic float constants; untyped and typed STRING sets with unnamed string constants, named strings and "
        "string ephemerals; a typed int/bool set with bool ephemerals in int slots and a representation-sensitive primitive; a two-level ADF family with 1- and 0-argument main sets, "
        "a zero-argument ADF set) x trees of height 0..6 from genFull/genGrow/genHalfAndHalf and from chains of the variation operators; for each tree: "
        "str vs strBuilder vs render, the source handed to eval (captured from gp.compile's own call of eval) vs compileSrc, the hypotheses of the theorems (srcok), "
        "CPython's ast.parse of that source vs PyLang.parseExpr, the compiled callable vs PyLang.evalSrc of that source and vs evalTree on an argument grid + random values, "
        "re.split tokens vs tokens, from_string(str(t)) vs fromString; ADF individuals through the source texts (pyadf), a parent followed by an offspring that differs in one "
        "ADF branch; generated and randomly edited texts of the expression sub-language (every literal form, odd spacing, edge texts) against CPython's parser and evaluator; "
        "hand-made strings for the tokenizer / type checks of from_string; gp.graph(tree) (nodes, edges in emission order, labels) on the trees of every set; "
        "offspring of mutSemantic / cxSemantic as tree sources (a GSGP set whose `lf` is an exact integer function) and, with the real logistic function, the values of the "
        "compiled offspring against the model's offspring and against the closed formulas ind + ms*(lf(tr1) - lf(tr2)), tr'*ind1 + (1 - tr')*ind2 evaluated from the parts. Non-trivial = distinct tree with more than one node")
EXHAUSTIVE = {"quick": False, "thorough": False}
TIME_BUDGET = {"quick": 50, "thorough": 800}
TRUSTED = ["CPython's tokenizer, parser and evaluator on the expression sub-language `lambda a,b: f(g(x), -1, 'c')` — Name, Constant, Call, UnaryOp(USub), Lambda — "
           "agree with the Lean model Core/PyExpr.lean (parseExpr, evalPy): NOT proved (CPython is not formalised); compared on every run: for every source text DEAP "
           "hands to eval (captured at the call) the model's AST equals ast.parse's and the model's value equals the compiled callable's, plus generated / edited texts "
           "where the model may refuse a text but never reads another AST than CPython. What is no longer trusted: that the generated TEXT means the tree — "
           "C12.parse_compileSrc / evalSrc_compile / pyCompileADF_eq prove it for the model of the language",
           "repr of int, bool, float and str constants is the text the harness transports (Python's own repr; the model's literal reader is compared with Python on every "
           "printed constant)",
           "str.format with positional fields, re.split with a character class, collections.deque.extendleft",
           "IEEE-754 double +,-,*,/,< are the same operations in Lean's Float (float-typed trees); math.exp and Lean's Float.exp agree to 1e-9 relative "
           "(semden stream only, compared with a tolerance)"]
ASSUMPTIONS = ["node texts (primitive names, argument names, named terminals, reprs of constants) are non-empty and contain no "
               "separator character ` \\t\\n\\r\\f\\v(),` — ints, floats, bools, identifiers, strings without those characters",
               "SrcOK / ArgsOK (hypotheses of parse_compileSrc, evaluated by the driver on every compiled tree): primitive, argument and terminal names are ASCII identifiers "
               "that are not Python keywords, argument names are distinct, constants print as int / float literals (optionally signed), True / False / None, or a quoted "
               "string whose repr needs no backslash escape (printable ASCII, not both kinds of quote)",
               "the value of an ephemeral / constant has a Python type that is a subclass of its declared type",
               "the text of an unnamed string constant is not the name of another node of the set (pset.mapping is keyed by str(value): addTerminal('ARG0') would "
               "take over the argument's entry — see the builder's report, observation O1)",
               "float constants are normal doubles (the driver's decimal reader is exact there; subnormals are not generated)",
               "values are first order (int, bool, float, str, None); callables live in the namespace only (a terminal bound to a function object is outside the model)"]
MIN_CASES = 1000
CASE_TIMEOUT = 20
EXPLANATION = ("NOTE on `roundtrip`/`eval_roundtrip`: evalTree reads only kind, name and text of a node, so 'the re-parsed tree "
               "computes the same function' adds nothing beyond 'it prints identically with the same shape' in the model; the "
               "clause gets its content from the correspondence run, where the re-parsed tree is compiled by the real code. "
               "proof for the string builder (all arities), the tokenizer and the parser round trip incl. equal evaluation of the "
               "re-parsed tree and the ADF evaluation order; for 'the compiled callable' the path of the code — source text, eval — is modelled end to end: "
               "the text is tokenized and parsed by a model of the Python expression sub-language and the AST evaluated in the namespace, proved equal to evalTree "
               "(parse_compileSrc, evalPy_compile, evalSrc_compile, pyCompileADF_eq). Partial only because the agreement of that language model with CPython itself "
               "is established by differential runs (AST against ast.parse, values against the compiled callable), not by proof")

parse_all, Bad = _c11.parse_all, _c11.Bad
if hasattr(sys, "set_int_max_str_digits"):
    sys.set_int_max_str_digits(0)          # deep mul chains produce ints with thousands of digits


# ----------------------------------------------------------------------------------------------
# functions registered in the sets, with the model's op ids
# ----------------------------------------------------------------------------------------------

def f_add(a, b):
    return a + b


def f_sub(a, b):
    return a - b


def f_mul(a, b):
    return a * b


def f_neg(a):
    return -a


def f_max2(a, b):
    return max(a, b)


def f_max3(a, b, c):
    return max(a, b, c)


def f_ite(c, a, b):
    return a if c else b


def f_lt(a, b):
    return a < b


def f_and(a, b):
    return a and b


def f_not(a):
    return not a


def f_id(a):
    return a


def f_five():
    return 5


def f_dbl(a):
    return a + a


def f_concat(a, b):
    return a + b


def f_rev(a):
    return a[::-1]


def f_upper(a):
    return a.upper()


def f_pick(a, b, c):
    return b if len(a) % 2 else c


def f_width(a):
    """number of characters needed to write a"""
    return len(str(a))


def f_lf(x):
    """the logistic function of the GSGP operators"""
    import math
    return 1 / (1 + math.exp(-x))


OPID = {f_lf: "lf", f_concat: "concat", f_rev: "rev", f_upper: "upper", f_pick: "pick", f_width: "width", f_dbl: "dbl", f_five: "five", f_add: "add", f_sub: "sub", f_mul: "mul", f_neg: "neg", f_max2: "max2", f_max3: "max3", f_ite: "ite",
        f_lt: "lt", f_and: "and", f_not: "not", f_id: "id"}


def e_int():
    return random.randint(-9, 9)


def e_flt():
    # short dyadics and long / non-dyadic / exponent-form doubles (repr must be the shortest round-trip text)
    return random.choice([0.25, -0.5, 1.5, 2.0, -3.75, 0.0625, 0.1234567891, 1e-17, 1.0 / 3.0, 0.1, 2.5e-05,
                          123456.789, 1e+16, 0.30000000000000004, -2.718281828459045, 6.02214076e+23])



def e_bool():
    return random.random() < 0.5


def e_small():
    return random.randint(-2, 2)


def e_fint():
    # floats that are == to small ints / to each other with another sign of zero
    return random.choice([1.0, -2.0, 0.0, -0.0, 2.0, 0.5, -1.0])


def e_str():
    return random.choice("xyz") * random.randint(1, 2)


_uid = [0]


def uniq(name):
    _uid[0] += 1
    return "%s%d_%d" % (name, os.getpid(), _uid[0])


# ----------------------------------------------------------------------------------------------
# primitive sets
# ----------------------------------------------------------------------------------------------

TYPES = [object, int, bool, float, str]


def register_args(pset):
    """remember, BEFORE any renaming, which Terminal object stands for which argument position"""
    pset._argterms = [pset.mapping[a] for a in pset.arguments]
    return pset


def argmap_of(pset, tup):
    """argument values keyed by the identity of the argument terminals (position i <-> the terminal created for
    ARGi, whatever it is called now)"""
    return dict((id(t), v) for t, v in zip(pset._argterms, tup))


class PS(object):
    def __init__(self, key, pset):
        self.key, self.pset = key, pset
        assert hasattr(pset, "_argterms"), "register_args(pset) must be called when the set is created"
        _c11.assert_unique_names(pset)          # one declaration per name (gp.py's own requirement; DESIGN "C12 names")
        # the terminals that stand for a NAME (arguments, named terminals): decided from the set's tables, never from
        # Terminal.conv_fct — an unnamed string constant has a str value too, but nothing of its name in the context
        self.sym = set(id(t) for t in pset._argterms)
        for k, t in pset.mapping.items():
            if isinstance(t, gp.Terminal) and isinstance(t.value, str) and k in pset.context:
                self.sym.add(id(t))

    def tid(self, t):
        return TYPES.index(t)

    def node_tok(self, n):
        if isinstance(n, gp.Primitive):
            return "%s:%d:%s:p:" % (n.name, self.tid(n.ret), ".".join(str(self.tid(a)) for a in n.args))
        if type(n) is gp.MetaEphemeral:
            return "%s:%d::e:" % (n.name, self.tid(n.ret))
        kind = "e" if type(type(n)) is gp.MetaEphemeral else "t"
        # the text the MODEL prints for a terminal comes from its VALUE (str of a symbolic name, Python's own repr of
        # a constant), never from Terminal.format(): a change of the printer is then a disagreement
        text = self.term_text(n)
        name = n.name
        if kind == "t" and isinstance(n.value, str) and id(n) not in self.sym:
            name = text            # a string constant: from_string names the node after the literal it read
        return "%s:%d::%s:%s" % (name, self.tid(n.ret), kind, text)

    def term_text(self, n):
        if isinstance(n.value, str) and (id(n) in self.sym):
            return n.value
        return repr(n.value)

    def nodes_tok(self, l):
        return ",".join(self.node_tok(n) for n in l) if len(l) else "-"

    def sub_tok(self):
        n = len(TYPES)
        return ",".join("%d.%d" % (a, b) for a in range(n) for b in range(n) if issubclass(TYPES[a], TYPES[b]))

    def mapping_tok(self):
        m = self.pset.mapping
        return ";".join("%s=%s" % (enc(k), self.node_tok(v)) for k, v in m.items()) if m else "-"

    def funs_tok(self):
        out = []
        for k, v in self.pset.context.items():
            if callable(v) and v in OPID:
                out.append("%s=%s" % (enc(k), OPID[v]))
        return ",".join(out) if out else "-"

    def vars_tok(self):
        out = []
        for k, v in self.pset.context.items():
            if k != "__builtins__" and not callable(v):
                out.append("%s=%s" % (enc(k), val_tok(v)))
        return ",".join(out) if out else "-"

    def args_tok(self):
        # the name under which the terminal of argument i prints, by POSITION (equals pset.arguments[i] unless
        # renameArguments paired names and positions wrongly — then the model disagrees with the compiled lambda)
        a = [t.value for t in self.pset._argterms]
        return ",".join(enc(x) for x in a) if a else "-"


def enc(s):
    if s == "":
        return "-"
    return "".join(c if (c.isalnum() and ord(c) < 128) or c in "_.-" else "%%%02x" % ord(c) for c in s)


def val_tok(v):
    if isinstance(v, bool):
        return "b1" if v else "b0"
    if isinstance(v, int):
        return "i%d" % v
    if isinstance(v, float):
        return "f%d" % struct.unpack("<Q", struct.pack("<d", v))[0]
    if isinstance(v, str):
        return "s" + encd(v)
    if v is None:
        return "n"
    return "?" + enc(repr(v))       # not a value of the modelled signature (the oracle reports it)


def encd(s):
    """the encoding of PyLang.encD (no special case for the empty text)"""
    return "".join(c if (c.isalnum() and ord(c) < 128) or c in "_." else "%%%02x" % ord(c) for c in s)


def encs(s):
    """a source text as a protocol token (decodeText reads `-` as the empty text, so a minus is always escaped)"""
    if s == "":
        return "-"
    return "".join(c if (c.isalnum() and ord(c) < 128) or c in "_." else "%%%02x" % ord(c) for c in s)


def precompile(p):
    """history: a tree is compiled against the set BEFORE its arguments are renamed (compile - rename - compile); what
    compile builds for later trees must not depend on that earlier call (seeded change C12-r6m3 caches the lambda header)"""
    if p.arguments:
        gp.compile(gp.PrimitiveTree([p.mapping[p.arguments[0]]]), p)


def untyped(key, nargs, prims, consts, named=(), eph=True, rename=None):
    """an untyped set named MAIN"""
    p = register_args(gp.PrimitiveSet("MAIN", nargs))
    for f, ar, name in prims:
        p.addPrimitive(f, ar, name=name)
    for c in consts:
        p.addTerminal(c)
    for name, v in named:
        p.addTerminal(v, name=name)
    if eph:
        p.addEphemeralConstant(uniq("E"), e_int)
    if rename:
        precompile(p)
        p.renameArguments(**rename)
    return PS(key, p)


def b_u2():
    return untyped("u2", 2, [(f_add, 2, "add"), (f_sub, 2, "sub"), (f_mul, 2, "mul"), (f_neg, 1, "neg"),
                             (f_max2, 2, "max"), (f_ite, 3, "if_then_else")], [1, -1], [("three", 3)])


def b_u2x():
    # the twin of u2: same name, same argument names, same vocabulary — but `max` and `three` are bound differently
    return untyped("u2x", 2, [(f_add, 2, "add"), (f_sub, 2, "sub"), (f_mul, 2, "mul"), (f_neg, 1, "neg"),
                              (f_sub, 2, "max"), (f_ite, 3, "if_then_else")], [1, -1], [("three", 30)])


def b_u2m():
    # anonymous constants that are equal by == but differ in type / sign of zero: 1 vs 1.0 vs True, 0.0 vs -0.0
    p = register_args(gp.PrimitiveSet("MAIN", 2))
    for f, ar, name in [(f_add, 2, "add"), (f_sub, 2, "sub"), (f_neg, 1, "neg"), (f_max2, 2, "max"),
                        (f_ite, 3, "if_then_else"), (f_lt, 2, "lt")]:
        p.addPrimitive(f, ar, name=name)
    p.addEphemeralConstant(uniq("MI"), e_small)
    p.addEphemeralConstant(uniq("MF"), e_fint)
    p.addEphemeralConstant(uniq("MB"), e_bool)
    return PS("u2m", p)


def b_u2r():
    return untyped("u2r", 2, [(f_add, 2, "add"), (f_mul, 2, "mul"), (f_neg, 1, "neg"), (f_sub, 2, "sub"), (f_ite, 3, "ite")], [0, -2],
                   [("ten", 10)], rename={"ARG1": "x", "ARG0": "xy"})       # keywords NOT in positional order


ASYM = [(f_sub, 2, "sub"), (f_add, 2, "add"), (f_neg, 1, "neg"), (f_ite, 3, "ite"), (f_lt, 2, "lt")]


def b_u2s():
    # overlapping renaming: the two arguments exchange their names
    return untyped("u2s", 2, ASYM, [1, -2], rename={"ARG0": "ARG1", "ARG1": "ARG0"})


def b_u3c():
    # overlapping renaming: a 3-cycle rotation of the names
    return untyped("u3c", 3, ASYM, [0, 3], rename={"ARG0": "ARG1", "ARG1": "ARG2", "ARG2": "ARG0"})


def b_u3f():
    # overlapping renaming: ARG2 takes the name ARG0 frees in the same call (keywords not in positional order)
    return untyped("u3f", 3, ASYM, [1, -1], [("ten", 10)], rename={"ARG2": "ARG0", "ARG0": "z"})


def b_u0():
    # zero arguments: compile returns a value; `seven` is a NAMED terminal (its .value is the name)
    return untyped("u0", 0, [(f_add, 2, "add"), (f_mul, 2, "mul"), (f_neg, 1, "neg"), (f_max3, 3, "max3")], [2, -3],
                   [("seven", 7)])


def b_u1():
    return untyped("u1", 1, [(f_lt, 2, "lt"), (f_ite, 3, "ite"), (f_and, 2, "and_"), (f_not, 1, "not_"), (f_add, 2, "add"),
                             (f_sub, 2, "sub")], [0, 1, True], eph=False, rename={"ARG0": "n"})


def typed(key, ins, ret, rename=None):
    p = register_args(gp.PrimitiveSetTyped("MAIN", ins, ret))
    p.addPrimitive(f_add, [int, int], int, name="addI")
    p.addPrimitive(f_mul, [int, int], int, name="mulI")
    p.addPrimitive(f_neg, [int], int, name="negI")
    p.addPrimitive(f_max3, [int, int, int], int, name="max3I")
    p.addPrimitive(f_lt, [int, int], bool, name="ltI")
    p.addPrimitive(f_ite, [bool, int, int], int, name="iteI")
    p.addPrimitive(f_and, [bool, bool], bool, name="andB")
    p.addPrimitive(f_not, [bool], bool, name="notB")
    p.addPrimitive(f_lt, [float, float], bool, name="ltF")
    p.addPrimitive(f_add, [float, float], float, name="addF")
    p.addPrimitive(f_mul, [float, float], float, name="mulF")
    p.addPrimitive(f_neg, [float], float, name="negF")
    p.addPrimitive(f_ite, [bool, float, float], float, name="iteF")
    p.addPrimitive(f_five, [], int, name="five")             # a zero-argument primitive: prints `five()`
    p.addTerminal(0.1, float)
    p.addTerminal(1.0 / 3.0, float)
    p.addTerminal(1, int)
    p.addTerminal(-2, int)
    p.addTerminal(True, bool)
    p.addTerminal(False, bool)
    p.addTerminal(0.5, float)
    p.addTerminal(-1.25, float)
    p.addTerminal(0.75, float, name="q")
    p.addEphemeralConstant(uniq("EI"), e_int, int)
    p.addEphemeralConstant(uniq("EF"), e_flt, float)
    p.addEphemeralConstant(uniq("EB"), e_bool, bool)
    if rename:
        precompile(p)
        p.renameArguments(**rename)
    return PS(key, p)


STR_PRIMS = [(f_concat, 2, "concat"), (f_rev, 1, "rev"), (f_upper, 1, "upper"), (f_pick, 3, "pick")]
# unnamed string constants: printed with quotes (a digit string, a keyword-like text, one that needs double quotes)
STR_CONSTS = ["ab", "Q", "42", "True", "it's", "x-1"]


def b_us():
    # untyped set over strings: unnamed string CONSTANTS next to named ones and string-valued ephemerals
    p = register_args(gp.PrimitiveSet("MAIN", 2))
    for f, ar, name in STR_PRIMS:
        p.addPrimitive(f, ar, name=name)
    p.addTerminal("-", name="SEP")
    p.addTerminal("", name="EMPTY")
    for c in STR_CONSTS:
        p.addTerminal(c)
    p.addEphemeralConstant(uniq("ES"), e_str)
    ps = PS("us", p)
    ps.in_types = [str, str]          # the values the (untyped) arguments are given
    return ps


def b_ts():
    # the same, strongly typed, with renamed arguments
    p = register_args(gp.PrimitiveSetTyped("MAIN", [str, str], str))
    p.addPrimitive(f_concat, [str, str], str, name="concat")
    p.addPrimitive(f_rev, [str], str, name="rev")
    p.addPrimitive(f_upper, [str], str, name="upper")
    p.addPrimitive(f_pick, [str, str, str], str, name="pick")
    p.addTerminal("-", str, name="SEP")
    p.addTerminal("", str, name="EMPTY")
    for c in STR_CONSTS:
        p.addTerminal(c, str)
    p.addEphemeralConstant(uniq("EST"), e_str, str)
    p.renameArguments(ARG0="s", ARG1="t")
    return PS("ts", p)


def b_tw():
    # int and bool related by subclassing: bool EPHEMERALS (not in pset.mapping, unlike addTerminal(True, bool)) land in
    # int slots, and `width` tells True from 1
    p = register_args(gp.PrimitiveSetTyped("MAIN", [int, bool], int))
    p.addPrimitive(f_add, [int, int], int, name="add")
    p.addPrimitive(f_mul, [int, int], int, name="mul")
    p.addPrimitive(f_width, [int], int, name="width")
    p.addPrimitive(f_ite, [bool, int, int], int, name="if_then_else")
    p.addPrimitive(f_lt, [int, int], bool, name="lt")
    p.addPrimitive(f_and, [bool, bool], bool, name="and_")
    p.addTerminal(0, int)
    p.addTerminal(-2, int)
    p.addTerminal(10, int)
    p.addEphemeralConstant(uniq("EWI"), e_int, int)
    p.addEphemeralConstant(uniq("EWB"), e_bool, bool)
    p.renameArguments(ARG0="n", ARG1="flag")
    return PS("tw", p)


def b_ug():
    # a GSGP vocabulary (lf, mul, add, sub) for the semantic operators; `lf` is bound to an exact integer function here
    return untyped("ug", 2, [(f_add, 2, "add"), (f_sub, 2, "sub"), (f_mul, 2, "mul"), (f_dbl, 1, "lf"), (f_neg, 1, "neg")],
                   [1, -1], [("three", 3)])


def b_ugl():
    # the same with the real logistic function (semden stream only: values go through exp)
    return untyped("ugl", 2, [(f_add, 2, "add"), (f_sub, 2, "sub"), (f_mul, 2, "mul"), (f_lf, 1, "lf")], [1, -1, 2], eph=False)


BUILDERS = {"ug": b_ug, "us": b_us, "ts": b_ts, "tw": b_tw, "u2": b_u2, "u2r": b_u2r, "u0": b_u0, "u1": b_u1,
            "ti": lambda: typed("ti", [int, float], int),
            "tf": lambda: typed("tf", [float, int, bool], float, rename={"ARG2": "flag", "ARG0": "a"}),
            "tb": lambda: typed("tb", [], bool),
            "tf0": lambda: typed("tf0", [], float),          # zero-argument typed set whose root may be the named `q`
            "u2m": b_u2m, "u2s": b_u2s, "u3c": b_u3c, "u3f": b_u3f}
PSNAMES = sorted(BUILDERS)
BUILDERS["u2x"] = b_u2x
BUILDERS["ugl"] = b_ugl
_cache = {}


def get_ps(key):
    if key not in _cache:
        _cache[key] = BUILDERS[key]()
    return _cache[key]


def adf_family(nmain=1):
    """main (with `nmain` arguments; 0 = compileADF returns a value) calls ADF1 and ADF2; ADF1 calls ADF2"""
    # names only have to be unique within ONE set: every set of the family binds `scale` and `k` differently
    a2 = register_args(gp.PrimitiveSet("ADF2", 2))
    a2.addPrimitive(f_add, 2, name="add")
    a2.addPrimitive(f_mul, 2, name="mul")
    a2.addPrimitive(f_dbl, 1, name="scale")
    a2.addTerminal(7, name="k")
    a2.addTerminal(-1)
    a1 = register_args(gp.PrimitiveSet("ADF1", 2))
    a1.addPrimitive(f_sub, 2, name="sub")
    a1.addPrimitive(f_neg, 1, name="neg")
    a1.addPrimitive(f_id, 1, name="scale")
    a1.addTerminal(-3, name="k")
    a1.addADF(a2)
    a1.addTerminal(2)
    a1.renameArguments(ARG0="u")
    m = register_args(gp.PrimitiveSet("MAIN", nmain))
    m.addPrimitive(f_add, 2, name="add")
    m.addPrimitive(f_max2, 2, name="max")
    m.addPrimitive(f_neg, 1, name="scale")
    m.addTerminal(10, name="k")
    m.addADF(a1)
    m.addADF(a2)
    m.addTerminal(1)
    m.addEphemeralConstant(uniq("EM"), e_int)
    return [PS("adf-main", m), PS("adf-1", a1), PS("adf-2", a2)]


_adf = {}


def get_adf0():
    if "zero" not in _adf:
        a0 = register_args(gp.PrimitiveSet("ADF0", 0))
        a0.addPrimitive(f_add, 2, name="add")
        a0.addPrimitive(f_mul, 2, name="mul")
        a0.addTerminal(2)
        a0.addTerminal(3)
        m = register_args(gp.PrimitiveSet("MAIN", 1))
        m.addPrimitive(f_add, 2, name="add")
        m.addPrimitive(f_neg, 1, name="neg")
        m.addADF(a0)
        m.addTerminal(1)
        _adf["zero"] = [PS("adf0-main", m), PS("adf0-0", a0)]
    return _adf["zero"]
ADF_HEIGHT_CAP = (3, 3, 3)


def get_adf(nmain=1):
    if nmain not in _adf:
        _adf[nmain] = adf_family(nmain)
    return _adf[nmain]


# ----------------------------------------------------------------------------------------------
# trees
# ----------------------------------------------------------------------------------------------

GEN = {"full": gp.genFull, "grow": gp.genGrow, "half": gp.genHalfAndHalf}
SIZE_CAP = 400


def make_tree(pset, g):
    """g = {mode, mn, mx, seed, ops: [...]}: a generated tree, then a chain of variation operators"""
    st = random.getstate()
    random.seed(g["seed"])
    try:
        for _ in range(20):
            t = gp.PrimitiveTree(GEN[g["mode"]](pset, g["mn"], g["mx"]))
            if len(t) <= SIZE_CAP:
                break
        else:
            t = gp.PrimitiveTree(gp.genGrow(pset, 0, 2))
        for op in g.get("ops", ()):
            if len(t) > SIZE_CAP:
                break
            if op == "cx":
                o = gp.PrimitiveTree(gp.genHalfAndHalf(pset, 1, 3))
                t, _ = gp.cxOnePoint(t, o)
            elif op == "cxlb":
                o = gp.PrimitiveTree(gp.genHalfAndHalf(pset, 1, 3))
                t, _ = gp.cxOnePointLeafBiased(t, o, 0.3)
            elif op == "mutu":
                t, = gp.mutUniform(t, expr=lambda pset, type_: gp.genHalfAndHalf(pset, 0, 2, type_), pset=pset)
            elif op == "mutn":
                t, = gp.mutNodeReplacement(t, pset)
            elif op == "mute":
                t, = gp.mutEphemeral(t, "all")
            elif op == "muti":
                t, = gp.mutInsert(t, pset)
            elif op == "muts":
                t, = gp.mutShrink(t)
            elif op == "msem":
                t, = gp.mutSemantic(t, gen_func=gp.genGrow, pset=pset, min=0, max=2,
                                    **({"ms": random.choice([0.5, 2.0, -1.25])} if random.random() < 0.4 else {}))
            elif op == "cxsem":
                o = gp.PrimitiveTree(gp.genHalfAndHalf(pset, 0, 2))
                a, b = gp.cxSemantic(t, o, gen_func=gp.genGrow, pset=pset, min=0, max=1)
                t = a if random.random() < 0.6 else b
    finally:
        random.setstate(st)
    return t


def interp(nodes, ctx, argmap, sym=None):
    """the statement's direct evaluation of the prefix tree with the set's functions / terminals / arguments;
    sym = ids of the terminals that stand for a name (None: every str-valued terminal does)"""
    def go(i):
        n = nodes[i]
        if isinstance(n, gp.Primitive):
            vals, j = [], i + 1
            for _ in range(n.arity):
                v, j = go(j)
                vals.append(v)
            return ctx[n.name](*vals), j
        if type(type(n)) is gp.MetaEphemeral:
            return n.value, i + 1
        if id(n) in argmap:                       # the terminal of an argument, whatever its (re)name
            return argmap[id(n)], i + 1
        if isinstance(n.value, str) and (sym is None or id(n) in sym):     # symbolic: a named terminal
            return ctx[n.value], i + 1
        return n.value, i + 1
    v, j = go(0)
    if j != len(nodes):
        raise Bad("orphan nodes")
    return v


def arg_values(t, rng, k):
    """k values of Python type t: a small grid first, then random ones"""
    if t is bool:
        return [False, True]
    if t is float:
        base = [0.0, 1.0, -0.5, 2.25]
        return base + [rng.choice([-1, 1]) * rng.randint(0, 64) / 16.0 for _ in range(k)]
    if t is str:
        base = ["", "a", "hello", "Q", "xy"]
        return base + ["".join(rng.choice("abQ-_'z9") for _ in range(rng.randint(0, 4))) for _ in range(k)]
    base = [-2, -1, 0, 1, 2]
    return base + [rng.randint(-50, 50) for _ in range(k)]


def arg_tuples(in_types, rng, cap=24):
    if not in_types:
        return [()]
    cols = [arg_values(t, rng, 2) for t in in_types]
    allt = list(itertools.product(*cols))
    if len(allt) > cap:
        allt = rng.sample(allt, cap)
    return allt


def tuples_tok(tuples):
    return ";".join(",".join(val_tok(v) for v in t) if t else "-" for t in tuples)


def same_value(a, b):
    """same Python type and same value; floats by bit pattern (0.0 vs -0.0 differ, NaN equals itself)"""
    if type(a) is not type(b):
        return False
    if isinstance(a, float):
        return struct.pack("<d", a) == struct.pack("<d", b)
    return a == b


class Spy(object):
    """records what DEAP hands to `eval` (gp.py calls the builtin through its module globals, so a module attribute
    `gp.eval` intercepts exactly those calls; nothing under $DEAP_REPO is edited)"""

    def __init__(self):
        self.seen = []

    def __enter__(self):
        real = eval

        def spy(code, g=None, l=None):
            self.seen.append((code, g, l))
            return real(code, g, l)
        gp.eval = spy
        return self

    def __exit__(self, *exc):
        del gp.eval
        return False


def capture_compile(tree, pset):
    """gp.compile, also returning the source string it evaluated and a note when it was not evaluated the way the
    model assumes (`eval(code, pset.context, {})`, exactly once)"""
    with Spy() as spy:
        f = gp.compile(tree, pset)
    if len(spy.seen) != 1:
        return f, None, "gp.compile called eval %d times" % len(spy.seen)
    code, g, l = spy.seen[0]
    how = None
    if not isinstance(code, str):
        how = "gp.compile handed a %s to eval" % type(code).__name__
    elif g is not pset.context:
        how = "gp.compile did not evaluate the source in pset.context"
    elif l != {}:
        how = "gp.compile evaluated the source with non-empty locals"
    return f, code, how


# ----------------------------------------------------------------------------------------------
# CPython's own parser, printed the way PyLang.dump prints the model's AST
# ----------------------------------------------------------------------------------------------

class Outside(Exception):
    """the text is valid Python but not in the modelled sub-language"""


def dump_node(n, top=False):
    if isinstance(n, ast.Name):
        return "N" + encd(n.id)
    if isinstance(n, ast.Constant):
        v = n.value
        if getattr(n, "kind", None) is not None:
            raise Outside("string prefix")
        if v is True:
            return "B1"
        if v is False:
            return "B0"
        if v is None:
            return "Z"
        if type(v) is int:
            return "I%d" % v
        if type(v) is float:
            return "F%d" % struct.unpack("<Q", struct.pack("<d", v))[0]
        if type(v) is str:
            return "S" + encd(v)
        raise Outside(type(v).__name__)
    if isinstance(n, ast.UnaryOp) and isinstance(n.op, ast.USub):
        return "M(%s)" % dump_node(n.operand)
    if isinstance(n, ast.Call):
        if not isinstance(n.func, ast.Name) or n.keywords or any(isinstance(a, ast.Starred) for a in n.args):
            raise Outside("call form")
        return "C%s(%s)" % (encd(n.func.id), ";".join(dump_node(a) for a in n.args))
    if isinstance(n, ast.Lambda) and top:
        a = n.args
        if a.posonlyargs or a.kwonlyargs or a.vararg or a.kwarg or a.defaults or a.kw_defaults:
            raise Outside("parameter form")
        return "L%s(%s)" % (",".join(encd(x.arg) for x in a.args), dump_node(n.body))
    raise Outside(type(n).__name__)


def py_dump(src):
    """the canonical text of `ast.parse(src, mode='eval')`; None when CPython rejects the text or it is outside the
    sub-language.  The builtin `eval` strips leading blanks before parsing (ast.parse does not)."""
    try:
        with warnings.catch_warnings():
            warnings.simplefilter("ignore")          # `1if x else 2` only draws a SyntaxWarning
            tree = ast.parse(src.lstrip(" \t"), mode="eval")
        return dump_node(tree.body, top=True)
    except (SyntaxError, ValueError, RecursionError, MemoryError, Outside):
        return None


def py_lines(ps_funs, ps_vars, hasargs, src, tuples, got):
    """the two protocol lines that tie CPython to the expression model for one source text: (i) the model's parser
    against CPython's, (ii) the model's evaluator against the values the compiled object returned"""
    d = py_dump(src)
    lines = ["C12 pyparse %s" % encs(src),
             "C12 pyeval %s %s %d %s %s" % (ps_funs, ps_vars, 1 if hasargs else 0, encs(src), tuples_tok(tuples))]
    expect = [d if d is not None else "none", ",".join(val_tok(v) for v in got)]
    return lines, expect


def compile_adf_spied(trees, fam):
    """gp.compileADF, also returning the source text evaluated for every set (in `fam` order) and a note when the
    texts were not evaluated the way the model assumes"""
    psets = [ps.pset for ps in fam]
    with Spy() as spy:
        f = gp.compileADF(trees, psets)
    if len(spy.seen) != len(psets):
        return f, None, "gp.compileADF called eval %d times for %d trees" % (len(spy.seen), len(psets))
    srcs, how = [], None
    for (code, g, l), pset in zip(reversed(spy.seen), psets):      # compiled innermost (last) set first
        if not isinstance(code, str):
            return f, None, "gp.compileADF handed a %s to eval" % type(code).__name__
        if g is not pset.context and how is None:
            how = "gp.compileADF did not evaluate the source of %s in its pset.context" % pset.name
        if l != {} and how is None:
            how = "gp.compileADF evaluated a source with non-empty locals"
        srcs.append(code)
    return f, srcs, how


def adf_py_lines(fam, trees, srcs, tuples, got):
    """compileADF through the very texts DEAP evaluated (the ADF callables are in the globals of the later lambdas),
    plus, per tree, the model's source and the hypotheses of the theorems"""
    parts, lines, expect = [], [], []
    for ps, t, src in zip(fam, trees, srcs):
        parts.append("%s %s %s %s %s" % (enc(ps.pset.name), ps.args_tok(), ps.funs_tok(), ps.vars_tok(), encs(src)))
        lines.append("C12 src %s %s" % (ps.args_tok(), ps.nodes_tok(t)))
        expect.append(enc(src))
        lines.append("C12 srcok %s %s" % (ps.args_tok(), ps.nodes_tok(t)))
        expect.append("1")
        dmp = py_dump(src)
        lines.append("C12 pyparse %s" % encs(src))
        expect.append(dmp if dmp is not None else "none")
    lines.append("C12 pyadf %s %s" % (tuples_tok(tuples), " ".join(parts)))
    expect.append(",".join(val_tok(v) for v in got))
    return lines, expect


def calls_adf(tree):
    return set(n.name for n in tree if isinstance(n, gp.Primitive) and n.name.startswith("ADF"))


def call(f, pset, args):
    return f(*args) if len(pset.arguments) > 0 else f


# ----------------------------------------------------------------------------------------------
# the expression sub-language itself: generated source texts (odd spacing, every literal form), and texts broken
# by random edits — CPython's parser / evaluator against PyLang.parseExpr / evalSrc
# ----------------------------------------------------------------------------------------------

PY_FUNS = {"add": f_add, "sub": f_sub, "mul": f_mul, "neg": f_neg, "max": f_max2, "ite": f_ite, "lt": f_lt,
           "and_": f_and, "not_": f_not, "five": f_five, "concat": f_concat, "rev": f_rev, "upper": f_upper,
           "pick": f_pick, "width": f_width}
PY_VARS = {"k1": 7, "match": 3, "_": -4, "half": 0.5, "sep": "-", "flag": True, "nil": None}
INT_LITS = ["0", "1", "7", "42", "1000000", "123456789"]
FLT_LITS = ["1.", ".5", "1e5", "1E-3", "1.5e+10", "0.1", "00.5", "1e-17", "2.5e-05", "0e0", "3.0", "0.30000000000000004",
            "1.E2", "12.e-1", "0.0"]
STR_LITS = ["'a'", '"b"', "\"it's\"", "''", "'x-1'", "'42'", '"True"', "'a b'", "'f(x, y)'", "'#'"]
BIG_LITS = ["123456789012345678901234567890", "6.02214076e+23", "1e+16", "1e308", "1.7976931348623157e+308"]


def py_funs_tok():
    return ",".join("%s=%s" % (enc(k), OPID[v]) for k, v in sorted(PY_FUNS.items()))


def py_vars_tok():
    return ",".join("%s=%s" % (enc(k), val_tok(v)) for k, v in sorted(PY_VARS.items()))


def sp(rng):
    return rng.choice(["", "", "", " ", "  ", "\t"])


def gen_call(rng, name, args, trailing=True):
    body = (sp(rng) + "," + sp(rng)).join(args)
    if args and trailing and rng.random() < 0.08:
        body += sp(rng) + ","                      # CPython accepts a trailing comma
    return "%s(%s%s%s)" % (name, sp(rng), body, sp(rng))


def gen_num(rng, depth, names):
    r = rng.random()
    if depth <= 0 or r < 0.3:
        c = rng.random()
        if c < 0.3:
            return rng.choice(INT_LITS)
        if c < 0.55:
            return rng.choice(FLT_LITS)
        if c < 0.65:
            return rng.choice(["True", "False"])
        if c < 0.8:
            return rng.choice(names["num"])
        if c < 0.9:
            return "-" + sp(rng) + rng.choice(INT_LITS + FLT_LITS + names["num"])
        return gen_call(rng, "five", [])
    if r < 0.4:
        return "-" + sp(rng) + gen_num(rng, depth - 1, names)
    if r < 0.5:
        return gen_call(rng, "neg", [gen_num(rng, depth - 1, names)])
    if r < 0.6:
        return gen_call(rng, "ite", [gen_any(rng, depth - 1, names), gen_num(rng, depth - 1, names), gen_num(rng, depth - 1, names)])
    if r < 0.67:
        return gen_call(rng, "lt", [gen_num(rng, depth - 1, names), gen_num(rng, depth - 1, names)])
    if r < 0.74:
        return gen_call(rng, "width", [rng.choice([gen_str(rng, depth - 1, names), rng.choice(INT_LITS), "True", "None",
                                                   "-" + rng.choice(INT_LITS)])])
    return gen_call(rng, rng.choice(["add", "sub", "mul", "max"]), [gen_num(rng, depth - 1, names), gen_num(rng, depth - 1, names)])


def gen_str(rng, depth, names):
    r = rng.random()
    if depth <= 0 or r < 0.35:
        return rng.choice(STR_LITS + names["str"])
    if r < 0.6:
        return gen_call(rng, "concat", [gen_str(rng, depth - 1, names), gen_str(rng, depth - 1, names)])
    if r < 0.75:
        return gen_call(rng, rng.choice(["rev", "upper"]), [gen_str(rng, depth - 1, names)])
    return gen_call(rng, "pick", [gen_str(rng, depth - 1, names), gen_str(rng, depth - 1, names), gen_str(rng, depth - 1, names)])


def gen_any(rng, depth, names):
    r = rng.random()
    if r < 0.5:
        return gen_num(rng, depth, names)
    if r < 0.8:
        return gen_str(rng, depth, names)
    if r < 0.9 or depth <= 0:
        return rng.choice(["None", "nil", "flag"])
    return gen_call(rng, "not_", [gen_any(rng, depth - 1, names)])


def gen_source(rng):
    """(source text, parameter types) of the sub-language"""
    depth = rng.choice([0, 1, 2, 2, 3])
    ptypes = rng.choice([None, [], [int], [float, int], [str], [int, str], [str, str, bool]])
    names = {"num": ["k1", "match", "_", "half"], "str": ["sep"]}
    params = []
    if ptypes:
        pool = {int: ["x", "y", "ARG0", "n_1"], float: ["u", "v"], str: ["s", "t", "ARG1"], bool: ["b", "c"]}
        for t in ptypes:
            nm = next(n for n in pool[t] if n not in params)
            params.append(nm)
            names["str" if t is str else "num"].append(nm)
    body = rng.choice([gen_num, gen_num, gen_str, gen_any])(rng, depth, names)
    if ptypes is None:
        return sp(rng) + body + sp(rng), None
    head = "lambda" + (" " + sp(rng) if params else sp(rng)) + (sp(rng) + "," + sp(rng)).join(params)
    if params and rng.random() < 0.05:
        head += ","
    return head + sp(rng) + ":" + sp(rng) + body + sp(rng), ptypes


EDIT_CHARS = "()()()',\":-+.eE0123456789abx_ \t,,*=[#lambda"


def edit_text(rng, s):
    for _ in range(rng.choice([1, 1, 2, 3])):
        i = rng.randrange(len(s) + 1)
        r = rng.random()
        if r < 0.4 and s:
            i = min(i, len(s) - 1)
            s = s[:i] + s[i + 1:]
        elif r < 0.8:
            s = s[:i] + rng.choice(EDIT_CHARS) + s[i:]
        elif s:
            i = min(i, len(s) - 1)
            s = s[:i] + rng.choice(EDIT_CHARS) + s[i + 1:]
    return s


# texts at the edge of the sub-language: what CPython accepts that the model must not read differently
EDGE_TEXTS = ["f(a,)", "lambda a,: a", "(a)", "1_0", "00", "007", "0x10", "1j", "1e400", "b'a'", "'a' 'b'", "''''''", "a if b else c",
              "not a", "a.b", "1..real", "1if x else 2", "lambda __debug__: 1", "__debug__", "f(*a)", "f(a=1)", "lambda a=1: a",
              "lambda *a: a", "x1e-17", "1e-17", "- 3", "--3", "-x", "-f(x)", "f (x)", "f(x)(y)", "True(1)", "lambda: lambda: 1",
              "f(lambda: 1)", " x", "x ", "\tx", " ", "-", "f()", "f( )", "f(,)", "f(a,,)", "lambda a,a: a", "lambda a b: a",
              "lambda a: a, 3", "'it''s'", '"a"', "'a\\n'", "'a\\'", "1.e5", "1.5.2", ".", "..5", "1e", "1e+", "1e+-3", "1E5",
              "0e0", "0.0e-0", "None", "none", "lambda None: 1", "lambda x: None", "nonlocal", "match", "case(1)", "type(1)",
              "_", "__x__", "lambda", "lambda:", "lambda : 1", "lambda:1", "lambdax: 1", "lambda x:-1", "f(-1,-x)", "1e5-3", "1e-5-3",
              "1.5e+10+1", "0b1", "0o7", "1__0", "1e1_0", "x'a'", "f('a'\"b\")", "'" * 3 + "a" + "'" * 3, "f(a)b", "f(a) b", "a,b",
              "a,", "()", "f(())", "f((a))", "f(a)(", "f(a))", "((", "1 2", "1, 2", "#", "a#b", "a # b", "\\", "1.0.", "01",
              "0_0", "9" * 60, "1" + "0" * 400 + ".0", "1e-400", "0." + "0" * 30 + "1", "-0", "-0.0", "- -0.0", "True", "-True",
              "-None", "-'a'", "--'a'", "f(True, None)", "lambda True: 1", "lambda x, y: x", "lambda x ,y: x", "lambda x,\ty :x"]


# ----------------------------------------------------------------------------------------------
# HISTORIES: one set object and a few tree objects living through str / compile / renameArguments / variation
# operators in place / copies / from_string; after every step compile(tree)(args) is compared with the direct
# interpretation of the tree's CURRENT nodes (arguments by position = identity of the set's argument terminals,
# under the CURRENT names pset.arguments) and str(tree) with the recursive printer on the current nodes
# ----------------------------------------------------------------------------------------------

import copy as _copy
import keyword as _keyword
import pickle as _pickle

HIST_SETS = ["hu2", "hu3", "ht3"]
FRESH_NAMES = ["x", "y", "z", "w", "n_1", "val", "a0", "b", "ARG7", "arg0", "X", "Arg1", "p2", "q_", "ARG10", "t"]
REN_KINDS = ["plain", "swap", "cycle", "freed", "back", "orig", "noop", "plain", "swap", "cycle"]
HIST_OPS = ["cx", "cxlb", "mutu", "mutn", "mute", "muti", "muts"]


def hist_set(key):
    """a FRESH set object per history (renamings mutate it)"""
    if key == "hu2":
        return untyped(key, 2, ASYM + [(f_mul, 2, "mul")], [1, -2], [("three", 3)])
    if key == "hu3":
        return untyped(key, 3, ASYM + [(f_max3, 3, "max3")], [0, 3], [("ten", 10)])
    return typed(key, [int, float, int], int)


def hist_printer(nodes, leaf):
    """the recursive text `name(a1, a2, ...)` of the prefix list; `leaf(n)` = the text of a terminal"""
    def go(i):
        n = nodes[i]
        if isinstance(n, gp.Primitive):
            parts, j = [], i + 1
            for _ in range(n.arity):
                t, j = go(j)
                parts.append(t)
            return "%s(%s)" % (n.name, ", ".join(parts)), j
        return leaf(n), i + 1
    t, j = go(0)
    if j != len(nodes):
        raise Bad("orphan nodes")
    return t


class HTree(object):
    """a tree object of a history: `pos` = id(node) -> argument position for leaves that are NOT the set's own
    argument terminals (a pickled copy has private copies of them); `log` = what was observed on this object since
    its node list last changed (for the model's session), `names0` = the argument names at that moment"""

    def __init__(self, tree, names0, foreign=None):
        self.tree, self.names0, self.log, self.foreign = tree, list(names0), [], foreign


class Hist(object):
    def __init__(self, ps, rng):
        self.ps, self.pset, self.rng = ps, ps.pset, rng
        self.lines, self.expect, self.orc, self.corr = [], [], None, None
        self.idpos = dict((id(t), i) for i, t in enumerate(self.pset._argterms))
        self.in_types = list(self.pset.ins)
        self.tuples = arg_tuples(self.in_types, rng, cap=6)
        self.old = []                 # (callable, nodes at compile time, positions, text) of earlier compilations
        self.last = None              # the last effective renaming, for `back`
        self.renames = 0

    def fail(self, msg):
        if self.orc is None:
            self.orc = msg

    # -- the statement's reading of one tree object at this moment
    def pos_of(self, ht):
        m = dict(self.idpos)
        if ht.foreign:
            m.update(ht.foreign)
        return m

    def leaf_text(self, ht):
        pos = self.pos_of(ht)

        def leaf(n):
            if id(n) in pos:
                return self.pset.arguments[pos[id(n)]]            # the CURRENT name of that argument
            if type(type(n)) is gp.MetaEphemeral:
                return repr(n.value)
            if isinstance(n.value, str) and (id(n) in self.ps.sym or ht.foreign is not None):
                return n.name                                      # a named terminal
            return repr(n.value)
        return leaf

    def direct(self, nodes, pos, tup, foreign):
        argmap = dict((i, tup[p]) for i, p in pos.items())
        return interp(nodes, self.pset.context, argmap, None if foreign else self.ps.sym)

    def observe(self, ht, what="sc", final=False):
        """str and/or compile of the tree object, against the printer / the direct interpretation"""
        tree, pset = ht.tree, self.pset
        where = "after %s" % self.trail
        if "s" in what:
            s = str(tree)
            want = hist_printer(list(tree), self.leaf_text(ht))
            if s != want:
                self.fail("str(tree) = %r but the tree's current nodes print %r (arguments %r) %s" % (
                    s, want, pset.arguments, where))
            ht.log.append(("s", s))
        got = None
        if "c" in what:
            f, src, how = capture_compile(tree, pset)
            if how is not None and self.corr is None:
                self.corr = "CORRESPONDENCE: " + how
            pos = self.pos_of(ht)
            got = []
            for tup in self.tuples:
                want = self.direct(list(tree), pos, tup, ht.foreign is not None)
                try:
                    v = call(f, pset, tup)
                except Exception as e:  # noqa
                    v = e
                    self.fail("compiled %s%r (arguments %r) raises %s: %s but direct evaluation of the prefix tree "
                              "gives %r %s" % (hist_printer(list(tree), self.leaf_text(ht)), tup, pset.arguments,
                                               type(e).__name__, e, want, where))
                got.append(v)
                if not isinstance(v, Exception) and not same_value(v, want):
                    self.fail("compiled %s%r (arguments %r) = %r but direct evaluation of the prefix tree gives %r %s" % (
                        hist_printer(list(tree), self.leaf_text(ht)), tup, pset.arguments, v, want, where))
            if src is not None and not final:
                ht.log.append(("c", src))
            if not final:
                self.old.append((f, list(tree), pos, hist_printer(list(tree), self.leaf_text(ht)), list(pset.arguments)))
        return got

    def check_old(self):
        """a callable compiled earlier keeps computing what its tree denoted when it was compiled"""
        for f, nodes, pos, text, names in self.old[-6:]:
            for tup in self.tuples[:3]:
                want = interp(nodes, self.pset.context, dict((i, tup[p]) for i, p in pos.items()), None)
                try:
                    v = call(f, self.pset, tup)
                except Exception as e:  # noqa
                    v = e
                if isinstance(v, Exception) or not same_value(v, want):
                    self.fail("the callable compiled from %s (arguments then %r) returns %r at %r %s; the tree denoted %r" % (
                        text, names, v, tup, "after %s" % self.trail, want))

    def flush(self, ht):
        """the model's session for this tree object since its node list last changed (one protocol line)"""
        if ht.foreign is not None:
            ht.log, ht.names0 = [], list(self.pset.arguments)
            return
        got = self.observe(ht, "c", final=True)
        ps, toks = self.ps, []
        for n in ht.tree:
            if id(n) in self.idpos:
                toks.append("@%d:%d::t:stale" % (self.idpos[id(n)], ps.tid(n.ret)))
            else:
                toks.append(ps.node_tok(n))
        steps = []
        for kind, x in ht.log:
            if kind == "r":
                steps.append("r~" + (",".join("%s=%s" % (enc(a), enc(b)) for a, b in x) if x else "-"))
            else:
                steps.append(kind)
        if not steps:
            steps = ["r~-"]
        obs = [enc(x) for kind, x in ht.log if kind != "r"]
        vals = ",".join(val_tok(v) for v in got)
        self.lines.append("C12 hist %s %s %s %s %s %s" % (
            ps.funs_tok(), ps.vars_tok(), ",".join(enc(a) for a in ht.names0) if ht.names0 else "-", ";".join(steps),
            ",".join(toks), tuples_tok(self.tuples)))
        self.expect.append("%s %s %s %s" % (",".join(obs) if obs else "-",
                                            ",".join(enc(a) for a in pset_args(self.pset)) if self.pset.arguments else "-",
                                            vals, vals))
        ht.log, ht.names0 = [], list(self.pset.arguments)

    def rename(self, kind):
        pset, rng = self.pset, self.rng
        cur, n = list(pset.arguments), len(pset.arguments)
        taken = set(cur) | set(pset.context) | set(pset.mapping)
        fresh = [x for x in FRESH_NAMES if x not in taken and not _keyword.iskeyword(x)]
        rng.shuffle(fresh)
        pairs = []
        if n < 2 and kind in ("swap", "cycle", "freed"):
            kind = "plain"
        if n == 0:
            kind = "noop"
        if kind == "plain":
            idx = rng.sample(range(n), rng.randint(1, n))
            pairs = [(cur[i], fresh[k]) for k, i in enumerate(idx)]
        elif kind == "swap" or (kind == "cycle" and n < 3):
            i, j = rng.sample(range(n), 2)
            pairs = [(cur[i], cur[j]), (cur[j], cur[i])]
        elif kind == "cycle":
            a, b, c = rng.sample(range(n), 3)
            pairs = [(cur[a], cur[b]), (cur[b], cur[c]), (cur[c], cur[a])]
        elif kind == "freed":
            i, j = rng.sample(range(n), 2)
            pairs = [(cur[i], fresh[0]), (cur[j], cur[i])]            # j takes the name i frees in the same call
        elif kind == "back" and self.last:
            pairs = [(b, a) for a, b in self.last]
        elif kind in ("orig", "back"):
            orig = [t.name for t in pset._argterms]
            pairs = [(cur[i], orig[i]) for i in range(n) if cur[i] != orig[i]]
        elif kind == "noop":
            pairs = [("nosuch", fresh[0])] if rng.random() < 0.5 else []
        rng.shuffle(pairs)                                            # keywords in any order
        pset.renameArguments(**dict(pairs))
        eff = [(a, b) for a, b in pairs if a in cur and a != b]
        if eff:
            self.last = eff
            self.renames += 1
        return pairs, eff


def pset_args(pset):
    return list(pset.arguments)


def hist_adf_case(d):
    """the same for an ADF individual: one fresh family of sets, one list of trees; compileADF after every step"""
    rng = random.Random(d["seed"])
    fam = adf_family(1)
    psets = [ps.pset for ps in fam]
    hs = [Hist(ps, rng) for ps in fam]
    trees = []
    for ps, g, cap in zip(fam, d["gs"], ADF_HEIGHT_CAP):
        t = make_tree(ps.pset, g)
        if t.height > cap:
            t = make_tree(ps.pset, dict(g, mn=0, mx=1, ops=[]))
        trees.append(t)
    if not calls_adf(trees[0]):
        trees[0] = gp.PrimitiveTree.from_string("add(ADF1(ARG0, 1), ADF2(1, ARG0))", psets[0])
    tuples = [(v,) for v in [-2, 0, 1, 3] + [rng.randint(-9, 9) for _ in range(2)]]
    lines, expect, orc, old, done, renames = [], [], [None], [], [], 0

    def direct(ind, level, args):
        ps = psets[level]
        ctx = dict(ps.context)
        for j in range(level + 1, len(psets)):
            ctx[psets[j].name] = (lambda jj: (lambda *a: direct(ind, jj, a)))(j)
        return interp(ind[level], ctx, argmap_of(ps, args))

    def fail(msg):
        if orc[0] is None:
            orc[0] = msg + "  after " + " ; ".join(done)

    def check(record):
        for ps, h, t in zip(fam, hs, trees):
            s, want = str(t), hist_printer(list(t), h.leaf_text(HTree(t, [])))
            if s != want:
                fail("str(tree) = %r but the current nodes of the %s tree print %r (arguments %r)" % (s, ps.pset.name, want, ps.pset.arguments))
        try:
            f = gp.compileADF(trees, psets)
            got = [f(*tup) for tup in tuples]
        except Exception as e:  # noqa
            fail("compileADF / the compiled program raises %s: %s  [%s]" % (type(e).__name__, e, " | ".join(map(str, trees))))
            return
        snap = [list(t) for t in trees]
        for tup, v in zip(tuples, got):
            w = direct(snap, 0, tup)
            if not same_value(v, w):
                fail("compileADF result %r at %r but evaluating the trees directly gives %r  [%s]" % (v, tup, w, " | ".join(map(str, trees))))
        old.append((f, snap))
        if record:
            parts = ["%s %s %s %s %s" % (enc(ps.pset.name), ps.args_tok(), ps.funs_tok(), ps.vars_tok(), ps.nodes_tok(t))
                     for ps, t in zip(fam, trees)]
            lines.append("C12 adf %s %s" % (tuples_tok(tuples), " ".join(parts)))
            expect.append(",".join(val_tok(v) for v in got))

    for st in d["steps"]:
        op = st[0]
        j = st[1] % 3 if len(st) > 1 and isinstance(st[1], int) else 0
        if op == "adf":
            done.append("compileADF")
            check(True)
        elif op == "str":
            done.append("str(%s)" % psets[j].name)
            str(trees[j])
        elif op == "ren":
            pairs, eff = hs[j].rename(st[2])
            renames += 1 if eff else 0
            done.append("%s.renameArguments(%s)" % (psets[j].name, ", ".join("%s=%r" % p for p in pairs)))
        elif op == "vary" and len(trees[j]) <= 40:
            rs = random.getstate()
            random.seed(st[3])
            try:
                if st[2] == "mutn":
                    gp.mutNodeReplacement(trees[j], psets[j])
                elif st[2] == "muts":
                    gp.mutShrink(trees[j])
                else:
                    gp.mutUniform(trees[j], expr=lambda pset, type_: gp.genHalfAndHalf(pset, 0, 1, type_), pset=psets[j])
            finally:
                random.setstate(rs)
            if trees[j].height > ADF_HEIGHT_CAP[j] + 1:
                trees[j] = make_tree(psets[j], dict(d["gs"][j], mn=0, mx=1, ops=[]))      # keep the ints printable
            done.append("%s on the %s tree" % (st[2], psets[j].name))
        if d.get("dense", True):
            check(False)
        for f, snap in old[-4:]:
            for tup in tuples[:3]:
                try:
                    v = f(*tup)
                except Exception as e:  # noqa
                    v = e
                w = direct(snap, 0, tup)
                if isinstance(v, Exception) or not same_value(v, w):
                    fail("a program compiled earlier returns %r at %r, its trees denoted %r" % (v, tup, w))
    done.append("end")
    check(True)
    tag = "hist-adf/%s/%s" % ("dense" if d.get("dense", True) else "sparse", "renamed" if renames else "norename")
    return Case(d, lines, expect, orc[0], tag=tag, nontrivial=renames > 0)


def hist_case(d):
    rng = random.Random(d["seed"])
    ps = hist_set(d["ps"])
    pset = ps.pset
    H = Hist(ps, rng)
    H.trail = "creation"
    trees = [HTree(make_tree(pset, g), pset.arguments) for g in d["gs"]]
    dense = d.get("dense", True)
    done = []
    for k, st in enumerate(d["steps"]):
        op = st[0]
        alive = [t for t in trees]
        i = st[1] % len(alive) if len(st) > 1 and isinstance(st[1], int) and alive else 0
        H.trail = " ; ".join(done + [":".join(str(x) for x in st)])
        if op == "str":
            H.observe(alive[i], "s")
        elif op == "compile":
            H.observe(alive[i], "c")
        elif op == "ren":
            pairs, eff = H.rename(st[1])
            done.append("renameArguments(%s)" % ", ".join("%s=%r" % p for p in pairs))
            H.trail = " ; ".join(done)
            if eff:
                # a pickled copy made before this renaming has PRIVATE copies of the argument terminals, which keep the
                # old text: it is no longer a tree over this set (outside the quantifier) — it leaves the history
                trees = [t for t in trees if t.foreign is None]
            for t in trees:
                if t.foreign is None:
                    t.log.append(("r", pairs))
            if not trees:
                trees = [HTree(make_tree(pset, d["gs"][0]), pset.arguments)]
        elif op == "rt":
            ht = alive[i]
            s = str(ht.tree)
            try:
                back = gp.PrimitiveTree.from_string(s, pset)
            except Exception as e:  # noqa
                back = None
                H.fail("from_string(str(t)) raised %s: %s  [t = %s, arguments %r] after %s" % (
                    type(e).__name__, e, s, pset.arguments, H.trail))
            H.lines.append("C12 fs %s %s %s %s" % (ps.sub_tok(), ps.mapping_tok(), lit_types(ps), enc(s)))
            H.expect.append(ps.nodes_tok(back) if back is not None else "none")
            if back is not None:
                if str(back) != s:
                    H.fail("from_string(str(t)) prints %r instead of %r after %s" % (str(back), s, H.trail))
                elif len(back) != len(ht.tree) or [n.arity for n in back] != [n.arity for n in ht.tree]:
                    H.fail("from_string(str(t)) has another shape than %s after %s" % (s, H.trail))
                else:
                    fa, fb = gp.compile(ht.tree, pset), gp.compile(back, pset)
                    for tup in H.tuples:
                        try:
                            va, vb = call(fa, pset, tup), call(fb, pset, tup)
                        except Exception as e:  # noqa
                            H.fail("compiling %s / its re-parsed form raises %s: %s after %s" % (s, type(e).__name__, e, H.trail))
                            break
                        if not same_value(va, vb):
                            H.fail("from_string(str(t)) computes %r instead of %r at %r  [t = %s] after %s" % (vb, va, tup, s, H.trail))
                            break
                    if st[2] and ht.foreign is None:
                        nt = HTree(back, pset.arguments)       # the re-parsed tree lives on as one more object; it is
                        nt.reparsed = True                     # not varied (from_string types a root constant by its
                        trees.append(nt)                       # value, which no generator of an untyped set can refill)
        elif op == "copy":
            ht = alive[i]
            if st[2] == "deep":
                nt = HTree(_copy.deepcopy(ht.tree), ht.names0, ht.foreign)
                nt.reparsed = getattr(ht, "reparsed", False)
                nt.log = list(ht.log)                 # same node objects, same history of observations
            else:
                c = _pickle.loads(_pickle.dumps(ht.tree, st[3]))
                onames = dict((t.name, p) for p, t in enumerate(pset._argterms))
                nt = HTree(c, pset.arguments, dict((id(n), onames[n.name]) for n in c
                                                   if type(n) is gp.Terminal and n.name in onames))
            trees.append(nt)
        elif op == "vary":
            a = alive[i]
            b = alive[st[3] % len(alive)]
            if len(a.tree) <= 60 and len(b.tree) <= 60 and a.foreign is None and b.foreign is None and \
                    not getattr(a, "reparsed", False) and not getattr(b, "reparsed", False):
                two = st[2] in ("cx", "cxlb") and b is not a
                H.flush(a)
                if two:
                    H.flush(b)
                rs = random.getstate()
                random.seed(st[4])
                try:
                    if st[2] == "cx":
                        if two:
                            gp.cxOnePoint(a.tree, b.tree)
                    elif st[2] == "cxlb":
                        if two:
                            gp.cxOnePointLeafBiased(a.tree, b.tree, 0.3)
                    elif st[2] == "mutu":
                        gp.mutUniform(a.tree, expr=lambda pset, type_: gp.genHalfAndHalf(pset, 0, 2, type_), pset=pset)
                    elif st[2] == "mutn":
                        gp.mutNodeReplacement(a.tree, pset)
                    elif st[2] == "mute":
                        gp.mutEphemeral(a.tree, "all")
                    elif st[2] == "muti":
                        gp.mutInsert(a.tree, pset)
                    elif st[2] == "muts":
                        gp.mutShrink(a.tree)
                finally:
                    random.setstate(rs)
        if op != "ren":
            done.append(":".join(str(x) for x in st[:3]))
        if dense:
            for t in trees:
                H.observe(t, "sc")
        H.check_old()
    H.trail = " ; ".join(done + ["end"])
    for t in trees:
        H.observe(t, "sc")
        H.flush(t)
    H.check_old()
    tag = "hist/%s/%s/%s" % (d["ps"], "dense" if dense else "sparse", "renamed" if H.renames else "norename")
    return Case(d, H.lines, H.expect, H.orc if H.orc is not None else H.corr, tag=tag, nontrivial=H.renames > 0)


# ----------------------------------------------------------------------------------------------
# evaluate
# ----------------------------------------------------------------------------------------------

def lit_types(ps):
    return "%d.%d.%d.%d" % (ps.tid(int), ps.tid(bool), ps.tid(float), ps.tid(str))


def tree_case(d, ps, tree, rng, tagprefix):
    pset = ps.pset
    lines, expect, orc = [], [], None
    nodes = ps.nodes_tok(tree)
    s = str(tree)
    lines.append("C12 str %s" % nodes)
    expect.append(enc(s))
    lines.append("C12 render %s" % nodes)
    expect.append(enc(s))
    f, src, how = capture_compile(tree, pset)
    corr = None if how is None else "CORRESPONDENCE: " + how      # (a failing input, if there is one, goes first)
    if src is not None:
        lines.append("C12 src %s %s" % (ps.args_tok(), nodes))
        expect.append(enc(src))
        # the hypotheses of C12.parse_compileSrc / evalSrc_compile hold for this tree and these argument names
        lines.append("C12 srcok %s %s" % (ps.args_tok(), nodes))
        expect.append("1")
    toks = [t for t in re.split("[ \t\n\r\f\v(),]", s) if t != ""]
    lines.append("C12 tokens %s" % enc(s))
    expect.append(",".join(enc(t) for t in toks))
    # --- every constant: the printed text must evaluate back to the value (oracle); the model reads Python's repr
    seen = set()
    for n in tree:
        if isinstance(n, gp.Primitive) or (isinstance(n.value, str) and id(n) in ps.sym):
            continue
        key = (type(n.value).__name__, repr(n.value))
        if key in seen:
            continue
        seen.add(key)
        try:
            back_v = eval(n.format(), {"__builtins__": {}}, {})
        except Exception as e:  # noqa
            back_v = e
        if not same_value(back_v, n.value) and orc is None:
            orc = "the constant %r is printed as %r, which evaluates to %r" % (n.value, n.format(), back_v)
        lines.append("C12 lit %s" % enc(repr(n.value)))
        expect.append("%s %s" % (val_tok(n.value), enc(repr(n.value))))
    # --- compiled callable vs direct evaluation of the prefix tree (oracle) and vs the model ---
    in_types = getattr(ps, "in_types", None) or list(pset.ins)
    tuples = arg_tuples(in_types, rng)
    got = []
    for tup in tuples:
        want = interp(list(tree), pset.context, argmap_of(pset, tup), ps.sym)
        try:
            v = call(f, pset, tup)
        except Exception as e:  # noqa
            v = e
            if orc is None:
                orc = "compiled %s%r raises %s: %s but direct evaluation of the prefix tree gives %r" % (
                    s, tup, type(e).__name__, e, want)
        got.append(v)
        if not isinstance(v, Exception) and not same_value(v, want) and orc is None:
            orc = "compiled %s%r = %r but direct evaluation of the prefix tree gives %r" % (s, tup, v, want)
    lines.append("C12 ev %s %s %s %s %s" % (ps.funs_tok(), ps.vars_tok(), ps.args_tok(), nodes, tuples_tok(tuples)))
    expect.append(",".join(val_tok(v) for v in got))
    if src is not None:
        # --- CPython's parser / evaluator against the expression model, on the very text DEAP evaluated ---
        pl, pe = py_lines(ps.funs_tok(), ps.vars_tok(), len(pset.arguments) > 0, src, tuples, got)
        lines += pl
        expect += pe
    # --- round trip ---
    try:
        back = gp.PrimitiveTree.from_string(s, pset)
    except Exception as e:  # noqa
        back = None
        if orc is None:
            orc = "from_string(str(t)) raised %s: %s  [t = %s]" % (type(e).__name__, e, s)
    lines.append("C12 fs %s %s %s %s" % (ps.sub_tok(), ps.mapping_tok(), lit_types(ps), enc(s)))
    expect.append(ps.nodes_tok(back) if back is not None else "none")
    if back is not None and orc is None:
        if str(back) != s:
            orc = "from_string(str(t)) prints %r instead of %r" % (str(back), s)
        elif len(back) != len(tree):
            orc = "from_string(str(t)) has %d nodes instead of %d" % (len(back), len(tree))
        elif [n.arity for n in back] != [n.arity for n in tree]:
            orc = "from_string(str(t)) has different arities"
        else:
            fb = gp.compile(back, pset)
            for tup, v in zip(tuples, got):
                w = call(fb, pset, tup)
                if not same_value(v, w):
                    orc = "from_string(str(t)) computes %r instead of %r at %r  [t = %s]" % (w, v, tup, s)
                    break
    try:
        h = parse_all(list(tree))
        height = _c11.t_height(h)
    except Bad:
        height = -1
    tag = "%s/%s/h=%d%s" % (tagprefix, d["ps"], min(height, 7), "/ops" if d.get("g", {}).get("ops") else "")
    return Case(d, lines, expect, orc if orc is not None else corr, tag=tag, nontrivial=len(tree) > 1)


def evaluate(d):
    k = d["k"]
    rng = random.Random(d.get("seed", 0))
    if k == "tree":
        ps = get_ps(d["ps"])
        tree = make_tree(ps.pset, d["g"])
        return tree_case(d, ps, tree, rng, "tree")

    if k == "hist":
        return hist_case(d)
    if k == "hist-adf":
        return hist_adf_case(d)

    if k == "graph":
        # gp.graph(tree) against the model's stack loop (edges in the order they are appended, labels, node count)
        ps = get_ps(d["ps"])
        tree = make_tree(ps.pset, d["g"])
        nodes, edges, labels = gp.graph(tree)
        etok = ",".join("%d.%d" % (a, b) for a, b in edges) if edges else "-"
        try:
            lt = []
            for i, n in enumerate(tree):
                lab = labels[i]
                if isinstance(n, gp.Primitive) or (isinstance(lab, str) and id(n) in ps.sym):
                    lt.append(enc(str(lab)))
                else:
                    lt.append(enc(repr(lab)))
            ltok = ",".join(lt) if lt and len(labels) == len(tree) else "labels!"
        except KeyError:
            ltok = "labels!"
        ntok = str(len(nodes)) if list(nodes) == list(range(len(tree))) else "nodes!"
        return Case(d, ["C12 graph %s" % ps.nodes_tok(tree)], ["%s %s %s" % (etok, ltok, ntok)], None,
                    tag="graph/%s/%s" % (d["ps"], "ops" if d["g"].get("ops") else "gen"), nontrivial=len(tree) > 1)

    if k == "semden":
        # what the semantic offspring COMPUTE, with the real logistic function: the compiled offspring (real operator, real
        # compile) against (i) the model's offspring evaluated by evalTree and (ii) the closed formula evaluated from the
        # parts; the oracle is the statement: compiled offspring = direct evaluation of its prefix tree
        ps = get_ps("ugl")
        pset = ps.pset
        parts = [make_tree(pset, g) for g in d["gs"]]
        keep = [gp.PrimitiveTree(list(t)) for t in parts]                 # the operators work in place
        pieces = ",".join(ps.node_tok(pset.mapping[n]) for n in ("lf", "mul", "add", "sub"))
        queue = [list(t) for t in (parts[1:] if d["op"] == "mut" else parts[2:])]
        gen = lambda pset_, mn, mx: queue.pop(0)
        if d["op"] == "mut":
            out = list(gp.mutSemantic(parts[0], gen_func=gen, pset=pset, ms=d["ms"]))
            text = repr(float(d["ms"]))
        else:
            out = list(gp.cxSemantic(parts[0], parts[1], gen_func=gen, pset=pset))
            text = repr(1.0)
        tuples = [t for t in arg_tuples([int, int], rng, cap=12)]
        fs = [gp.compile(o, pset) for o in out]
        cols, orc, ok_tuples = [[] for _ in out], None, []
        for tup in tuples:
            try:
                vals = [f(*tup) for f in fs]
                wants = [interp(list(o), pset.context, argmap_of(pset, tup), ps.sym) for o in out]
            except OverflowError:
                continue                                   # math.exp beyond the double range: outside the model
            ok_tuples.append(tup)
            for c, v, w, o in zip(cols, vals, wants, out):
                c.append(v)
                if not same_value(v, w) and orc is None:
                    orc = "compiled %s%r = %r but direct evaluation of the prefix tree gives %r" % (str(o), tup, v, w)
        if not ok_tuples:
            return Case(d, [], [], orc, tag="semden/%s/empty" % d["op"], nontrivial=False)

        def ft(v):
            return "f:%d" % struct.unpack("<Q", struct.pack("<d", v))[0] if isinstance(v, float) else val_tok(v)
        half = ["," .join(ft(v) for v in c) for c in cols]
        line = "C12 semden %s %s %s %s %s %s %s %s" % (d["op"], ps.funs_tok(), ps.vars_tok(), ps.args_tok(), pieces,
                                                     " ".join(ps.nodes_tok(t) for t in keep), encs(text), tuples_tok(ok_tuples))
        expect = "|".join(half + half)           # the model's offspring, then the closed formulas: same values
        return Case(d, [line], [expect], orc, tag="semden/%s" % d["op"], nontrivial=True, tol=1e-9)

    if k == "adf":
        fam = get_adf(d.get("nmain", 1))
        trees = []
        for ps, g, cap in zip(fam, d["gs"], ADF_HEIGHT_CAP):
            t = make_tree(ps.pset, g)
            if t.height > cap:           # nested mul-ADFs: the degree multiplies per level, keep the ints printable
                t = make_tree(ps.pset, dict(g, mn=0, mx=1, ops=[]))
            trees.append(t)
        psets = [ps.pset for ps in fam]
        f, srcs, how = compile_adf_spied(trees, fam)
        if d.get("nmain", 1) == 0:
            tuples = [()]
        else:
            tuples = [(v,) for v in [-2, -1, 0, 1, 2, 3] + [rng.randint(-9, 9) for _ in range(4)]]
        got, orc = [], None

        def direct(level, args):
            ps = psets[level]
            ctx = dict(ps.context)
            for j in range(level + 1, len(psets)):
                ctx[psets[j].name] = (lambda jj: (lambda *a: direct(jj, a)))(j)
            return interp(list(trees[level]), ctx, argmap_of(ps, args))
        for tup in tuples:
            v = call(f, psets[0], tup)
            got.append(v)
            w = direct(0, tup)
            if not same_value(v, w) and orc is None:
                orc = "compileADF result %r at %r but evaluating the trees directly gives %r  [%s]" % (
                    v, tup, w, " | ".join(str(t) for t in trees))
        parts = []
        for ps, t in zip(fam, trees):
            parts.append("%s %s %s %s %s" % (enc(ps.pset.name), ps.args_tok(), ps.funs_tok(), ps.vars_tok(), ps.nodes_tok(t)))
        lines = ["C12 adf %s %s" % (tuples_tok(tuples), " ".join(parts))]
        expect = [",".join(val_tok(v) for v in got)]
        if srcs is not None:
            pl, pe = adf_py_lines(fam, trees, srcs, tuples, got)
            lines += pl
            expect += pe
        if orc is None and how is not None:
            orc = "CORRESPONDENCE: " + how
        tag = "adf/main%d/%s" % (d.get("nmain", 1), "calls" if calls_adf(trees[0]) else "plain")
        # each tree of the family also prints / parses / compiles on its own (ADF names are in the mapping)
        if (orc is None or orc.startswith("CORRESPONDENCE")) and d.get("each", True):
            sub = tree_print_only(fam[0], trees[0])
            lines += sub[0]
            expect += sub[1]
            orc = sub[2] if sub[2] is not None else orc
        return Case(d, lines, expect, orc, tag=tag, nontrivial=True)

    if k == "adf-seq":
        # a parent, then an offspring that differs from it in ONE ADF branch only, compiled one after the other against
        # the same sets (what a run does); the offspring's callable must compute the offspring's trees
        fam = get_adf(1)
        psets = [ps.pset for ps in fam]
        A = []
        for ps, g, cap in zip(fam, d["gs"], ADF_HEIGHT_CAP):
            t = make_tree(ps.pset, g)
            if t.height > cap:
                t = make_tree(ps.pset, dict(g, mn=0, mx=1, ops=[]))
            A.append(t)
        for i in range(1, 12):                      # a main tree that calls an ADF
            if calls_adf(A[0]):
                break
            A[0] = make_tree(psets[0], dict(d["gs"][0], seed=d["gs"][0]["seed"] + i, mn=1, mx=2, ops=[]))
        if not calls_adf(A[0]):
            A[0] = gp.PrimitiveTree.from_string("add(ADF1(ARG0, 1), ADF2(1, ARG0))", psets[0])
        reach2 = "ADF2" in calls_adf(A[0]) or ("ADF1" in calls_adf(A[0]) and "ADF2" in calls_adf(A[1]))
        branch = 2 if reach2 and (d.get("branch", 1) == 2 or "ADF1" not in calls_adf(A[0])) else 1
        B = list(A)
        for i in range(12):                         # another tree for that branch, everything else identical
            nb = make_tree(psets[branch], dict(d["gb"], seed=d["gb"]["seed"] + i))
            if nb.height > ADF_HEIGHT_CAP[branch]:
                nb = make_tree(psets[branch], dict(d["gb"], seed=d["gb"]["seed"] + i, mn=0, mx=1, ops=[]))
            if str(nb) != str(A[branch]):
                B[branch] = nb
                break

        def direct(ind, level, args):
            ps = psets[level]
            ctx = dict(ps.context)
            for j in range(level + 1, len(psets)):
                ctx[psets[j].name] = (lambda jj: (lambda *a: direct(ind, jj, a)))(j)
            return interp(list(ind[level]), ctx, argmap_of(ps, args))
        tuples = [(v,) for v in [-2, -1, 0, 1, 2, 3] + [rng.randint(-9, 9) for _ in range(3)]]
        fA, _srcA, _howA = compile_adf_spied(A, fam)
        fB, srcs, how = compile_adf_spied(B, fam)          # straight after A, nothing in between
        gotA = [fA(*t) for t in tuples]
        gotB = [fB(*t) for t in tuples]
        orc = None
        for ind, got, who in ((B, gotB, "the offspring"), (A, gotA, "the parent (called after the offspring was compiled)")):
            for t, v in zip(tuples, got):
                w = direct(ind, 0, t)
                if not same_value(v, w) and orc is None:
                    orc = ("compileADF of %s [%s] returns %r at %r, its trees denote %r; compiled straight %s [%s]" % (
                        who, " | ".join(map(str, ind)), v, t, w, "after the parent" if ind is B else "before the offspring",
                        " | ".join(map(str, A if ind is B else B))))
        parts = []
        for trees in (A, B):
            for ps, t in zip(fam, trees):
                parts.append("%s %s %s %s %s" % (enc(ps.pset.name), ps.args_tok(), ps.funs_tok(), ps.vars_tok(),
                                                 ps.nodes_tok(t)))
        lines = ["C12 adfs %s %s" % (tuples_tok(tuples), " ".join(parts))]
        expect = [",".join(val_tok(v) for v in gotA) + "|" + ",".join(val_tok(v) for v in gotB)]
        if srcs is not None:
            pl, pe = adf_py_lines(fam, B, srcs, tuples, gotB)
            lines += pl
            expect += pe
        if orc is None and how is not None:
            orc = "CORRESPONDENCE: " + how
        differs = any(not same_value(a, b) for a, b in zip(gotA, gotB))
        return Case(d, lines, expect, orc, tag="adf-seq/branch%d/%s" % (branch, "differs" if differs else "same"),
                    nontrivial=differs)

    if k == "adf0":
        # a zero-argument ADF set; the main tree calls `ADF0()`
        fam = get_adf0()
        psets = [ps.pset for ps in fam]
        trees = [make_tree(ps.pset, g) for ps, g in zip(fam, d["gs"])]
        if not any(n.name == "ADF0" for n in trees[0]):
            trees[0] = gp.PrimitiveTree.from_string("add(ADF0(), ARG0)", psets[0])
        tuples = [(v,) for v in (-2, 0, 3)]
        parts = ["%s %s %s %s %s" % (enc(ps.pset.name), ps.args_tok(), ps.funs_tok(), ps.vars_tok(), ps.nodes_tok(t))
                 for ps, t in zip(fam, trees)]
        line = "C12 adf %s %s" % (tuples_tok(tuples), " ".join(parts))
        a0 = interp(list(trees[1]), psets[1].context, {})
        want = [interp(list(trees[0]), dict(psets[0].context, ADF0=(lambda: a0)), argmap_of(psets[0], t)) for t in tuples]
        lines, expect = [line], [",".join(val_tok(v) for v in want)]
        try:
            f, srcs, how = compile_adf_spied(trees, fam)
            got = [f(*t) for t in tuples]
            orc = None if all(same_value(a, b) for a, b in zip(got, want)) else \
                "compileADF with a zero-argument ADF computes %r, the trees denote %r" % (got, want)
            if srcs is not None:
                pl, pe = adf_py_lines(fam, trees, srcs, tuples, got)
                lines += pl
                expect += pe
            if orc is None and how is not None:
                orc = "CORRESPONDENCE: " + how
        except TypeError as e:
            orc = "compileADF with a zero-argument ADF: calling the compiled program raises %s" % e
        return Case(d, lines, expect, orc, tag="adf0", nontrivial=True)

    if k == "adf-late":
        # the callable of individual A, called after individual B was compiled against the same sets, must
        # still compute A's trees
        fam = get_adf(1)
        psets = [ps.pset for ps in fam]

        def mk(gs):
            out = []
            for ps, g, cap in zip(fam, gs, ADF_HEIGHT_CAP):
                t = make_tree(ps.pset, g)
                if t.height > cap:
                    t = make_tree(ps.pset, dict(g, mn=0, mx=1, ops=[]))
                out.append(t)
            return out
        A, B = mk(d["gs"][:3]), mk(d["gs"][3:])

        def direct(level, args):
            ps = psets[level]
            ctx = dict(ps.context)
            for j in range(level + 1, len(psets)):
                ctx[psets[j].name] = (lambda jj: (lambda *a: direct(jj, a)))(j)
            return interp(list(A[level]), ctx, argmap_of(ps, args))
        fA = gp.compileADF(A, psets)
        tuples = [(v,) for v in [-2, -1, 0, 1, 2, 3] + [rng.randint(-9, 9) for _ in range(3)]]
        fB = gp.compileADF(B, psets)
        parts = []
        for trees in (A, B):
            for ps, t in zip(fam, trees):
                parts.append("%s %s %s %s %s" % (enc(ps.pset.name), ps.args_tok(), ps.funs_tok(), ps.vars_tok(),
                                                 ps.nodes_tok(t)))
        line = "C12 adfs %s %s" % (tuples_tok(tuples), " ".join(parts))
        exp = ",".join(val_tok(fA(*t)) for t in tuples) + "|" + ",".join(val_tok(fB(*t)) for t in tuples)
        orc = None
        for t in tuples:
            w, v = fA(*t), direct(0, t)
            if not same_value(v, w):
                orc = ("compiled callable of [%s] returns %r at %r after another individual [%s] was compiled; the value "
                       "of its trees is %r" % (" | ".join(map(str, A)), w, t, " | ".join(map(str, B)), v))
                break
        return Case(d, [line], [exp], orc, tag="adf-late", nontrivial=True)

    if k == "twin":
        # the same printed tree compiled against two distinct sets with the same name and vocabulary but different
        # bindings, one after the other: each callable must use ITS set's functions / terminals
        pa, pb = get_ps("u2"), get_ps("u2x")
        if d.get("swap"):
            pa, pb = pb, pa
        ta = make_tree(pa.pset, d["g"])
        s = str(ta)
        tb = gp.PrimitiveTree.from_string(s, pb.pset)
        tuples = arg_tuples(list(pa.pset.ins), rng, cap=10)
        lines, expect, orc = [], [], None
        fa = gp.compile(ta, pa.pset)
        fb = gp.compile(tb, pb.pset)
        for ps, tree, f in ((pa, ta, fa), (pb, tb, fb)):
            got = []
            for tup in tuples:
                v = f(*tup)
                got.append(v)
                want = interp(list(tree), ps.pset.context, argmap_of(ps.pset, tup), ps.sym)
                if not same_value(v, want) and orc is None:
                    orc = "compiled against set %s: %s%r = %r but direct evaluation with that set's bindings gives %r" % (
                        ps.key, s, tup, v, want)
            lines.append("C12 ev %s %s %s %s %s" % (ps.funs_tok(), ps.vars_tok(), ps.args_tok(), ps.nodes_tok(tree),
                                                  tuples_tok(tuples)))
            expect.append(",".join(val_tok(v) for v in got))
        uses = any(n.name in ("max", "three") for n in ta)
        return Case(d, lines, expect, orc, tag="twin/%s" % ("differs" if uses else "same"), nontrivial=uses)

    if k == "pysrc":
        # a text of the expression sub-language (no tree, no DEAP): the model's parser must read it exactly as CPython's
        # does and the model's evaluator must return what CPython's eval returns; `sound` = a broken text, where the
        # model may refuse but must never read an AST other than CPython's
        src = d["src"]
        dmp = py_dump(src)
        if d["mode"] == "sound":
            line = "C12 pysound %s %s" % (encs(src), dmp if dmp is not None else "none")
            return Case(d, [line], ["sound"], None, tag="pysrc/edited/%s" % ("python-accepts" if dmp is not None else "python-rejects"),
                        nontrivial=dmp is not None)
        ptypes = [TYPES[i] for i in d["ptypes"]] if d["ptypes"] is not None else None
        tuples = arg_tuples(ptypes, rng, cap=6) if ptypes is not None else [()]
        ctx = dict(PY_FUNS)
        ctx.update(PY_VARS)
        ctx["__builtins__"] = None
        got = []
        try:
            with warnings.catch_warnings():
                warnings.simplefilter("ignore")
                obj = eval(src, ctx, {})
        except Exception:  # noqa
            obj, got = None, ["none"] * len(tuples)
        else:
            for tup in tuples:
                try:
                    v = obj(*tup) if ptypes is not None else obj
                    got.append(val_tok(v))
                except Exception:  # noqa
                    got.append("none")
        lines = ["C12 pyparse %s" % encs(src),
                 "C12 pyeval %s %s %d %s %s" % (py_funs_tok(), py_vars_tok(), 1 if ptypes is not None else 0, encs(src),
                                                tuples_tok(tuples))]
        expect = [dmp if dmp is not None else "none", ",".join(got)]
        return Case(d, lines, expect, None, tag="pysrc/generated/%s" % ("lambda" if ptypes is not None else "value"),
                    nontrivial=len(src) > 3)

    if k == "text":
        # hand-made strings: tokenizer and from_string type checks (correspondence) — no oracle claim
        ps = get_ps(d["ps"])
        s = d["s"]
        toks = [t for t in re.split("[ \t\n\r\f\v(),]", s) if t != ""]
        lines = ["C12 tokens %s" % enc(s)]
        expect = [",".join(enc(t) for t in toks) if toks else "-"]
        try:
            back = gp.PrimitiveTree.from_string(s, ps.pset)
            exp = ps.nodes_tok(back)
        except (TypeError, SyntaxError, AttributeError):
            exp = "none"
        lines.append("C12 fs %s %s %s %s" % (ps.sub_tok(), ps.mapping_tok(), lit_types(ps), enc(s)))
        expect.append(exp)
        return Case(d, lines, expect, None, tag="text/%s/%s" % (d["ps"], "ok" if exp != "none" else "rejected"),
                    nontrivial=exp != "none")
    raise ValueError(k)


def tree_print_only(ps, tree):
    nodes = ps.nodes_tok(tree)
    s = str(tree)
    lines = ["C12 str %s" % nodes, "C12 fs %s %s %s %s" % (ps.sub_tok(), ps.mapping_tok(), lit_types(ps), enc(s))]
    orc = None
    try:
        back = gp.PrimitiveTree.from_string(s, ps.pset)
        exp = ps.nodes_tok(back)
        if str(back) != s or len(back) != len(tree):
            orc = "from_string(str(t)) differs for the ADF main tree %s" % s
    except Exception as e:  # noqa
        exp = "none"
        orc = "from_string(str(t)) raised %s on %s" % (e, s)
    return lines, [enc(s), exp], orc


# ----------------------------------------------------------------------------------------------
# generate
# ----------------------------------------------------------------------------------------------

OPS = ["cx", "cxlb", "mutu", "mutn", "mute", "muti", "muts"]


def gen_desc(rng, mn, mx, mode, nops=0):
    return {"mode": mode, "mn": mn, "mx": mx, "seed": rng.randrange(1 << 30),
            "ops": [rng.choice(OPS) for _ in range(nops)]}


def mutate_text(rng, s):
    """decorate a printed tree with extra separators / break it"""
    r = rng.random()
    if r < 0.35:
        return "".join(c + (rng.choice([" ", "\t", "\n", "  ", "\r", "\f", "\v"]) if c in "(,)" and rng.random() < 0.5 else "") for c in s)
    if r < 0.5:
        return s.replace(", ", ",")
    toks = re.split("([ (),])", s)
    words = [i for i, t in enumerate(toks) if t not in ("", " ", "(", ")", ",")]
    if not words:
        return s
    i = rng.choice(words)
    toks[i] = rng.choice(["foo", "1", "0.5", "True", "-7", "2.50", "007", "x", "ARG0", "1.", toks[rng.choice(words)]])
    return "".join(toks)


def gen_hist(rng):
    key = rng.choice(HIST_SETS)
    gs = []
    for _ in range(rng.choice([1, 2, 2, 3])):
        mx = rng.choice([0, 1, 2, 2, 3])
        gs.append(gen_desc(rng, rng.randint(0, mx), mx, rng.choice(["full", "grow", "half"]), nops=rng.choice([0, 0, 1])))
    steps = []
    for _ in range(rng.randint(3, 10)):
        r = rng.random()
        i = rng.randrange(8)
        if r < 0.15:
            steps.append(["str", i])
        elif r < 0.3:
            steps.append(["compile", i])
        elif r < 0.62:
            steps.append(["ren", rng.choice(REN_KINDS)])
        elif r < 0.72:
            steps.append(["rt", i, rng.random() < 0.5])
        elif r < 0.82:
            steps.append(["copy", i] + (["deep"] if rng.random() < 0.5 else ["pickle", rng.choice([0, 2, _pickle.HIGHEST_PROTOCOL])]))
        else:
            steps.append(["vary", i, rng.choice(HIST_OPS), rng.randrange(8), rng.randrange(1 << 30)])
    return {"k": "hist", "ps": key, "gs": gs, "steps": steps, "dense": rng.random() < 0.65, "seed": rng.randrange(1 << 30)}


# the shortest histories that carry the clause on their own: observe, rename, observe the SAME object
HIST_FIXED = [[["str", 0], ["ren", kind], ["compile", 0]] for kind in ("swap", "cycle", "plain", "freed")] + \
             [[["compile", 0], ["ren", kind], ["str", 0]] for kind in ("swap", "cycle", "plain", "freed")] + \
             [[["str", 0], ["ren", "swap"], ["ren", "back"], ["compile", 0]],
              [["compile", 0], ["ren", "plain"], ["ren", "plain"], ["ren", "orig"], ["compile", 0]],
              [["str", 0], ["copy", 0, "deep"], ["ren", "cycle"], ["compile", 1]],
              [["str", 0], ["copy", 0, "pickle", 2], ["compile", 1], ["ren", "swap"], ["compile", 0]],
              [["str", 0], ["ren", "swap"], ["rt", 0, True], ["compile", 1]],
              [["compile", 0], ["ren", "swap"], ["vary", 0, "mutn", 0, 7], ["ren", "cycle"], ["str", 0]]]


def generate(tier, rng, mult):
    thorough = tier == "thorough"
    # HISTORIES first (they carry the clause "(possibly renamed) arguments" for tree objects that were printed / compiled
    # before the renaming): the fixed shortest ones on every history set, sparse (only the listed observations), then random
    for key in HIST_SETS:
        for steps in HIST_FIXED:
            for _ in range(4 if thorough else 2):
                mx = rng.choice([1, 2, 2, 3])
                yield {"k": "hist", "ps": key, "gs": [gen_desc(rng, rng.randint(1, mx), mx, rng.choice(["full", "grow"]))],
                       "steps": steps, "dense": False, "seed": rng.randrange(1 << 30)}
    for _ in range((6000 if thorough else 400) * mult):
        yield gen_hist(rng)
    for n in range((2000 if thorough else 150) * mult):
        gs = [gen_desc(rng, rng.randint(0, 2), 2, rng.choice(["full", "grow", "half"])) for _ in range(3)]
        if n < 6:
            steps = [["adf"], ["ren", 1 + n % 2, ["swap", "freed", "plain"][n % 3]], ["adf"]]
        else:
            steps = []
            for _ in range(rng.randint(3, 8)):
                r = rng.random()
                if r < 0.25:
                    steps.append(["adf"])
                elif r < 0.4:
                    steps.append(["str", rng.randrange(3)])
                elif r < 0.8:
                    steps.append(["ren", rng.randrange(3), rng.choice(REN_KINDS)])
                else:
                    steps.append(["vary", rng.randrange(3), rng.choice(["mutn", "muts", "mutu"]), rng.randrange(1 << 30)])
        yield {"k": "hist-adf", "gs": gs, "steps": steps, "dense": n >= 6 and rng.random() < 0.6, "seed": rng.randrange(1 << 30)}
    # every set x generator x every min <= max in 0..6 (sizes capped inside make_tree)
    for key in PSNAMES:
        for mn in range(0, 7):
            for mx in range(mn, 7):
                for mode in ("full", "grow", "half"):
                    if mode != "grow" and mx >= 5 and not thorough and rng.random() < 0.5:
                        continue
                    for _ in range(2 if thorough else 1):
                        yield {"k": "tree", "ps": key, "g": gen_desc(rng, mn, mx, mode), "seed": rng.randrange(1 << 30)}
    # gp.graph on trees of every set; the semantic operators as tree sources and what their offspring compute
    for i in range((6000 if thorough else 300) * mult):
        key = PSNAMES[i % len(PSNAMES)]
        mx = rng.choice([0, 1, 2, 2, 3, 3, 4])
        yield {"k": "graph", "ps": key, "g": gen_desc(rng, rng.randint(0, mx), mx, rng.choice(["full", "grow", "half"]),
                                                      nops=rng.choice([0, 0, 1, 2]))}
    for i in range((4000 if thorough else 200) * mult):
        mx = rng.choice([0, 1, 2, 2, 3])
        g = gen_desc(rng, rng.randint(0, mx), mx, rng.choice(["full", "grow", "half"]))
        g["ops"] = [rng.choice(["msem", "cxsem", "msem", "cxsem", "mutu", "cx", "muts"]) for _ in range(rng.choice([1, 1, 2, 3]))]
        yield {"k": "tree", "ps": "ug", "g": g, "seed": rng.randrange(1 << 30)}
    for i in range((4000 if thorough else 200) * mult):
        op = "mut" if i % 2 == 0 else "cx"
        gs = [gen_desc(rng, rng.randint(0, 1), rng.choice([1, 2]), rng.choice(["full", "grow"])) for _ in range(3)]
        yield {"k": "semden", "op": op, "gs": gs, "ms": rng.choice([0.5, 1.0, 0.1, 2.0, -1.5, round(rng.random() * 2, 6)]),
               "seed": rng.randrange(1 << 30)}
    for _ in range((2000 if thorough else 150) * mult):
        yield {"k": "adf0", "gs": [gen_desc(rng, 1, 2, "full"), gen_desc(rng, 0, 2, "half")],
               "seed": rng.randrange(1 << 30)}
    for _ in range((3000 if thorough else 150) * mult):
        gs = [gen_desc(rng, rng.randint(0, 2), 2, rng.choice(["full", "grow", "half"])) for _ in range(6)]
        yield {"k": "adf-late", "gs": gs, "seed": rng.randrange(1 << 30)}
    for _ in range((3000 if thorough else 200) * mult):
        gs = [gen_desc(rng, rng.randint(0, 2), 2, rng.choice(["full", "grow", "half"])) for _ in range(3)]
        yield {"k": "adf-seq", "gs": gs, "branch": rng.choice([1, 2]),
               "gb": gen_desc(rng, rng.randint(0, 2), 2, rng.choice(["full", "grow", "half"])), "seed": rng.randrange(1 << 30)}
    for _ in range((3000 if thorough else 200) * mult):
        mx = rng.choice([1, 2, 2, 3, 4])
        yield {"k": "twin", "g": gen_desc(rng, rng.randint(0, mx), mx, rng.choice(["full", "grow", "half"]),
                                          nops=rng.choice([0, 0, 1, 2])),
               "swap": rng.random() < 0.5, "seed": rng.randrange(1 << 30)}
    for src in EDGE_TEXTS:
        yield {"k": "pysrc", "mode": "sound", "src": src}
    for _ in range((20000 if thorough else 700) * mult):
        src, ptypes = gen_source(rng)
        yield {"k": "pysrc", "mode": "pos", "src": src, "ptypes": [TYPES.index(t) for t in ptypes] if ptypes is not None else None,
               "seed": rng.randrange(1 << 30)}
        for _ in range(2):
            yield {"k": "pysrc", "mode": "sound", "src": edit_text(rng, src)}
    # evaluation that raises in CPython (TypeError / NameError) is `none` in the model
    for src in ["-'a'", "-None", "neg('a')", "add('a', 1)", "five(1)", "nosuch", "nosuch(1)", "k1(1)", "add(1)", "concat('a', 1)",
                "lt('a', 1)", "max(nil, 1)", "lambda x: y", "lambda x: x(1)", "lambda add: add(add, 1)", "lambda k1: k1",
                "lambda sep, k1: sub(sep, k1)", "lambda flag: ite(flag, nil, half)"]:
        yield {"k": "pysrc", "mode": "pos", "src": src, "ptypes": None if not src.startswith("lambda") else
               [TYPES.index(int)] * (src.split(":")[0].count(",") + 1), "seed": 1}
    for src in BIG_LITS + ["-" + x for x in BIG_LITS] + ["add(%s, 1)" % x for x in BIG_LITS[:1]]:
        yield {"k": "pysrc", "mode": "pos", "src": src, "ptypes": None, "seed": 0}
    n = (120000 if thorough else 4000) * mult
    for i in range(n):
        r = rng.random()
        if r < 0.55:
            key = rng.choice(PSNAMES)
            mx = rng.choice([0, 1, 2, 2, 3, 3, 4, 5, 6])
            mn = rng.randint(0, mx)
            yield {"k": "tree", "ps": key, "g": gen_desc(rng, mn, mx, rng.choice(["full", "grow", "half"]),
                                                          nops=rng.choice([0, 1, 1, 2, 3, 5])),
                   "seed": rng.randrange(1 << 30)}
        elif r < 0.75:
            gs = []
            for _ in range(3):
                mx = rng.choice([0, 1, 2, 2, 3, 4])
                gs.append(gen_desc(rng, rng.randint(0, mx), mx, rng.choice(["full", "grow", "half"]),
                                   nops=rng.choice([0, 0, 1, 2])))
            yield {"k": "adf", "gs": gs, "nmain": rng.choice([1, 1, 0]), "seed": rng.randrange(1 << 30)}
        else:
            key = rng.choice(PSNAMES)
            ps = get_ps(key)
            mx = rng.choice([0, 1, 2, 3])
            t = make_tree(ps.pset, gen_desc(rng, 0, mx, "half"))
            yield {"k": "text", "ps": key, "s": mutate_text(rng, str(t))}


def shrink(d):
    def smaller(g):
        if g.get("ops"):
            for i in range(len(g["ops"])):
                h = dict(g)
                h["ops"] = g["ops"][:i] + g["ops"][i + 1:]
                yield h
        for key in ("mx", "mn"):
            if g[key] > 0:
                h = dict(g)
                h[key] = g[key] - 1
                h["mn"] = min(h["mn"], h["mx"])
                yield h
    if d["k"] == "tree":
        for h in smaller(d["g"]):
            e = dict(d)
            e["g"] = h
            yield e
    if d["k"] in ("hist", "hist-adf"):
        for i in range(len(d["steps"])):
            e = dict(d)
            e["steps"] = d["steps"][:i] + d["steps"][i + 1:]
            yield e
        if d.get("dense"):
            yield dict(d, dense=False)
        if len(d["gs"]) > 1 and d["k"] == "hist":
            for i in range(len(d["gs"])):
                yield dict(d, gs=d["gs"][:i] + d["gs"][i + 1:])
        for i, g in enumerate(d["gs"]):
            for h in smaller(g):
                yield dict(d, gs=d["gs"][:i] + [h] + d["gs"][i + 1:])
    if d["k"] == "twin":
        for h in smaller(d["g"]):
            e = dict(d)
            e["g"] = h
            yield e
    if d["k"] in ("adf", "adf-late", "adf-seq"):
        for i, g in enumerate(d["gs"]):
            for h in smaller(g):
                e = dict(d)
                e["gs"] = d["gs"][:i] + [h] + d["gs"][i + 1:]
                yield e
    if d["k"] == "text" and len(d["s"]) > 1:
        for i in range(len(d["s"])):
            e = dict(d)
            e["s"] = d["s"][:i] + d["s"][i + 1:]
            yield e


def classify(desc, msg, known):
    return None
